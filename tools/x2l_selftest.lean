import Osmium.Generated.Src
open Osmium.Generated
def b (x : Bool) : Nat := if x then 1 else 0
def unhex (h : String) : List UInt8 :=
  if h == "-" then [] else
  let v (c : Char) : Nat := if c.isDigit then c.toNat - 48 else c.toNat - 87
  let rec go : List Char → List UInt8
    | a :: c :: r => UInt8.ofNat (v a * 16 + v c) :: go r
    | _ => []
  go h.toList
/-- phase 3: character cursors; the translated definition runs on the bytes + NUL with ample fuel; an input on which
    `_defined` is false prints UNDEFINED (the compiled code has no such line: a mismatch) -/
def cursorTests (path : String) : IO Unit := do
  let txt ← IO.FS.readFile path
  for line in txt.splitOn "\n" do
    match line.splitOn " " with
    | [kind, hex] =>
      let buf := unhex hex ++ [0]
      let fuel := buf.length + 10
      let showI (d : Bool) (o : Osmium.CxxSem.Outcome Int Int) : IO Unit :=
        if !d then IO.println s!"{kind} {hex} UNDEFINED" else
        match o with
        | .normal i r => IO.println s!"{kind} {hex} ok {r} {i}"
        | .thrown e i => IO.println s!"{kind} {hex} {e} {i}"
        | .nofuel => IO.println s!"{kind} {hex} NOFUEL"
      let showB (d : Bool) (o : Osmium.CxxSem.Outcome Int Bool) : IO Unit :=
        showI d (match o with | .normal i r => .normal i (if r then 1 else 0) | .thrown e i => .thrown e i | .nofuel => .nofuel)
      let showU (d : Bool) (o : Osmium.CxxSem.Outcome Int Unit) : IO Unit :=
        showI d (match o with | .normal i _ => .normal i 0 | .thrown e i => .thrown e i | .nofuel => .nofuel)
      if kind == "oplint64" then
        showI (Src.OplParserFunctions.opl_parse_int_ppc_ri64_defined fuel buf 0) (Src.OplParserFunctions.opl_parse_int_ppc_ri64 fuel buf 0)
      if kind == "oplintu32" then
        showI (Src.OplParserFunctions.opl_parse_int_ppc_ru32_defined fuel buf 0) (Src.OplParserFunctions.opl_parse_int_ppc_ru32 fuel buf 0)
      if kind == "oplid" then
        showI (Src.OplParserFunctions.opl_parse_id_defined fuel buf 0) (Src.OplParserFunctions.opl_parse_id fuel buf 0)
      if kind == "oplvisible" then
        showB (Src.OplParserFunctions.opl_parse_visible_defined buf 0) (Src.OplParserFunctions.opl_parse_visible buf 0)
      if kind == "oplspace" then
        showU (Src.OplParserFunctions.opl_parse_space_defined fuel buf 0) (Src.OplParserFunctions.opl_parse_space fuel buf 0)
      if kind == "oplnonempty" then
        showI (Src.OplParserFunctions.opl_non_empty_defined buf 0) (.normal 0 (if Src.OplParserFunctions.opl_non_empty buf 0 then 1 else 0))
      if kind == "utf8" then
        showI (Src.StringUtil.next_utf8_codepoint_defined buf 0 (buf.length - 1)) (Src.StringUtil.next_utf8_codepoint buf 0 (buf.length - 1))
      if kind == "fracsec" then
        showB (Src.Timestamp.fractional_seconds_defined fuel buf 0) (Src.Timestamp.fractional_seconds fuel buf 0)
      -- phase 4: functions that build a string (the output string starts as "R")
      let hexs (r : List UInt8) : String :=
        if r.isEmpty then "-" else String.join (r.map fun c => String.ofList [Nat.digitChar (c.toNat / 16), Nat.digitChar (c.toNat % 16)])
      let showS (d : Bool) (o : Osmium.CxxSem.Outcome (Int × List UInt8) Unit) : IO Unit :=
        if !d then IO.println s!"{kind} {hex} UNDEFINED" else
        match o with
        | .normal (i, r) _ => IO.println s!"{kind} {hex} ok {hexs r} {i}"
        | .thrown e (i, r) => IO.println s!"{kind} {hex} {e} {hexs r} {i}"
        | .nofuel => IO.println s!"{kind} {hex} NOFUEL"
      if kind == "oplescaped" then
        showS (Src.OplParserFunctions.opl_parse_escaped_defined fuel buf 0 [0x52]) (Src.OplParserFunctions.opl_parse_escaped fuel buf 0 [0x52])
      if kind == "oplstring" then
        showS (Src.OplParserFunctions.opl_parse_string_defined fuel buf 0 [0x52]) (Src.OplParserFunctions.opl_parse_string fuel buf 0 [0x52])
      if kind == "oplchar" then
        match unhex hex with
        | c :: rest =>
          let cI : Int := if c.toNat < 128 then c.toNat else (c.toNat : Int) - 256
          showU (Src.OplParserFunctions.opl_parse_char_defined (rest ++ [0]) 0 cI) (Src.OplParserFunctions.opl_parse_char (rest ++ [0]) 0 cI)
        | _ => pure ()
      if kind == "hex2" || kind == "hexmin4" then
        match unhex hex with
        | [a, b1, c, d] =>
          let v : Int := ((a.toNat * 16777216 + b1.toNat * 65536 + c.toNat * 256 + d.toNat : Nat) : Int)
          let tbl : List UInt8 := "0123456789abcdef".toUTF8.toList ++ [0]
          let (dd, o) := if kind == "hex2" then (Src.StringUtil.append_2_hex_digits_defined tbl [0x52] v 0, Src.StringUtil.append_2_hex_digits tbl [0x52] v 0)
                         else (Src.StringUtil.append_min_4_hex_digits_defined 10 tbl [0x52] v 0, Src.StringUtil.append_min_4_hex_digits 10 tbl [0x52] v 0)
          if !dd then IO.println s!"{kind} {hex} UNDEFINED"
          else match o with
            | .normal r _ => IO.println s!"{kind} {hex} ok {hexs r} 0"
            | .thrown e _ => IO.println s!"{kind} {hex} {e}"
            | .nofuel => IO.println s!"{kind} {hex} NOFUEL"
        | _ => pure ()
      if kind == "oplenc" then
        let bytes := unhex hex
        let ebuf : List UInt8 := bytes ++ [0] ++ "0123456789abcdef".toUTF8.toList ++ [0]
        let h : Int := bytes.length + 1
        if !(Src.StringUtil.append_utf8_encoded_string_lits ebuf [0x52] 0 h) then IO.println s!"oplenc {hex} NOLITS"
        else if !(Src.StringUtil.append_utf8_encoded_string_defined (fuel + 10) ebuf [0x52] 0 h) then IO.println s!"oplenc {hex} UNDEFINED"
        else match Src.StringUtil.append_utf8_encoded_string (fuel + 10) ebuf [0x52] 0 h with
          | .normal r _ => IO.println s!"oplenc {hex} ok {hexs r} 0"
          | .thrown e r => IO.println s!"oplenc {hex} {e} {hexs r} 0"
          | .nofuel => IO.println s!"oplenc {hex} NOFUEL"
      if kind == "cpenc" then
        match unhex hex with
        | [a, b1, c, d] =>
          let cp : Int := ((a.toNat * 16777216 + b1.toNat * 65536 + c.toNat * 256 + d.toNat : Nat) : Int)
          if !Src.StringUtil.append_codepoint_as_utf8_defined cp [0x52] then IO.println s!"cpenc {hex} UNDEFINED"
          else match Src.StringUtil.append_codepoint_as_utf8 cp [0x52] with
            | .normal r _ => IO.println s!"cpenc {hex} ok {hexs r} 0"
            | .thrown e _ => IO.println s!"cpenc {hex} {e}"
            | .nofuel => IO.println s!"cpenc {hex} NOFUEL"
        | _ => pure ()
      if kind == "coord" then
        if !Src.Location.string_to_location_coordinate_defined 200000 buf 0 then IO.println s!"coord {hex} UNDEFINED"
        else match Src.Location.string_to_location_coordinate 200000 buf 0 with
          | .normal i r => IO.println s!"coord {hex} ok {r} {i}"
          | .thrown e i => IO.println s!"coord {hex} {e} {i}"
          | .nofuel => IO.println s!"coord {hex} NOFUEL"
    | _ => pure ()
def main (args : List String) : IO Unit := do
  for l in [0, 1, 7, 8, 9, 63, 64, 65, 1000, 18446744073709551608, 18446744073709551609, 18446744073709551613, 18446744073709551615] do
    IO.println s!"pl {l} {Src.Item.padded_length l}"
  let ids : List Int := [0, 1, -1, 5, -5, 7, -7, 9223372036854775807, -9223372036854775807, -9223372036854775808]
  for a in ids do for c in ids do
    IO.println s!"io {a} {c} {b (Src.ObjectComparisons.id_order.op_call_i64_i64 a c)}"
  for z in List.range 32 do
    IO.println s!"nt {z} {Src.Tile.num_tiles_in_zoom z}"
  let cs : List Int := [0, 1800000000, 1800000001, -1800000000, -1800000001, 900000000, 900000001, -900000000, -900000001, 2147483647, -2147483648]
  for x in cs do for y in cs do
    let l : Src.Location.Location := ⟨x, y⟩
    IO.println s!"lv {x} {y} {b l.valid} {b l.is_defined} {b l.is_undefined} {b l.op_to_bool}"
  for i in [0, 1, 7, 8, 255, 33554431, 33554432, 33554433, 4294967295, 4294967296, 18446744073709551615] do
    IO.println s!"ids {i} {Src.IdSet.IdSetDense_u64_22.chunk_id i} {Src.IdSet.IdSetDense_u64_22.offset i} {Src.IdSet.IdSetDense_u64_22.bitmask i}"
  -- ---- phase 2 ----
  let cid : List Int := [0, 3, -3, 7, -9]
  let obj (id : Int) : Src.Object.OSMObject := ⟨⟨⟨⟨⟩, 40, 1, 0, 0, 0⟩⟩, id, false, 0, ⟨0⟩, 0, 0⟩
  for n in List.range (15 * 15 * 15) do
    let c := [n % 15, (n / 15) % 15, n / 225]
    let mut co : Src.CheckOrder.CheckOrder := ⟨⟨⟩, 0, 0, 0, false, false, false⟩
    let mut line := "co"
    let mut stop := false
    for ck in c do
      if !stop then
        let kind := ck / 5
        let id := cid[ck % 5]!
        let r := if kind == 0 then Src.CheckOrder.CheckOrder.node co ⟨obj id, ⟨2147483647, 2147483647⟩⟩
                 else if kind == 1 then Src.CheckOrder.CheckOrder.way co ⟨obj id⟩
                 else Src.CheckOrder.CheckOrder.relation co ⟨obj id⟩
        let (thrown, s') := match r with
          | .normal s _ => (0, s)
          | .thrown _ s => (1, s)
          | .nofuel => (2, co)
        co := s'
        line := line ++ s!" {kind}:{id}:{thrown}:{co.m_max_node_id},{co.m_max_way_id},{co.m_max_relation_id},{b co.m_has_node}{b co.m_has_way}{b co.m_has_relation}"
        if thrown != 0 then stop := true
    IO.println line
  let val {σ : Type} (o : Osmium.CxxSem.Outcome σ Int) (dflt : σ) : Int × σ := match o with
    | .normal s r => (r, s)
    | _ => (-99999, dflt)
  let mut e64 : Src.Delta.DeltaEncode_i64_i64 := ⟨0⟩
  let mut d64 : Src.Delta.DeltaDecode_i64_i64 := ⟨0⟩
  for v in ([0, 5, -5, 0, 9223372036854775807, 0, -9223372036854775807, -1, -9223372036854775808, -4611686018427387904, 4611686018427387903] : List Int) do
    let (d, e') := val (Src.Delta.DeltaEncode_i64_i64.update e64 v) e64
    e64 := e'
    let (x, d') := val (Src.Delta.DeltaDecode_i64_i64.update d64 d) d64
    d64 := d'
    IO.println s!"de64 {v} {d} {e64.m_value} {x}"
  let mut e32 : Src.Delta.DeltaEncode_u32_i32 := ⟨0⟩
  let mut e3264 : Src.Delta.DeltaEncode_u32_i64 := ⟨0⟩
  let mut ei32 : Src.Delta.DeltaEncode_i32_i32 := ⟨0⟩
  for v in ([0, 1, 2147483647, 0, 5, 2147483647, 2147483646, 7] : List Int) do
    let (a, s1) := val (Src.Delta.DeltaEncode_u32_i32.update e32 v) e32
    let (c, s2) := val (Src.Delta.DeltaEncode_u32_i64.update e3264 v) e3264
    let (d, s3) := val (Src.Delta.DeltaEncode_i32_i32.update ei32 v) ei32
    e32 := s1; e3264 := s2; ei32 := s3
    IO.println s!"de32 {v} {a} {c} {d}"
  for v in ([4294967295, 0, 4294967295, 2147483648, 1] : List Int) do
    let (c, s2) := val (Src.Delta.DeltaEncode_u32_i64.update e3264 v) e3264
    e3264 := s2
    IO.println s!"deu {v} {c}"
  -- Buffer(capacity, yes): reserve n, commit, reserve m (reserve_space assembled from its translated pieces)
  let reserve (s : Src.Buffer.Buffer) (n : Int) : Src.Buffer.Buffer :=
    let s1 := if Src.Buffer.reserve_space_cond_full s n && Src.Buffer.reserve_space_cond_still_full s n then
        match Src.Buffer.reserve_space_loop_double 64 s n (Src.Buffer.reserve_space_new_capacity s) with
        | some nc => if s.m_capacity < Src.Buffer.Buffer.calculate_capacity nc then { s with m_capacity := Src.Buffer.Buffer.calculate_capacity nc } else s
        | none => { s with m_capacity := -1 }
      else s
    { s1 with m_written := s1.m_written + n }
  let st {ρ : Type} (o : Osmium.CxxSem.Outcome Src.Buffer.Buffer ρ) (dflt : Src.Buffer.Buffer) : Src.Buffer.Buffer := match o with
    | .normal s _ => s
    | _ => dflt
  for c in ([64, 100, 1000] : List Int) do
    for n in ([8, 24, 56, 64, 72, 200, 1000, 5000, 100000] : List Int) do
      for m in ([8, 24, 56, 64, 72, 200, 1000, 5000, 100000] : List Int) do
        let b0 : Src.Buffer.Buffer := ⟨Src.Buffer.Buffer.calculate_capacity c, 0, 0, 1⟩
        let b1 := reserve b0 n
        let (r1, b2) := val (Src.Buffer.Buffer.commit b1) b1
        let b3 := reserve b2 m
        let b4 := st (Src.Buffer.Buffer.rollback b3) b3
        let (r2, b5) := val (Src.Buffer.Buffer.clear b4) b4
        IO.println s!"buf {c} {n} {m} : {r1} {Src.Buffer.Buffer.capacity b3} {Src.Buffer.Buffer.written b3} {Src.Buffer.Buffer.committed b3} {b (Src.Buffer.Buffer.is_aligned b3)} {b4.m_written} {b4.m_committed} {r2} {b5.m_written} {b5.m_committed}"
  for c in List.range 256 do
    let x : Int := (c : Int) - 128
    IO.println s!"cit {x} {Src.ItemType.char_to_item_type x}"
  for t in List.range 300 do
    IO.println s!"itc {t} {Src.ItemType.item_type_to_char t}"
  for i in List.range 3 do
    IO.println s!"nwr {i} {Src.ItemType.nwr_index_to_item_type i} {Src.ItemType.item_type_to_nwr_index (Src.ItemType.nwr_index_to_item_type i)}"
  let mids : List Int := [-2, 0, 5]
  let nums : List Int := [0, 1, 18446744073709551615]
  let poss : List Int := [0, 9]
  for a1 in mids do for a2 in nums do for a3 in poss do for b1 in mids do for b2 in nums do for b3 in poss do
    let a : Src.MembersDatabase.MembersDatabaseCommon.element := ⟨a1, a2, a3, ⟨0⟩⟩
    let e : Src.MembersDatabase.MembersDatabaseCommon.element := ⟨b1, b2, b3, ⟨0⟩⟩
    IO.println s!"el {a1} {a2} {a3} {b1} {b2} {b3} {b (a.op_lt_element e)} {b a.is_removed}"
  let ks : List Int := [0, 1, 4294967295, 4294967296, 4294967297, 18446744073709551615]
  for k1 in ks do for v1 in ks do for k2 in ks do for v2 in ks do
    let a := Src.RelationsMap.flat_map_u64_u32_u64_u32.kv_pair.ctor_u64_u64 k1 v1
    let e := Src.RelationsMap.flat_map_u64_u32_u64_u32.kv_pair.ctor_u64_u64 k2 v2
    IO.println s!"kv {k1} {v1} {k2} {v2} {a.key} {a.value} {b (a.op_lt_kv_pair e)} {b (a.op_eq_kv_pair e)}"
  let mut o : Src.Object.OSMObject := obj 1
  for v in ([0, 1, 2147483647, 2147483648, 2147483649, 4294967295] : List Int) do
    for d in [false, true] do
      o := match Src.Object.OSMObject.set_deleted o d with | .normal s _ => s | _ => o
      o := match Src.Object.OSMObject.set_version_u32 o v with | .normal s _ => s | _ => o
      IO.println s!"sv {v} {b d} {Src.Object.OSMObject.version o} {b (Src.Object.OSMObject.deleted o)}"
  match args with
  | [p] => cursorTests p
  | _ => pure ()
