import Osmium.Generated.Src
open Osmium.Generated
def b (x : Bool) : Nat := if x then 1 else 0
def main : IO Unit := do
  for l in [0, 1, 7, 8, 9, 63, 64, 65, 1000, 18446744073709551608, 18446744073709551609, 18446744073709551613, 18446744073709551615] do
    IO.println s!"pl {l} {Src.Item.padded_length l}"
  let ids : List Int := [0, 1, -1, 5, -5, 7, -7, 9223372036854775807, -9223372036854775807, -9223372036854775808]
  for a in ids do for c in ids do
    IO.println s!"io {a} {c} {b (Src.ObjectComparisons.id_order.op_call_i64_i64 a c)}"
  for z in List.range 32 do
    IO.println s!"nt {z} {Src.Tile.num_tiles_in_zoom z}"
  let cs : List Int := [0, 1800000000, 1800000001, -1800000000, -1800000001, 900000000, 900000001, -900000000, -900000001, 2147483647, -2147483648]
  for x in cs do for y in cs do
    let l : Src.Location.Location := ⟨x, y⟩
    IO.println s!"lv {x} {y} {b l.valid} {b l.is_defined} {b l.is_undefined} {b l.op_to_bool}"
  for i in [0, 1, 7, 8, 255, 33554431, 33554432, 33554433, 4294967295, 4294967296, 18446744073709551615] do
    IO.println s!"ids {i} {Src.IdSet.IdSetDense_u64_22.chunk_id i} {Src.IdSet.IdSetDense_u64_22.offset i} {Src.IdSet.IdSetDense_u64_22.bitmask i}"
