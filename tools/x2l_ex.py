"""Expression translation for tools/cxx2lean.py (class FullTranslator)."""
import re

from x2l_ast import Unsupported
from x2l_tr import E, Env, SEM, T_BOOL, T_DBL, T_VEC, Translator, Ty, conj, ident, PASS_THROUGH

CMP = {'<': 'lt', '<=': 'le', '>': 'gt', '>=': 'ge', '==': 'eq', '!=': 'ne'}
STD_WHITELIST = ('abs', 'min', 'max', 'minmax', 'labs', 'llabs')


def paren(t):
    return t if re.fullmatch(r'[A-Za-z0-9_.]+', t) or (t.startswith('(') and _balanced(t)) else '(' + t + ')'


def _balanced(t):
    d = 0
    for i, ch in enumerate(t):
        if ch == '(':
            d += 1
        elif ch == ')':
            d -= 1
            if d == 0 and i != len(t) - 1:
                return False
    return d == 0


def fits(src, dst):
    """every value of integer type src is a value of dst (conversion is the identity)"""
    if src.w is None or dst.w is None:
        return False
    if src.signed == dst.signed:
        return src.w <= dst.w
    return (not src.signed) and dst.signed and src.w < dst.w


class FullTranslator(Translator):

    def ex(self, n, env):
        k = n.get('kind')
        m = getattr(self, 'ex_' + k, None)
        if k in PASS_THROUGH:
            return self.ex(n['inner'][0], env)
        if m is None:
            self.bad(n, 'expression of kind %s' % k)
        return m(n, env)

    # ---- leaves --------------------------------------------------------------------------------
    def ex_IntegerLiteral(self, n, env):
        ty = self.resolve(n['type'], n)
        return E(str(int(n['value'])), ty)

    def ex_CharacterLiteral(self, n, env):
        return E(str(int(n['value'])), self.resolve(n['type'], n))

    def ex_CXXBoolLiteralExpr(self, n, env):
        return E('true' if n['value'] else 'false', T_BOOL)

    def ex_FloatingLiteral(self, n, env):
        v = float(n['value'])
        if v != int(v) or abs(v) > 2 ** 53:
            self.bad(n, 'floating literal %s is not an exactly representable integer' % n['value'])
        return E(str(int(v)) if v >= 0 else '(%d)' % int(v), T_DBL)

    def ex_UnaryExprOrTypeTraitExpr(self, n, env):
        if n.get('name') != 'sizeof':
            self.bad(n, '%s expression' % n.get('name'))
        if 'argType' not in n:                       # sizeof(expression): the (unevaluated) operand's type
            ops = [c for c in n.get('inner', []) if c and 'type' in c]
            if len(ops) != 1:
                self.bad(n, 'sizeof expression of unexpected shape')
            n = dict(n, argType=ops[0]['type'])
        at = self.resolve(n['argType'], n)
        if at.kind == 'int' and at.w is not None:
            v = at.w // 8
        elif at.kind == 'bool':
            v = 1
        elif at.kind == 'dbl':
            v = 8
        else:
            self.bad(n, 'sizeof of %s (only scalar types: object layout is not in the AST)' % n['argType'].get('qualType'))
        return E(str(v), self.resolve(n['type'], n))

    def ex_SubstNonTypeTemplateParmExpr(self, n, env):
        return self.ex([c for c in n['inner'] if not c.get('kind', '').endswith('Decl')][-1], env)

    def ex_CXXThisExpr(self, n, env):
        if env.self_ty is None:
            self.bad(n, '`this` outside a method')
        env.uses_self = True
        return E(env.self_name, env.self_ty)

    def ex_DeclRefExpr(self, n, env):
        r = n['referencedDecl']
        rid, rk = r['id'], r['kind']
        if rid in env.vars:
            nm, ty = env.vars[rid]
            return E(nm, ty)
        if rid in env.free:
            return E(env.free[rid][0], env.free[rid][1])
        d = self.ix.by_id.get(rid)
        if rk == 'EnumConstantDecl':
            if d is None:
                self.bad(n, 'enumerator %s declared outside the dumped namespace' % r.get('name'))
            it = self.const_item(d)
            ty = self.resolve(n['type'], n)
            return E(it.full, ty)
        if rk in ('VarDecl', 'ParmVarDecl'):
            if d is None:
                self.bad(n, 'variable %s declared outside the dumped namespace' % r.get('name'))
            local = d.get('_parent') is not None and d['_parent'].get('kind', '') in (
                'FunctionDecl', 'CXXMethodDecl', 'CXXConstructorDecl', 'CXXConversionDecl') and d.get('storageClass') != 'static' \
                and not d.get('constexpr')             # a constexpr local is a constant, not a free variable
            if rk == 'ParmVarDecl' or local:
                if not env.extract:
                    self.bad(n, 'reference to local %s that is not bound here' % r.get('name'))
                ty = self.check_param(d) if rk == 'ParmVarDecl' else self.resolve(d['type'], d)
                if ty.kind not in ('int', 'bool', 'rec', 'pair', 'vec', 'ptr', 'pptr'):
                    self.bad(n, 'free variable %s of unsupported type' % r.get('name'))
                if ty.kind in ('ptr', 'pptr'):          # a `const char**` free variable: the VALUE of its cell (an extracted expression only reads)
                    env.buf = True
                off = (d.get('range', {}).get('begin', {}) or {}).get('offset', 0)
                nm = env.fresh(d['name'])
                env.free[rid] = (nm, ty, off)
                return E(nm, ty)
            it = self.const_item(d)
            return E(it.full, self.resolve(n['type'], n))
        self.bad(n, 'reference to a %s (%s)' % (rk, r.get('name')))

    # ---- casts ---------------------------------------------------------------------------------
    def cast(self, n, env):
        ck = n.get('castKind')
        sub = n['inner'][-1]
        if ck in ('LValueToRValue', 'NoOp', 'ConstructorConversion', 'UserDefinedConversion'):
            return self.ex(sub, env)
        if ck in ('DerivedToBase', 'UncheckedDerivedToBase'):
            e = self.ex(sub, env)
            dst = self.resolve_str(re.sub(r'\*\s*$', '', (n['type'].get('desugaredQualType') or n['type']['qualType'])), n)
            path = self.base_path(e.ty, dst, n)
            return E(paren(e.term) + ''.join('.' + p for p in path), dst, e.defd)
        e = self.ex(sub, env)
        dst = self.resolve(n['type'], n)
        if ck == 'BitCast':
            # reinterpret_cast between `const char*` and `const unsigned char*`: same address, other signedness of `*p`
            if e.ty.kind != 'ptr' or dst.kind != 'ptr' or n.get('kind') not in ('CXXReinterpretCastExpr', 'CStyleCastExpr', 'ImplicitCastExpr'):
                self.bad(n, 'pointer cast other than between `const char*` and `const unsigned char*`')
            return E(e.term, dst, e.defd)
        if ck == 'IntegralCast':
            if e.ty.kind == 'bool':
                return self.int_from(E('%sofBool %s' % (SEM, paren(e.term)), Ty('int', 8, False), e.defd), dst)
            if e.ty.kind != 'int' or dst.kind != 'int':
                self.bad(n, 'IntegralCast between %r and %r' % (e.ty, dst))
            return self.int_from(e, dst)
        if ck == 'IntegralToBoolean':
            return E('%stoBool %s' % (SEM, paren(e.term)), T_BOOL, e.defd)
        if ck == 'IntegralToFloating':
            if e.ty.kind == 'bool':
                return E('%sofBool %s' % (SEM, paren(e.term)), T_DBL, e.defd)
            if re.fullmatch(r'\(?-?[0-9]+\)?', e.term) and abs(int(e.term.strip('()'))) <= 2 ** 53:
                return E(e.term, T_DBL, e.defd)              # literal: exactly representable
            return E(e.term, T_DBL, conj(e.defd, '%sexactD %s' % (SEM, paren(e.term))))
        if ck == 'FloatingToIntegral':
            if dst.kind != 'int' or dst.w is None:
                self.bad(n, 'FloatingToIntegral to ' + repr(dst))
            rng = '%s%s %d %s' % (SEM, 'inS' if dst.signed else 'inU', dst.w, paren(e.term))
            return E(e.term, dst, conj(e.defd, rng))
        self.bad(n, 'cast of kind %s' % ck)

    ex_ImplicitCastExpr = cast
    ex_CXXStaticCastExpr = cast
    ex_CStyleCastExpr = cast
    ex_CXXFunctionalCastExpr = cast
    ex_CXXReinterpretCastExpr = cast

    def int_from(self, e, dst):
        if dst.w is None:
            return E(e.term, dst, e.defd)
        if fits(e.ty, dst):
            return E(e.term, dst, e.defd)
        if re.fullmatch(r'[0-9]+', e.term) and int(e.term) < 2 ** (dst.w - 1):
            return E(e.term, dst, e.defd)          # a literal that is a value of the target type
        return E('%s%s %d %s' % (SEM, 'wrapS' if dst.signed else 'wrapU', dst.w, paren(e.term)), dst, e.defd)

    def base_path(self, src, dst, n):
        if src.kind != 'rec' or dst.kind != 'rec':
            self.bad(n, 'derived-to-base conversion on non-record types')
        self.record_item(src.rec)

        def go(rec):
            if rec['id'] == dst.rec['id']:
                return []
            self.record_item(rec)
            for nm, bt in self.rec_fields[rec['id']]['bases']:
                p = go(bt.rec)
                if p is not None:
                    return [nm] + p
            return None
        p = go(src.rec)
        if p is None:
            self.bad(n, 'base class %s is outside the translated subset' % dst.rec['_q'])
        return p

    # ---- operators -----------------------------------------------------------------------------
    def ex_UnaryOperator(self, n, env):
        op = n['opcode']
        if op in ('++', '--'):
            if n.get('id') in env.hoisted:
                return self.ex(n['inner'][0], env)     # postfix: the old value; the increment follows the statement (x2l_st.py)
            self.bad(n, 'operator `%s` inside an expression (only as a statement, or ONE postfix increment of a variable that occurs '
                        'nowhere else in an assignment statement)' % op)
        e = self.ex(n['inner'][0], env)
        a = paren(e.term)
        if op == '*':
            if e.ty.kind == 'pptr':
                return E(e.term, Ty('ptr', 8, e.ty.signed), e.defd)       # `*data`: the cursor cell
            if e.ty.kind == 'ptr':
                return self.deref(e, None)
            self.bad(n, 'unary * on %r' % e.ty)
        if op == '!':
            if e.ty.kind != 'bool':
                self.bad(n, '! on a non-bool')
            return E('!%s' % a, T_BOOL, e.defd)
        ty = self.resolve(n['type'], n)
        if op == '+':
            return e
        if op == '-':
            if ty.kind == 'dbl':
                return E('-%s' % a, ty, conj(e.defd))
            if ty.kind != 'int' or ty.w is None:
                self.bad(n, 'unary - on ' + repr(ty))
            if ty.signed:
                if re.fullmatch(r'[0-9]+', e.term) and int(e.term) <= 2 ** (ty.w - 1):
                    return E('-%s' % a, ty, e.defd)          # negated literal: representable
                return E('-%s' % a, ty, conj(e.defd, '%sinS %d (-%s)' % (SEM, ty.w, a)))
            return E('%swrapU %d (-%s)' % (SEM, ty.w, a), ty, e.defd)
        if op == '~':
            if ty.kind != 'int' or ty.w is None:
                self.bad(n, '~ on ' + repr(ty))
            return E(('%sbnotS %s' % (SEM, a)) if ty.signed else ('%sbnot %d %s' % (SEM, ty.w, a)), ty, e.defd)
        self.bad(n, 'unary operator %s' % op)

    def deref(self, p, off):
        """`*p` / `p[off]`: a read of the byte array (undefined outside it)"""
        i = p.term if off is None else '%s + %s' % (paren(p.term), paren(off.term))
        return E('%s%s buf %s' % (SEM, 'rdS' if p.ty.signed else 'rdU', paren(i)), Ty('int', 8, p.ty.signed),
                 conj(p.defd, off.defd if off is not None else None, '%sinB buf %s' % (SEM, paren(i))))

    def ex_ArraySubscriptExpr(self, n, env):
        p, k = self.ex(n['inner'][0], env), self.ex(n['inner'][1], env)
        if p.ty.kind != 'ptr' or k.ty.kind != 'int' or k.ty.w is None:
            self.bad(n, 'subscript on %r with index %r' % (p.ty, k.ty))
        return self.deref(p, k)

    def ptr_arith(self, n, op, L, R):
        """pointer ± integer, pointer − pointer, pointer comparisons (all pointers point into `buf`)"""
        a, b = paren(L.term), paren(R.term)
        dd = conj(L.defd, R.defd)
        if op in CMP and L.ty.kind == 'ptr' and R.ty.kind == 'ptr':
            return E('%s%s %s %s' % (SEM, CMP[op], a, b), T_BOOL, dd)
        if op == '-' and L.ty.kind == 'ptr' and R.ty.kind == 'ptr':
            return E('%s - %s' % (a, b), self.resolve(n['type'], n), dd)
        if op in ('+', '-') and L.ty.kind == 'ptr' and R.ty.kind == 'int' and R.ty.w is not None:
            t = '%s %s %s' % (a, op, b)
            return E(t, L.ty, conj(dd, '%sptrOk buf (%s)' % (SEM, t)))
        if op == '+' and R.ty.kind == 'ptr' and L.ty.kind == 'int' and L.ty.w is not None:
            t = '%s + %s' % (b, a)
            return E(t, R.ty, conj(dd, '%sptrOk buf (%s)' % (SEM, t)))
        self.bad(n, 'pointer operator %s on %r and %r' % (op, L.ty, R.ty))

    def ex_BinaryOperator(self, n, env):
        op = n['opcode']
        if op == '=' or op == ',':
            self.bad(n, 'operator `%s` inside an expression (assignments are only translated as statements)' % op)
        L, R = self.ex(n['inner'][0], env), self.ex(n['inner'][1], env)
        if L.ty.kind == 'ptr' or R.ty.kind == 'ptr':
            if op in ('&&', '||'):
                self.bad(n, '%s on a pointer operand' % op)
            return self.ptr_arith(n, op, L, R)
        return self.binop(n, op, L, R, n['type'])

    def ex_CompoundAssignOperator(self, n, env):
        self.bad(n, 'operator `%s` inside an expression (assignments are only translated as statements)' % n.get('opcode'))

    def binop(self, n, op, L, R, tobj):
        """`L op R` evaluated in the type `tobj` (the AST type of the operator node / computeResultType)"""
        a, b = paren(L.term), paren(R.term)
        if op in ('&&', '||'):
            if L.ty.kind != 'bool' or R.ty.kind != 'bool':
                self.bad(n, '%s on non-bool operands' % op)
            guard = None
            if R.defd:
                guard = '(!%s || %s)' % (a, R.defd) if op == '&&' else '(%s || %s)' % (a, R.defd)
            return E('%s %s %s' % (a, op, b), T_BOOL, conj(L.defd, guard))
        dd = conj(L.defd, R.defd)
        if op in CMP:
            if L.ty.kind == 'bool' and R.ty.kind == 'bool' and op in ('==', '!='):
                return E('%s %s %s' % (a, op, b), T_BOOL, dd)
            if L.ty.kind not in ('int', 'dbl') or R.ty.kind != L.ty.kind:
                self.bad(n, 'comparison of %r and %r' % (L.ty, R.ty))
            if L.ty.kind == 'int' and (L.ty.w, L.ty.signed) != (R.ty.w, R.ty.signed):
                self.bad(n, 'comparison of differently typed integers without conversion')
            return E('%s%s %s %s' % (SEM, CMP[op], a, b), T_BOOL, dd)
        ty = self.resolve(tobj, n)
        if ty.kind == 'dbl':
            if op not in ('+', '-', '*'):
                self.bad(n, 'floating-point operator %s (only exact integer-valued + - * are translated)' % op)
            t = '%s %s %s' % (a, op, b)
            return E(t, ty, conj(dd, '%sexactD (%s)' % (SEM, t)))
        if ty.kind != 'int' or ty.w is None:
            self.bad(n, 'operator %s on %r' % (op, ty))
        w = ty.w
        if op in ('+', '-', '*'):
            t = '%s %s %s' % (a, op, b)
            if ty.signed:
                return E(t, ty, conj(dd, '%sinS %d (%s)' % (SEM, w, t)))
            return E('%swrapU %d (%s)' % (SEM, w, t), ty, dd)
        if op in ('/', '%'):
            f = 'Int.tdiv' if op == '/' else 'Int.tmod'
            ok = '%ssdivOk %d %s %s' % (SEM, w, a, b) if ty.signed else '%sne %s 0' % (SEM, b)
            return E('%s %s %s' % (f, a, b), ty, conj(dd, ok))
        if op in ('<<', '>>'):
            if L.ty.kind != 'int' or R.ty.kind != 'int' or (L.ty.w, L.ty.signed) != (w, ty.signed):
                self.bad(n, 'shift with unexpected operand types')
            ok = '%sshiftOk %d %s' % (SEM, w, b)
            if not ty.signed:
                t = '%sshl %d %s %s' % (SEM, w, a, b) if op == '<<' else '%sshr %s %s' % (SEM, a, b)
                return E(t, ty, conj(dd, ok))
            if op == '>>':
                return E('%ssshr %s %s' % (SEM, a, b), ty, conj(dd, ok))
            t = '%ssshl %s %s' % (SEM, a, b)
            return E(t, ty, conj(dd, ok, '%sle 0 %s' % (SEM, a), '%sinS %d (%s)' % (SEM, w, t)))
        if op in ('&', '|', '^'):
            f = {'&': 'band', '|': 'bor', '^': 'bxor'}[op]
            if L.ty.kind != 'int' or R.ty.kind != 'int':
                self.bad(n, 'bitwise operator on non-integers')
            if ty.signed:
                return E('%s%sS %d %s %s' % (SEM, f, w, a, b), ty, dd)
            return E('%s%s %s %s' % (SEM, f, a, b), ty, dd)
        self.bad(n, 'binary operator %s' % op)

    def ex_ConditionalOperator(self, n, env):
        c, a, b = (self.ex(x, env) for x in n['inner'][:3])
        if c.ty.kind != 'bool' or a.ty.kind != b.ty.kind:
            self.bad(n, 'conditional operator with unexpected types')
        d = None
        if a.defd or b.defd:
            d = '(if %s then %s else %s)' % (c.term, a.defd or 'true', b.defd or 'true')
        return E('if %s then %s else %s' % (c.term, paren(a.term), paren(b.term)), a.ty, conj(c.defd, d))

    # ---- member access / calls -----------------------------------------------------------------
    def ex_MemberExpr(self, n, env):
        obj = self.ex(n['inner'][0], env)
        name = n.get('name')
        if obj.ty.kind == 'pair' and name in ('first', 'second'):
            return E('%s.%s' % (paren(obj.term), name), obj.ty.elems[0 if name == 'first' else 1], obj.defd)
        if obj.ty.kind != 'rec':
            self.bad(n, 'member access on %r' % obj.ty)
        fd = self.ix.by_id.get(n.get('referencedMemberDecl'))
        if fd is None:
            self.bad(n, 'member %s not found' % name)
        if fd['kind'] in ('VarDecl', 'EnumConstantDecl'):
            it = self.const_item(fd)
            return E(it.full, self.resolve(n['type'], n), obj.defd)
        if fd['kind'] != 'FieldDecl':
            self.bad(n, 'member reference to a %s' % fd['kind'])
        self.record_item(obj.ty.rec)
        for nm, ft, bits, c in self.rec_fields[obj.ty.rec['id']]['fields']:
            if c['id'] == fd['id']:
                return E('%s.%s' % (paren(obj.term), nm), ft, obj.defd)
        self.bad(n, 'member %s of %s is outside the translated subset' % (name, obj.ty.rec['_q']))

    def callee(self, n):
        c = n
        while c.get('kind') in ('ImplicitCastExpr', 'ParenExpr'):
            c = c['inner'][0]
        return c

    def call_fn(self, n, f, args, self_arg, env):
        if f.get('_q') in getattr(env, 'opaque', ()):
            return self.opaque_call(n, f, args, self_arg, env)
        it = self.fn_item(f)
        if it.effectful:
            self.bad(n, 'call of %s, a function with effects, inside an expression (translated only as `f(..);`, `lv = f(..);`, '
                        '`T x = f(..);`, `return f(..);`)' % f.get('_q'))
        al = list(args)
        if it.uses_self:
            if self_arg is None:
                self.bad(n, 'method call without an object')
            al = [self_arg] + al
        if len(al) != len(it.params):
            self.bad(n, 'call with %d arguments to a function translated with %d parameters (default arguments?)' % (len(al), len(it.params)))
        for a, (pn, pt) in zip(al, it.params):
            if a.ty.kind != pt.kind or (pt.kind in ('int', 'ptr') and (a.ty.w, a.ty.signed) != (pt.w, pt.signed)) or \
                    (pt.kind == 'rec' and a.ty.rec['id'] != pt.rec['id']):
                self.bad(n, 'argument type %r does not match parameter type %r' % (a.ty, pt))
        argt = (' buf' if it.buf else '') + ''.join(' ' + paren(a.term) for a in al)
        if it.buf:
            env.buf = True
        dd = conj(*([a.defd for a in al] + ([self_arg.defd] if self_arg is not None and not it.uses_self else [])),
                  None if it.defd_trivial else '%s_defined%s' % (it.full, argt))
        return E(it.full + argt, it.ret, dd)

    def opaque_call(self, n, f, args, self_arg, env):
        """a call the target declares opaque: its value becomes an extra parameter of the translated function
        (sound for a const noexcept method of *this without arguments in a function that writes nothing)"""
        q = f['type'].get('qualType', '')
        tail = q[q.rfind(')') + 1:]
        if args or self_arg is None or self_arg.term != 'self' or ' const' not in tail or 'noexcept' not in tail:
            self.bad(n, 'opaque call of %s: only `this->f()` of a const noexcept method without arguments' % f.get('_q'))
        ty = self.resolve(n['type'], n)
        if ty.kind not in ('int', 'bool') or (ty.kind == 'int' and ty.w is None):
            self.bad(n, 'opaque call returning %r' % ty)
        env.uses_self = True
        key = f['id']
        if key not in env.opaque_vals:
            env.opaque_vals[key] = (env.fresh(f.get('name') + '_value'), ty, f.get('_q'))
        return E(env.opaque_vals[key][0], ty)

    def ex_CallExpr(self, n, env):
        c = self.callee(n['inner'][0])
        if c.get('kind') != 'DeclRefExpr':
            self.bad(n, 'indirect call')
        r = c['referencedDecl']
        args = [self.ex(a, env) for a in n['inner'][1:]]
        f = self.ix.by_id.get(r['id'])
        if f is not None:
            return self.call_fn(n, f, args, None, env)
        name = r.get('name')
        if r.get('kind') == 'CXXMethodDecl' and name in ('max', 'min', 'lowest') and not args and \
                re.match(r'(::)?std::numeric_limits<[^()]*>::(max|min|lowest)\s*\(\s*\)$', self.src.text(n).strip()):
            rt = self.resolve(n['type'], n)
            if rt.kind != 'int' or rt.w is None:
                self.bad(n, 'std::numeric_limits of a non-integer type')
            if name == 'max':
                return E(str(2 ** (rt.w - 1) - 1 if rt.signed else 2 ** rt.w - 1), rt)
            return E('(%d)' % -(2 ** (rt.w - 1)) if rt.signed else '0', rt)
        if name == 'distance' and len(args) == 2 and all(a.ty.kind == 'ptr' for a in args) and \
                re.match(r'(::)?std::distance\b', self.src.text(c).strip()):
            # std::distance(p, q) on character cursors = q - p
            return E('%s - %s' % (paren(args[1].term), paren(args[0].term)), self.resolve(n['type'], n), conj(*[a.defd for a in args]))
        if name == 'strlen' and len(args) == 1 and args[0].ty.kind == 'ptr' and re.match(r'(::)?(std::)?strlen\b', self.src.text(c).strip()):
            # the distance to the first NUL at or after the cursor; it must exist inside the array
            a = paren(args[0].term)
            env.buf = True
            return E('%sstrlen buf %s' % (SEM, a), self.resolve(n['type'], n), conj(args[0].defd, '%scstrOk buf %s' % (SEM, a)))
        if name not in STD_WHITELIST:
            self.bad(n, 'call to %s, which is neither an osmium function nor on the whitelist' % name)
        dd = conj(*[a.defd for a in args])
        if any(a.ty.kind != 'int' or a.ty.w is None for a in args):
            self.bad(n, 'std::%s on non-integer arguments' % name)
        rt = self.resolve(n['type'], n)
        if name in ('abs', 'labs', 'llabs'):
            a = args[0]
            if rt.kind != 'int' or not rt.signed or (a.ty.w, a.ty.signed) != (rt.w, True):
                self.bad(n, 'std::abs with unexpected types')
            return E('(Int.natAbs %s : Int)' % paren(a.term), rt, conj(dd, '%sinS %d (-%s)' % (SEM, rt.w, paren(a.term))))
        a, b = args
        if (a.ty.w, a.ty.signed) != (b.ty.w, b.ty.signed):
            self.bad(n, 'std::%s on differently typed arguments' % name)
        if name in ('min', 'max'):
            return E('%s %s %s' % (name, paren(a.term), paren(b.term)), a.ty, dd)
        return E('%sminmax %s %s' % (SEM, paren(a.term), paren(b.term)), Ty('pair', elems=[a.ty, a.ty]), dd)

    def ex_CXXOperatorCallExpr(self, n, env):
        c = self.callee(n['inner'][0])
        if c.get('kind') != 'DeclRefExpr':
            self.bad(n, 'indirect operator call')
        f = self.ix.by_id.get(c['referencedDecl']['id'])
        if f is None:
            if c['referencedDecl'].get('name') in ('operator<', 'operator==') and len(n['inner']) == 3:
                ta, tb = self.tuple_elems(n['inner'][1], env), self.tuple_elems(n['inner'][2], env)
                if ta is not None and tb is not None:
                    return self.tuple_less(n, ta, tb) if c['referencedDecl']['name'] == 'operator<' else self.tuple_eq(n, ta, tb)
            self.bad(n, 'overloaded operator %s declared outside the osmium namespace' % c['referencedDecl'].get('name'))
        args = [self.ex(a, env) for a in n['inner'][1:]]
        if f['kind'] == 'CXXMethodDecl' and f.get('storageClass') != 'static':
            return self.call_fn(n, f, args[1:], args[0], env)
        return self.call_fn(n, f, args, None, env)

    def tuple_elems(self, n, env):
        """the element expressions if n is `osmium::const_tie(e1, ..., ek)` (a std::tuple of const references)"""
        while n.get('kind') in PASS_THROUGH or (n.get('kind') == 'ImplicitCastExpr' and n.get('castKind') == 'NoOp'):
            n = n['inner'][0]
        if n.get('kind') != 'CallExpr':
            return None
        c = self.callee(n['inner'][0])
        r = c.get('referencedDecl') or {}
        f = self.ix.by_id.get(r.get('id'))
        if f is None and r.get('name') == 'tie' and re.match(r'(::)?std::tie\b', self.src.text(c).strip()) and \
                re.match(r'(std::)?tuple<', (n['type'].get('desugaredQualType') or n['type'].get('qualType', ''))):
            return [self.ex(a, env) for a in n['inner'][1:]]      # std::tie(lvalues…): a tuple of references
        if f is None or f.get('_q') != 'osmium::const_tie':
            return None
        body = re.sub(r'\s+', '', self.src.text(self.ix.definition(f) or f))
        if 'returnstd::tuple<constTs&...>(args...);' not in body:
            self.bad(n, 'osmium::const_tie is no longer `return std::tuple<const Ts&...>(args...)`')
        return [self.ex(a, env) for a in n['inner'][1:]]

    def elem_less(self, n, a, b):
        if a.ty.kind != b.ty.kind:
            self.bad(n, 'tuple elements of different kinds')
        if a.ty.kind == 'int':
            if (a.ty.w, a.ty.signed) != (b.ty.w, b.ty.signed):
                self.bad(n, 'tuple elements of different integer types')
            return '%slt %s %s' % (SEM, paren(a.term), paren(b.term))
        if a.ty.kind == 'bool':
            return '(!%s && %s)' % (paren(a.term), paren(b.term))
        if a.ty.kind == 'rec' and a.ty.rec['id'] == b.ty.rec['id']:
            q = a.ty.rec['_q']
            scope = '::'.join(q.split('::')[:-1])
            want = '(const %s &, const %s &)' % (q, q)
            cands = [f for f in self.ix.funcs.get(scope + '::operator<', []) if want in f['type']['qualType']]
            if len(cands) != 1:
                self.bad(n, 'operator< for tuple element type %s not found' % q)
            it = self.fn_item(cands[0])
            if not it.defd_trivial:
                self.bad(n, 'operator< of a tuple element can be undefined')
            return '%s %s %s' % (it.full, paren(a.term), paren(b.term))
        self.bad(n, 'tuple element of type %r' % a.ty)

    def tuple_less(self, n, ta, tb):
        """std::tuple operator<: `a0 < b0 || (!(b0 < a0) && (a1 < b1 || ...))`, the empty tail is false"""
        if len(ta) != len(tb) or not ta:
            self.bad(n, 'comparison of tuples of different length')
        t = 'false'
        for a, b in reversed(list(zip(ta, tb))):
            lt, gt = self.elem_less(n, a, b), self.elem_less(n, b, a)
            t = '(%s || (!%s && %s))' % (paren(lt), paren(gt), t)
        return E(t, T_BOOL, conj(*[e.defd for e in ta + tb]))

    def tuple_eq(self, n, ta, tb):
        """std::tuple operator==: every pair of components compares equal"""
        if len(ta) != len(tb) or not ta:
            self.bad(n, 'comparison of tuples of different length')
        parts = []
        for a, b in zip(ta, tb):
            if a.ty.kind == 'int' and b.ty.kind == 'int' and (a.ty.w, a.ty.signed) == (b.ty.w, b.ty.signed):
                parts.append('%seq %s %s' % (SEM, paren(a.term), paren(b.term)))
            elif a.ty.kind == 'bool' and b.ty.kind == 'bool':
                parts.append('(%s == %s)' % (paren(a.term), paren(b.term)))
            else:
                self.bad(n, 'tuple == on components of type %r / %r' % (a.ty, b.ty))
        return E('(' + ' && '.join(parts) + ')', T_BOOL, conj(*[e.defd for e in ta + tb]))

    def ex_CXXMemberCallExpr(self, n, env):
        me = n['inner'][0]
        while me.get('kind') in ('ParenExpr',):
            me = me['inner'][0]
        if me.get('kind') != 'MemberExpr':
            self.bad(n, 'member call through %s' % me.get('kind'))
        obj = self.ex(me['inner'][0], env)
        args = [self.ex(a, env) for a in n['inner'][1:]]
        if obj.ty.kind == 'ostr':
            if me.get('name') in ('size', 'length') and not args:
                return E('(%s.length : Int)' % paren(obj.term), Ty('int', 64, False), obj.defd)
            if me.get('name') == 'empty' and not args:
                return E('%s.isEmpty' % paren(obj.term), T_BOOL, obj.defd)
            self.bad(n, 'output string member %s read inside an expression (only size() / empty() may read an output string)' % me.get('name'))
        if obj.ty.kind == 'vec':
            if me.get('name') == 'size' and not args:
                return E('%s.size' % paren(obj.term), Ty('int', 64, False), obj.defd)
            self.bad(n, 'std::vector / std::string member %s (only size() is modelled)' % me.get('name'))
        f = self.ix.by_id.get(me.get('referencedMemberDecl'))
        if f is None:
            self.bad(n, 'method %s declared outside the osmium namespace' % me.get('name'))
        return self.call_fn(n, f, args, obj, env)

    def construct(self, n, env):
        ty = self.resolve(n['type'], n)
        args = [self.ex(a, env) for a in n.get('inner', [])]
        if ty.kind == 'pair':
            if len(args) == 1 and args[0].ty.kind == 'pair':
                a = args[0]
                if [(t.w, t.signed) for t in a.ty.elems] != [(t.w, t.signed) for t in ty.elems]:
                    self.bad(n, 'std::pair conversion between different element types')
                return E(a.term, ty, a.defd)
            self.bad(n, 'std::pair constructor')
        if ty.kind != 'rec':
            self.bad(n, 'construction of %r' % ty)
        if len(args) == 1 and args[0].ty.kind == 'rec' and args[0].ty.rec['id'] == ty.rec['id']:
            ct = n.get('ctorType', {}).get('qualType', '')
            if re.match(r'void \((const )?[\w:<>, ]+ &&?\)', ct):
                return args[0]                     # copy / move construction
        ct = n.get('ctorType', {}).get('qualType')
        cands = [c for c in ty.rec.get('inner', []) if c.get('kind') == 'CXXConstructorDecl' and c['type']['qualType'] == ct]
        if len(cands) != 1:
            self.bad(n, 'constructor %s of %s not found (%d candidates)' % (ct, ty.rec['_q'], len(cands)))
        return self.call_fn(n, cands[0], args, None, env)

    def ex_InitListExpr(self, n, env):
        """aggregate initialisation `T{e1, .., ek}` of a record whose members are all in the subset"""
        ty = self.resolve(n['type'], n)
        if ty.kind != 'rec':
            self.bad(n, 'braced initialiser of %r' % ty)
        self.record_item(ty.rec)
        info = self.rec_fields[ty.rec['id']]
        nfields = len([c for c in ty.rec.get('inner', []) if c.get('kind') == 'FieldDecl'])
        args = [self.ex(a, env) for a in n.get('inner', [])]
        if info['bases'] or ty.rec.get('bases') or nfields != len(info['fields']) or len(args) != nfields:
            self.bad(n, 'braced initialiser of %s (bases, members outside the subset, or omitted members)' % ty.rec['_q'])
        for a, (nm, ft, bits, c) in zip(args, info['fields']):
            if bits is not None or a.ty.kind != ft.kind or (ft.kind == 'int' and (a.ty.w, a.ty.signed) != (ft.w, ft.signed)):
                self.bad(n, 'braced initialiser: member %s initialised from %r' % (nm, a.ty))
        lt = self.lean_ty(ty, n)
        if not args:
            return E('(⟨⟩ : %s)' % lt, ty)
        return E('({ %s } : %s)' % (', '.join('%s := %s' % (f[0], a.term) for a, f in zip(args, info['fields'])), lt), ty,
                 conj(*[a.defd for a in args]))

    ex_CXXConstructExpr = construct
    ex_CXXTemporaryObjectExpr = construct
