"""Differential self-test of the C++ -> Lean translator (not a registered check; run by hand):
harness/x2l_selftest.cpp evaluates a few translated functions with the REAL headers on boundary inputs
(including the wrapping / extreme cases), tools/x2l_selftest.lean evaluates the regenerated
Osmium.Generated.Src definitions on the same inputs; the two outputs must be identical.
    python3 tools/x2l_selftest.py
"""
import os
import sys

sys.path.insert(0, os.path.dirname(os.path.abspath(__file__)))
import cxx2lean  # noqa: E402
import vlib  # noqa: E402


def hx(b):
    return b.hex() if b else '-'


def cursor_inputs():
    """boundary inputs of the character-cursor functions: `kind hexbytes` per line (the buffer is the bytes + a NUL)"""
    out = []
    signs = [b'', b'-']
    ints = [b'', b'0', b'1', b'9', b'17', b'180', b'214', b'215', b'2147483647', b'9999999999', b'12345678901', b'00000000000']
    fracs = [b'', b'.', b'.5', b'.1234567', b'.12345678', b'.123456749', b'.123456750', b'.99999995', b'.7483647', b'.7483648',
             b'.' + b'9' * 19, b'.' + b'9' * 20, b'.' + b'1' * 27, b'.' + b'0' * 28, b'.00000001999999999999']
    exps = [b'', b'e0', b'e1', b'E2', b'e-1', b'E-7', b'e-8', b'e-9', b'e-20', b'e5', b'e9', b'e10', b'e12', b'e99999', b'e100000',
            b'e-99999', b'e', b'e-', b'e+1', b'ee', b'e00007']
    tails = [b'', b',', b' 1', b'x', b'\x80', b'\xff9', b'\x00' + b'7', b'.', b'-', b'e']
    for sg in signs:
        for ip in ints:
            for fp in fracs:
                for ex in exps:
                    k = (len(sg) * 7 + len(ip) * 3 + len(fp) * 5 + len(ex)) % len(tails)     # one tail per combination
                    out.append(b'coord ' + hx(sg + ip + fp + ex + tails[k]).encode())
    for extra in [b'', b'-', b'.', b'-.', b'.e1', b'-.5e', b'\x80', b'\xb0', b'\xb9', b'-\xb1', b'1\xb1', b'1.\xb5', b'1e\xb5', b'/', b':', b'1/', b'1:',
                  b'1.5/', b'1e5:', b'214.7483647', b'214.7483648', b'-214.7483648', b'-214.7483649', b'214.74836475', b'0.000000005e9',
                  b'1e-0', b'0e99999', b'0.0e99999', b'0.' + b'0' * 19 + b'e99999', b'1e11', b'21474836489e-1', b'21474836490e-1']:
        out.append(b'coord ' + hx(extra).encode())
    # ---- integer parsers / small cursor functions of the OPL reader and the timestamp parser
    nums = [b'', b'0', b'7', b'00', b'0' * 40 + b'7', b'9223372036854775807', b'9223372036854775808', b'9223372036854775809',
            b'9223372036854775799', b'9223372036854775800', b'922337203685477580', b'922337203685477581', b'9223372036854775810',
            b'92233720368547758070', b'4294967295', b'4294967296', b'4294967294', b'2147483647', b'2147483648', b'12345', b'99999999999999999999',
            b'18446744073709551615', b'18446744073709551616']
    ntails = [b'', b' ', b'\t1', b',', b'x', b'-', b'\xb1', b'\x80', b'\x00' + b'5', b'/', b':']
    for kind in (b'oplint64', b'oplintu32', b'oplid'):
        for sg in (b'', b'-', b'+', b'--'):
            for k, n in enumerate(nums):
                out.append(kind + b' ' + hx(sg + n + ntails[(k + len(sg)) % len(ntails)]).encode())
                out.append(kind + b' ' + hx(sg + n).encode())
        for extra in (b'-', b'- 1', b'\xb0', b'-\xb9', b'1\xb0', b'a', b' 1', b'0x10', b'1e5'):
            out.append(kind + b' ' + hx(extra).encode())
    for x in (b'', b'V', b'D', b'Vx', b'v', b'd', b' V', b'\xd6', b'\x00V'):
        out.append(b'oplvisible ' + hx(x).encode())
    for x in (b'', b' ', b'\t', b'a', b' a', b'\t \t  x', b'  ', b'\x00 ', b'\xa0', b'\x0b', b'\n', b'x ', b' ' * 50):
        out.append(b'oplspace ' + hx(x).encode())
        out.append(b'oplnonempty ' + hx(x).encode())
    for x in (b'', b'.', b',', b'.5', b',5Z', b'.5Z', b'.123456789Z', b'.123456789', b'.Z', b'.5z', b'.5 Z', b'Z', b'5Z', b'..5Z', b'.5.Z',
              b'.\xb5Z', b'.5\xdaZ', b'.' + b'9' * 60 + b'Z', b';5Z', b'-5Z', b'.5ZZ', b',0Zx', b'.5\x00Z', b'\xae5Z'):
        out.append(b'fracsec ' + hx(x).encode())
    for b in range(256):
        for tail in (b'', b'\x80', b'\xbf\x80', b'\x80\x80\x80', b'\x41', b'\x80\x41\x80', b'\xff\xff\xff'):
            out.append(b'utf8 ' + hx(bytes([b]) + tail).encode())
    out.append(b'utf8 -')
    # ---- phase 4: functions that build a string
    cps = [0, 1, 0x24, 0x25, 0x7f, 0x80, 0x7ff, 0x800, 0xd7ff, 0xd800, 0xdfff, 0xffff, 0x10000, 0x10ffff, 0x110000, 0x1fffff, 0x200000,
           0x3ffffff, 0x4000000, 0x7fffffff, 0x80000000, 0xffffffff, 0x20ac, 0x1f680, 0xe9]
    for cp in cps:
        out.append(b'cpenc ' + hx(cp.to_bytes(4, 'big')).encode())
    for v in cps + [0xff, 0x100, 0xfff, 0x1000, 0xffff, 0x10000, 0xfffff, 0x100000, 0x1000000, 0x10000000, 0xf0000000, 0x0f000000, 0x00f00000,
                    0x000f0000, 0x12345678, 0xabcdef01, 0x00100000, 0x01000001, 0x10]:
        out.append(b'hex2 ' + hx(v.to_bytes(4, 'big')).encode())
        out.append(b'hexmin4 ' + hx(v.to_bytes(4, 'big')).encode())
    escs = []
    for cp in cps:
        for fmt in ('%x', '%X', '%08x', '%09x', '%04X'):
            escs.append((fmt % cp).encode())
    escs += [b'', b'0', b'00', b'0000000', b'00000000', b'000000000', b'12345678', b'123456789', b'fffffffff', b'aBcDeF', b'g', b'G', b'/', b':',
             b'@', b'`', b'1g', b'1 ', b'1,', b'-1', b'+1', b'\x80', b'1\xb0', b'\xe9', b'1\x00', b'0x10', b'ag', b'FG', b'f@', b'a`', b'9:', b'0/']
    etails = [b'%', b'', b'%%', b'%x', b'% ', b'\x00%', b' %', b'%\x80']
    for k, e in enumerate(escs):
        for tl in (etails[0], etails[1], etails[2 + k % 6]):
            out.append(b'oplescaped ' + hx(e + tl).encode())
    strs = [b'', b'a', b'abc', b' ', b'\t', b',', b'=', b'a b', b'a\tb', b'a,b', b'a=b', b'%20%', b'a%20%b', b'%%', b'%0%', b'%25%', b'a%', b'a%2', b'a%2g%',
            b'ab%123456789%', b'ab%12345678%cd', b'%20ac%%1f680%', b'%e9%=%E9%', b'\x80\xff', b'\xc3\xa9=1', b'a\x00b', b'%\x00', b'a%41%%42%c d', b'%41',
            b'%41% ', b'x%41%,y', b'%d800%', b'%110000%', b'%ffffffff%', b'%7f%%80%%7ff%%800%%ffff%%10000%', b'@', b'a@b', b'\n', b'a\nb', b'a%a%%A%%0a%',
            b'%%%%', b'%%%', b'a%%b%', b'%g', b'ab%1', b'abc%zz%', b'a' * 70, b'%41%' * 20, b'a%20' * 3]
    for c in (b'=', b',', b'@', b'x', b'\x00', b'\x80', b'\xff', b' '):
        for x in (b'', b'=', b',', b'=1', b',=', b'\x80', b'\xff', b'@x', b'x', b' ', b'\x00='):
            out.append(b'oplchar ' + hx(c + x).encode())
    encs = [b'', b'a', b'a b', b'%', b'=,@ \t\n', b'\x7f', b'\xc2\x80', b'\xc2\xa0\xc2\xa1\xc2\xac\xc2\xad\xc2\xae', b'\xd7\xbf\xd8\x80', b'\xe2\x82\xac',
            b'\xf0\x9f\x9a\x80', b'\xf4\x8f\xbf\xbf', b'\xf4\x90\x80\x80', b'\xf7\xbf\xbf\xbf', b'\xed\xa0\x80', b'\xc0\x80', b'\xe0\x80\x80', b'ab\x80',
            b'ab\xff', b'ab\xf8', b'ab\xc3', b'ab\xe2\x82', b'ab\xf0\x9f\x9a', b'ab\xc3x', b'\xe2x\xac', b'a\x00b', b'\x01\x1f', b'\xc3\xa9\xc3',
            b'!$&+-<>?A~', b'\xef\xbf\xbf', b'\xef\xbf\xbe', b'\xe0\xa0\x80', b'\xdf\xbf', b'x' * 40 + b'\xe2\x82\xac' * 5]
    for b0 in range(1, 256):
        encs.append(bytes([b0]))
        encs.append(bytes([b0, 0x80, 0xbf, 0x80]))
    for x in encs:
        out.append(b'oplenc ' + hx(x).encode())
    for x in strs:
        out.append(b'oplstring ' + hx(x).encode())
        out.append(b'oplstring ' + hx(x + b' tail').encode())
    return out


def main():
    cxx2lean.regen()
    inp = os.path.join(vlib.BUILD, 'x2l', 'selftest_cursor.txt')
    os.makedirs(os.path.dirname(inp), exist_ok=True)
    with open(inp, 'wb') as f:
        f.write(b'\n'.join(cursor_inputs()) + b'\n')
    exe, err = vlib.build_cpp('x2lselftest', ['x2l_selftest.cpp'], flags=['-fno-access-control'])
    if exe is None:
        print(err)
        return 2
    rc, cpp, se = vlib.sh([exe, inp], timeout=120)
    rc2, so2, se2 = vlib.lake(['build', 'Osmium.Generated.Src'])
    with vlib.Lock('lake', shared=True):
        rc3, lean, se3 = vlib.sh(['lake', 'env', 'lean', '--run', os.path.join(vlib.ROOT, 'tools', 'x2l_selftest.lean'), inp], cwd=vlib.LEAN, timeout=1200)
    a, b = cpp.strip().split('\n'), lean.strip().split('\n')
    bad = [(x, y) for x, y in zip(a, b) if x != y]
    if rc or rc2 or rc3 or len(a) != len(b) or bad:
        print('MISMATCH', rc, rc2, rc3, len(a), len(b), bad[:10], (se + se2 + se3)[-500:])
        return 1
    print('translated definitions agree with the compiled C++ on %d evaluations' % len(a))
    return 0


if __name__ == '__main__':
    sys.exit(main())
