"""Differential self-test of the C++ -> Lean translator (not a registered check; run by hand):
harness/x2l_selftest.cpp evaluates a few translated functions with the REAL headers on boundary inputs
(including the wrapping / extreme cases), tools/x2l_selftest.lean evaluates the regenerated
Osmium.Generated.Src definitions on the same inputs; the two outputs must be identical.
    python3 tools/x2l_selftest.py
"""
import os
import sys

sys.path.insert(0, os.path.dirname(os.path.abspath(__file__)))
import cxx2lean  # noqa: E402
import vlib  # noqa: E402


def main():
    cxx2lean.regen()
    exe, err = vlib.build_cpp('x2lselftest', ['x2l_selftest.cpp'], flags=['-fno-access-control'])
    if exe is None:
        print(err)
        return 2
    rc, cpp, se = vlib.sh([exe], timeout=120)
    rc2, so2, se2 = vlib.lake(['build', 'Osmium.Generated.Src'])
    with vlib.Lock('lake', shared=True):
        rc3, lean, se3 = vlib.sh(['lake', 'env', 'lean', '--run', os.path.join(vlib.ROOT, 'tools', 'x2l_selftest.lean')], cwd=vlib.LEAN, timeout=600)
    a, b = cpp.strip().split('\n'), lean.strip().split('\n')
    bad = [(x, y) for x, y in zip(a, b) if x != y]
    if rc or rc2 or rc3 or len(a) != len(b) or bad:
        print('MISMATCH', rc, rc2, rc3, len(a), len(b), bad[:10], (se + se2 + se3)[-500:])
        return 1
    print('translated definitions agree with the compiled C++ on %d evaluations' % len(a))
    return 0


if __name__ == '__main__':
    sys.exit(main())
