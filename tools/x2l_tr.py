"""C++ (clang typed AST) -> Lean 4 translation core for tools/cxx2lean.py.  See cxx2lean.py for the
supported subset and the semantics (lean/Osmium/Model/CxxSem.lean)."""
import os
import re

from x2l_ast import FUNC_KINDS, RECORD_KINDS, Unsupported, is_expr

INT_TYPES = {'char': (8, True), 'signed char': (8, True), 'unsigned char': (8, False), 'short': (16, True),
             'unsigned short': (16, False), 'int': (32, True), 'unsigned int': (32, False), 'long': (64, True),
             'unsigned long': (64, False), 'long long': (64, True), 'unsigned long long': (64, False)}
LEAN_KEYWORDS = set('''end at from to in do then else if let have show fun by where with match open namespace section def
theorem instance structure class deriving local private protected export import universe variable Type Prop Sort
mutual macro syntax notation prefix infix postfix using calc self return for unless break continue true false
abbrev example inductive opaque axiom extends'''.split())
OPNAMES = {'operator()': 'call', 'operator<': 'lt', 'operator==': 'eq', 'operator!=': 'ne', 'operator-': 'sub',
           'operator+': 'add', 'operator*': 'mul', 'operator<=': 'le', 'operator>': 'gt', 'operator>=': 'ge',
           'operator!': 'not', 'operator bool': 'to_bool', 'operator/': 'div', 'operator%': 'mod'}
PASS_THROUGH = ('ParenExpr', 'ExprWithCleanups', 'MaterializeTemporaryExpr', 'CXXBindTemporaryExpr', 'ConstantExpr')
SEM = 'CxxSem.'


OSTR_RE = re.compile(r'\s*(?:std::)?(?:basic_string<char>|string|(?:std::)?back_insert_iterator<(?:std::)?basic_string<char>\s*>)\s*(&?)\s*$')


def is_ostr_type(q):
    """`std::string&` (non-const) or `std::back_insert_iterator<std::string>` by value: an OUTPUT string"""
    q = q.replace('std::__cxx11::', 'std::')
    m = OSTR_RE.match(q)
    if not m or q.lstrip().startswith('const'):
        return False
    return bool(m.group(1)) != ('back_insert_iterator' in q)


class Ty:
    def __init__(self, kind, w=None, signed=None, rec=None, elems=None):
        self.kind, self.w, self.signed, self.rec, self.elems = kind, w, signed, rec, elems

    def short(self):
        if self.kind == 'int':
            return ('i' if self.signed else 'u') + str(self.w)
        if self.kind == 'rec':
            return re.sub(r'[^A-Za-z0-9]+', '_', self.rec['_q'].split('::')[-1]).strip('_')
        if self.kind in ('ptr', 'pptr'):
            return ('pp' if self.kind == 'pptr' else 'p') + ('c' if self.signed else 'u')
        return {'bool': 'b', 'dbl': 'f64', 'pair': 'pair', 'vec': 'vec'}.get(self.kind, 'x')

    def __repr__(self):
        return 'Ty(%s)' % self.short()


T_BOOL = Ty('bool')
T_DBL = Ty('dbl')
T_VEC = Ty('vec')
T_VOID = Ty('void')


class E:
    """translated expression: Lean term, C++ type, definedness term (None = always defined)"""

    def __init__(self, term, ty, defd=None, elems=None):
        self.term, self.ty, self.defd, self.elems = term, ty, defd, elems


def conj(*ds):
    ds = [d for d in ds if d is not None and d != 'true']
    if not ds:
        return None
    return ds[0] if len(ds) == 1 else '(' + ' && '.join(ds) + ')'


def camel(s):
    return ''.join(p[:1].upper() + p[1:] for p in re.split(r'[^A-Za-z0-9]+', s) if p)


def ident(s):
    s = re.sub(r'[^A-Za-z0-9_]', '_', s)
    if not s or s[0].isdigit():
        s = 'v' + s
    return s + '_' if s in LEAN_KEYWORDS else s


class Item:
    def __init__(self, area, local, text, kind, node, cxx=''):
        self.area, self.local, self.text, self.kind, self.node, self.cxx = area, local, text, kind, node, cxx
        self.full = 'Src.%s.%s' % (area, local)
        self.params, self.ret, self.defd_trivial, self.uses_self = [], None, True, False
        self.effectful, self.fuel, self.state_ty, self.cparams = False, False, None, []
        self.buf = False          # takes the byte array `buf` as its first explicit parameter (after fuel)


class Fx:
    """effect summary of the function being translated (shared by all copies of its Env)"""

    def __init__(self):
        self.uses_self = False
        self.ret_ty = None
        self.writes_self = False     # a member of *this is assigned
        self.writes = False          # any assignment at all (locals included)
        self.throws = False
        self.fuel = False            # contains a loop (or calls a function with one)
        self.calls_fx = False        # calls a function with effects
        self.ref_locals = []         # reference-typed locals bound to an lvalue (aliases)
        self.cell = None             # decl id of the `const char**` in/out parameter (its cell is the state σ)
        self.buf = False             # the function has character cursors: every definition takes `buf`
        self.flow = False            # a Flow merge was emitted (join style)
        self.lits = []               # (lean name, bytes) of static local pointers to string literals: extra parameters
        self.ostr = None             # decl id of the `std::string&` / back_insert_iterator parameter the function appends to
                                     # (an OUTPUT byte list: part of the state σ)

    @property
    def effectful(self):
        return self.writes_self or self.throws or self.fuel or self.calls_fx or self.cell is not None or self.flow or self.ostr is not None


class Env:
    def __init__(self, self_ty=None, extract=False):
        self.vars = {}        # decl id -> (lean name, Ty): the CURRENT version of the variable (SSA renaming)
        self.used = set()
        self.self_ty = self_ty
        self.extract = extract
        self.free = {}        # decl id -> (lean name, Ty, offset)
        self.fx = Fx()
        self.self_name = 'self' if self_ty is not None else '()'   # current version of the object state
        self.in_loop = None   # loop context (x2l_st.py)
        self.opaque = ()      # qualified names of the calls this target treats as opaque values
        self.opaque_vals = {} # decl id -> (lean name, Ty, qualified name): the extra parameters
        self.join = False     # JOIN style (x2l_st.py jblock): `if` / loops deliver the variables they assign
        self.hoisted = {}     # node id of a postfix ++/-- evaluated as the old value (the increment follows the statement)
        self.brk = None       # inside a loop body, at the loop's own flow level: tail(env) that a `break` delivers

    uses_self = property(lambda s: s.fx.uses_self, lambda s, v: setattr(s.fx, 'uses_self', v))
    ret_ty = property(lambda s: s.fx.ret_ty, lambda s, v: setattr(s.fx, 'ret_ty', v))
    buf = property(lambda s: s.fx.buf, lambda s, v: setattr(s.fx, 'buf', v))

    def copy(self):
        """a branch: own variable versions, everything else shared"""
        e = Env.__new__(Env)
        e.__dict__.update(self.__dict__)
        e.vars = dict(self.vars)
        return e

    def fresh(self, name):
        base = 'self' if name == 'self' else ident(name)     # versions of the object state: self_1, self_2, …
        n, k = base, 0
        while n in self.used:
            k += 1
            n = '%s_%d' % (base, k)
        self.used.add(n)
        return n


class Translator:
    def __init__(self, index, sources, include_dir):
        self.ix = index
        self.src = sources
        self.inc = os.path.join(include_dir, '')
        self.items = {}       # key (decl id or ('x', name)) -> Item
        self.order = []
        self.in_progress = set()
        self.areas = {}       # area -> relfile
        self.rec_fields = {}  # record id -> {'fields': [(lean, Ty, bits, node)], 'bases': [(lean, recnode)]}

    # ---- helpers -----------------------------------------------------------------------------
    def rel(self, path):
        if path and path.startswith(self.inc):
            return path[len(self.inc):]
        return path or '?'

    def where(self, n):
        if n.get('kind') == 'ClassTemplateSpecializationDecl' and not self.rel(n.get('_file')).startswith('osmium/'):
            return self.areas.get(self.area_of(n), '?') + ' (explicit instantiation)'
        return '%s:%s' % (self.rel(n.get('_file')), n.get('_line'))

    def bad(self, n, what):
        raise Unsupported('unsupported construct at %s: %s' % (self.where(n), what))

    def area_of(self, n):
        r = self.rel(n.get('_file'))
        if not r.startswith('osmium/') and n.get('kind') == 'ClassTemplateSpecializationDecl':
            for c in n.get('inner', []):          # explicit instantiation: the members are located in the template's header
                if c.get('kind', '').endswith('Decl') and not c.get('isImplicit') and self.rel(c.get('_file')).startswith('osmium/'):
                    r = self.rel(c['_file'])
                    break
        if r.startswith('/') or not r.startswith('osmium/'):
            self.bad(n, 'declaration outside the osmium headers (%s)' % r)
        base = camel(os.path.basename(r)[:-4] if r.endswith('.hpp') else os.path.basename(r))
        if self.areas.setdefault(base, r) != r:
            base = camel(os.path.dirname(r)[len('osmium/'):]) + base
            self.areas.setdefault(base, r)
        return base

    def local_name(self, n):
        parts = []
        p = n
        while p is not None:
            k = p.get('kind')
            if k in RECORD_KINDS:
                nm = p.get('name') or 'anon'
                if k == 'ClassTemplateSpecializationDecl':
                    nm += '_' + '_'.join(self.short_targ(a) for a in p.get('_targs', []))
                parts.append(ident(nm))
            elif k in FUNC_KINDS:
                parts.append(self.func_base(p))
            elif k == 'EnumDecl' and p.get('scopedEnumTag') and p.get('name'):
                parts.append(ident(p['name']))
            elif k in ('EnumConstantDecl', 'VarDecl', 'FieldDecl'):
                parts.append(ident(p.get('name') or 'anon'))
            p = p.get('_parent')
        return '.'.join(reversed(parts))

    def short_targ(self, a):
        a = a.replace('const ', '').strip()
        if a in INT_TYPES:
            w, s = INT_TYPES[a]
            return ('i' if s else 'u') + str(w)
        return re.sub(r'[^A-Za-z0-9]+', '_', a.split('::')[-1]).strip('_')

    def func_base(self, f):
        name = f.get('name') or 'anon'
        k = f['kind']
        overloaded = len(self.ix.funcs.get(f.get('_q'), [])) > 1
        if k == 'CXXConstructorDecl':
            base, overloaded = 'ctor', True
        elif name in OPNAMES:
            base, overloaded = 'op_' + OPNAMES[name], True
        elif name.startswith('operator'):
            base, overloaded = 'op_' + ident(name[8:].strip()), True
        else:
            base = ident(name)
        if overloaded:
            sh = []
            for c in f.get('inner', []):
                if c.get('kind') == 'ParmVarDecl':
                    try:
                        sh.append(self.resolve(c['type'], c).short())
                    except Unsupported:
                        sh.append('x')
            if k == 'CXXMethodDecl' and name.startswith('operator') and f.get('_parent') is not None:
                pass
            base += ''.join('_' + s for s in sh)
            if k == 'FunctionDecl' and not name.startswith('operator'):
                # instantiations of one function template that differ only in the return type (`opl_parse_int<T>`)
                def pshort(g):
                    out = []
                    for c in g.get('inner', []):
                        if c.get('kind') == 'ParmVarDecl':
                            try:
                                out.append(self.resolve(c['type'], c).short())
                            except Unsupported:
                                out.append('x')
                    return out
                same = [g for g in self.ix.funcs.get(f.get('_q'), []) if g is not f and pshort(g) == sh]
                if same:
                    rt = f['type'].get('desugaredQualType') or f['type'].get('qualType', '')
                    try:
                        base += '_r' + self.resolve_str(rt[:rt.index('(')].strip(), f).short()
                    except (Unsupported, ValueError):
                        base += '_rx'
        return base

    # ---- types ---------------------------------------------------------------------------------
    def resolve(self, tobj, n):
        return self.resolve_str(tobj.get('desugaredQualType') or tobj.get('qualType') or '', n)

    def resolve_str(self, s, n):
        s0 = s
        m = re.search(r'\(unnamed enum at (.*):(\d+):(\d+)\)\s*&?$', s)
        if m:
            return self.enum_ty(self.ix.enums.get('@%s:%s' % (m.group(1), m.group(2))), n, s0)
        if '*' in s:
            s = re.sub(r'\b(std::)?uint8_t\b', 'unsigned char', s)      # clang keeps the typedef name inside a pointer type
            m = re.fullmatch(r'\s*(?:const (unsigned |signed )?char|(unsigned |signed )?char const)\s*\*\s*(const)?\s*(\*)?\s*(const)?\s*&?\s*', s)
            if m and not (m.group(4) and m.group(3)):
                sg = (m.group(1) or m.group(2) or '').strip()
                return Ty('pptr' if m.group(4) else 'ptr', 8, sg != 'unsigned')
            self.bad(n, 'pointer type outside the character-cursor subset (only `const char*`, `const unsigned char*`, `const char**`): ' + s0)
        s = re.sub(r'\b(const|volatile|struct|class|enum)\b', ' ', s)
        s = re.sub(r'\s+', ' ', s).strip()
        while s.endswith('&'):
            s = s[:-1].strip()
        if s in INT_TYPES:
            return Ty('int', *INT_TYPES[s])
        if s in ('bool', '_Bool'):
            return T_BOOL
        if s == 'double':
            return T_DBL
        if s == 'void':
            return T_VOID
        m = re.match(r'(?:std::)?pair<(.+), (.+)>$', s)
        if m:
            a, b = self.resolve_str(m.group(1), n), self.resolve_str(m.group(2), n)
            if a.kind == 'int' and b.kind == 'int':
                return Ty('pair', elems=[a, b])
            self.bad(n, 'std::pair of non-integer types: ' + s0)
        if re.match(r'std::(vector|basic_string)<', s):
            return T_VEC
        if s in self.ix.records:
            return Ty('rec', rec=self.ix.records[s])
        full = self.ix.complete_defaults(s)
        if full is not None and full in self.ix.records:
            return Ty('rec', rec=self.ix.records[full])
        if s in self.ix.enums:
            return self.enum_ty(self.ix.enums[s], n, s0)
        self.bad(n, 'type not in the translated subset: ' + s0)

    def enum_ty(self, en, n, s0):
        if en is None:
            self.bad(n, 'enum type not found: ' + s0)
        if 'fixedUnderlyingType' in en:
            return self.resolve(en['fixedUnderlyingType'], n)
        for c in en.get('inner', []):             # unfixed: clang converts every enumerator to the underlying type it chose
            for x in c.get('inner', []):
                if (x.get('kind') == 'ImplicitCastExpr' and x.get('castKind') == 'IntegralCast') or x.get('kind') == 'ConstantExpr':
                    return self.resolve(x['type'], n)
        return Ty('int', None, None)              # range unknown: conversions from it always wrap

    def lean_ty(self, ty, n):
        if ty.kind in ('int', 'dbl', 'ptr', 'pptr'):
            return 'Int'
        if ty.kind == 'ostr':
            return SEM + 'Buf'
        if ty.kind == 'bool':
            return 'Bool'
        if ty.kind == 'pair':
            return SEM + 'Pair'
        if ty.kind == 'vec':
            return SEM + 'Vector'
        if ty.kind == 'rec':
            return self.record_item(ty.rec).full
        self.bad(n, 'no Lean type for ' + repr(ty))

    def typed_term(self, ty, term, bits=None):
        if ty.kind == 'int':
            if ty.w is None:
                return None
            if bits is not None:
                return '%sinU %d %s' % (SEM, bits, term) if not ty.signed else '%sinS %d %s' % (SEM, bits, term)
            return '%s%s %d %s' % (SEM, 'inS' if ty.signed else 'inU', ty.w, term)
        if ty.kind == 'pair':
            return conj(self.typed_term(ty.elems[0], '%s.first' % term), self.typed_term(ty.elems[1], '%s.second' % term))
        if ty.kind == 'vec':
            return '%sinU 64 %s.size' % (SEM, term)
        if ty.kind == 'rec':
            return '%s.typed %s' % (self.record_item(ty.rec).full, term)
        if ty.kind in ('ptr', 'pptr'):
            return '%sptrOk buf %s' % (SEM, term)
        return None

    # ---- emission ------------------------------------------------------------------------------
    def add(self, key, item):
        self.items[key] = item
        self.order.append(item)
        return item

    def doc(self, n, extra=''):
        txt = self.src.text(n).replace('/-', '/ -').replace('-/', '- /')
        if len(txt) > 3000:
            txt = txt[:3000] + ' …'
        return '/-- %s%s\n```\n%s\n``` -/' % (self.where(n), extra, txt)

    def record_item(self, rec):
        key = rec['id']
        if key in self.items:
            return self.items[key]
        if key in self.in_progress:
            self.bad(rec, 'recursive record type ' + rec['_q'])
        self.in_progress.add(key)
        try:
            return self._record(rec, key)
        finally:
            self.in_progress.discard(key)

    def _record(self, rec, key):
        area, local = self.area_of(rec), self.local_name(rec)
        fields, bases, skipped = [], [], []
        for b in rec.get('bases', []):
            try:
                bt = self.resolve(b['type'], rec)
            except Unsupported:
                skipped.append('base ' + b['type']['qualType'])
                continue
            if bt.kind == 'rec':
                bases.append(('toBase_' + self.local_name(bt.rec).replace('.', '_'), bt))
        for c in rec.get('inner', []):
            if c.get('kind') != 'FieldDecl':
                continue
            try:
                ft = self.resolve(c['type'], c)
                if ft.kind not in ('int', 'bool', 'rec', 'pair', 'vec') or (ft.kind == 'int' and ft.w is None and 'fixedUnderlyingType' not in c):
                    raise Unsupported('x')
                if ft.kind == 'rec':
                    self.record_item(ft.rec)
            except Unsupported:
                skipped.append(c.get('name') or '?')
                continue
            bits = None
            if c.get('isBitfield'):
                ce = [x for x in c.get('inner', []) if x.get('kind') == 'ConstantExpr']
                if not ce or 'value' not in ce[0]:
                    skipped.append(c.get('name'))
                    continue
                bits = int(ce[0]['value'])
            fields.append((ident(c['name']), ft, bits, c))
        self.rec_fields[key] = {'fields': fields, 'bases': bases}
        lines = ['/-- %s `%s`%s -/' % (self.where(rec), rec['_q'],
                                      (' — members outside the translated subset are left out: ' + ', '.join(skipped)) if skipped else ''),
                 'structure %s where' % local]
        if not fields and not [b for b in bases]:
            lines.append('  mk ::')
        tys = []
        for nm, bt in bases:
            lines.append('  %s : %s' % (nm, self.lean_ty(bt, rec)))
            tys.append(self.typed_term(bt, 's.' + nm))
        for nm, ft, bits, c in fields:
            lines.append('  %s : %s' % (nm, self.lean_ty(ft, c)))
            tys.append(self.typed_term(ft, 's.' + nm, bits))
        lines.append('deriving DecidableEq, Repr')
        lines.append('/-- every member holds a value of its C++ type -/')
        lines.append('def %s.typed (s : %s) : Bool := %s' % (local, local, conj(*tys) or 'true'))
        return self.add(key, Item(area, local, '\n'.join(lines), 'record', rec))

    def const_item(self, d):
        key = d['id']
        if key in self.items:
            return self.items[key]
        area, local = self.area_of(d), self.local_name(d)
        if d['kind'] == 'EnumConstantDecl':
            val = self.enum_value(d)
            text = '%s\ndef %s : Int := %d' % (self.doc(d, ' (value as the compiler evaluates it)'), local, val)
        else:
            init = [c for c in d.get('inner', []) if is_expr(c)]
            q = d['type'].get('qualType', '')
            if not init or not (d.get('constexpr') or q.startswith('const ')):
                self.bad(d, 'variable %s is not a constant with an initialiser' % d.get('name'))
            e = self.ex(init[-1], Env())
            if e.ty.kind not in ('int', 'dbl', 'bool'):
                self.bad(d, 'constant of non-scalar type')
            text = '%s\ndef %s : %s := %s' % (self.doc(d), local, self.lean_ty(e.ty, d), e.term)
        return self.add(key, Item(area, local, text, 'const', d))

    def enum_value(self, d):
        ini = [x for x in d.get('inner', []) if is_expr(x)]
        if ini:
            return self.const_eval(ini[-1])
        sib = [x for x in d['_parent'].get('inner', []) if x.get('kind') == 'EnumConstantDecl']
        i = [x['id'] for x in sib].index(d['id'])
        return 0 if i == 0 else self.enum_value(sib[i - 1]) + 1

    def const_eval(self, x):
        """value of an enumerator initialiser as clang evaluated it (ConstantExpr), through integral casts"""
        if x.get('kind') == 'ConstantExpr' and 'value' in x:
            return int(x['value'])
        if x.get('kind') == 'ImplicitCastExpr' and x.get('castKind') == 'IntegralCast':
            v, ty = self.const_eval(x['inner'][0]), self.resolve(x['type'], x)
            if ty.kind != 'int' or ty.w is None:
                self.bad(x, 'enumerator converted to a non-integer type')
            v %= 2 ** ty.w
            return v - 2 ** ty.w if ty.signed and v >= 2 ** (ty.w - 1) else v
        self.bad(x, 'enumerator without an evaluated value')

    # ---- functions -----------------------------------------------------------------------------
    def check_param(self, p):
        q = p['type'].get('qualType', '')
        dq = p['type'].get('desugaredQualType', q)
        if '*' in dq and '&' not in dq:
            return self.resolve(p['type'], p)          # a character cursor (or refused there)
        if is_ostr_type(dq):
            return Ty('ostr')                          # an output string the function appends to
        if '*' in dq or ('&' in dq and not dq.lstrip().startswith('const')):
            self.bad(p, 'parameter %s of pointer / non-const reference type %s' % (p.get('name'), q))
        ty = self.resolve(p['type'], p)
        if ty.kind not in ('int', 'bool', 'rec', 'pair', 'vec') or (ty.kind == 'int' and ty.w is None):
            self.bad(p, 'parameter %s of type %s' % (p.get('name'), q))
        return ty

    def fn_item(self, f):
        d = self.ix.definition(f)
        if d is None:
            if f['kind'] == 'CXXConstructorDecl' and (f.get('isImplicit') or f.get('explicitlyDefaulted') == 'default'):
                d = f
            else:
                self.bad(f, 'function %s has no body in this translation unit' % f.get('_q', f.get('name')))
        key = d['id']
        if key in self.items:
            return self.items[key]
        if key in self.in_progress:
            self.bad(d, 'recursive function ' + d['_q'])
        if d.get('_dep'):
            self.bad(d, 'uninstantiated template ' + d['_q'])
        if d.get('virtual'):
            self.bad(d, 'virtual function ' + d['_q'])
        self.in_progress.add(key)
        try:
            it = self._fn(d)
        finally:
            self.in_progress.discard(key)
        self.items[f['id']] = it
        return it

    def _fn(self, d):
        area, local = self.area_of(d), self.local_name(d)
        parent = d.get('_parent')
        is_method = d['kind'] in ('CXXMethodDecl', 'CXXConversionDecl') and d.get('storageClass') != 'static'
        self_ty = Ty('rec', rec=parent) if (is_method or d['kind'] == 'CXXConstructorDecl') and parent is not None and parent.get('kind') in RECORD_KINDS else None
        env = Env(self_ty if is_method else None)
        env.used.add('self')
        params = []
        for p in d.get('inner', []):
            if p.get('kind') == 'ParmVarDecl':
                ty = self.check_param(p)
                nm = env.fresh(p.get('name') or 'arg')
                env.vars[p['id']] = (nm, ty)
                params.append((nm, ty))
        if d['kind'] == 'CXXConstructorDecl':
            val, dfd, ret = self.ctor_body(d, env, self_ty)
        else:
            body = [c for c in d.get('inner', []) if c.get('kind') == 'CompoundStmt']
            self.ret_ty = None
            val, dfd = self.block(list(body[0].get('inner', [])), env, d)
            ret = env.ret_ty
        if is_method and env.uses_self:
            self.record_item(parent)
            params = [('self', self_ty)] + params
        return self.emit_fn(area, local, d, params, ret, val, dfd, is_method and env.uses_self)

    def emit_fn(self, area, local, d, params, ret, val, dfd, uses_self, extra_doc=''):
        sig = ''.join(' (%s : %s)' % (nm, self.lean_ty(ty, d)) for nm, ty in params)
        typed = conj(*[self.typed_term(ty, nm) for nm, ty in params]) or 'true'
        trivial = is_true_blk(dfd)
        text = '%s\ndef %s%s : %s :=\n%s\n' % (self.doc(d, extra_doc), local, sig, self.lean_ty(ret, d), render(val, 2))
        text += '/-- no undefined behaviour (and exactness of integer-valued `double` arithmetic) on this input -/\n'
        text += 'def %s_defined%s : Bool :=\n%s\n' % (local, sig, render(dfd, 2))
        text += '/-- every argument holds a value of its C++ type -/\n'
        text += 'def %s_typed%s : Bool := %s' % (local, sig, typed)
        it = Item(area, local, text, 'fn', d, self.src.text(d))
        it.params, it.ret, it.defd_trivial, it.uses_self = params, ret, trivial, uses_self
        return self.add(d['id'] if not extra_doc else ('x', local), it)

    def ctor_body(self, d, env, self_ty):
        rec = self_ty.rec
        self.record_item(rec)
        info = self.rec_fields[rec['id']]
        inits, dfds = {}, []
        for c in d.get('inner', []):
            if c.get('kind') == 'CXXCtorInitializer':
                if 'anyInit' not in c:
                    self.bad(d, 'base / delegating constructor initialiser')
                if c['inner'][0].get('kind') == 'CXXDefaultInitExpr':
                    continue                       # = the member's in-class initialiser, taken from the FieldDecl below
                e = self.ex(c['inner'][0], env)
                inits[c['anyInit']['id']] = e
                dfds.append(e.defd)
            elif c.get('kind') == 'CompoundStmt':
                if any(s.get('kind') != 'NullStmt' for s in c.get('inner', [])):
                    self.bad(d, 'constructor with a non-empty body')
        if info['bases']:
            self.bad(d, 'constructor of a class with base classes')
        parts = []
        for nm, ft, bits, fd in info['fields']:
            if fd['id'] in inits:
                e = inits.pop(fd['id'])
            else:
                ini = [x for x in fd.get('inner', []) if x.get('kind') != 'ConstantExpr' or not fd.get('isBitfield')]
                ini = [x for x in ini if is_expr(x)]
                if not fd.get('hasInClassInitializer') or not ini:
                    self.bad(d, 'member %s is left uninitialised by this constructor' % nm)
                e = self.ex(ini[-1], Env())
                dfds.append(e.defd)
            parts.append('%s := %s' % (nm, e.term))
        for fid, e in inits.items():
            self.bad(d, 'constructor initialises a member outside the translated subset (%s)' % self.ix.by_id.get(fid, {}).get('name'))
        term = '({ %s } : %s)' % (', '.join(parts), self.lean_ty(self_ty, d)) if parts else '(⟨⟩ : %s)' % self.lean_ty(self_ty, d)
        return ('ret', term), ('ret', conj(*dfds) or 'true'), self_ty

    # ---- statements ----------------------------------------------------------------------------
    def returns(self, stmts):
        for s in stmts:
            k = s.get('kind')
            if k == 'ReturnStmt':
                return True
            if k == 'CompoundStmt' and self.returns(s.get('inner', [])):
                return True
            if k == 'IfStmt':
                inn = s.get('inner', [])
                if len(inn) == 3 and self.returns([inn[1]]) and self.returns([inn[2]]):
                    return True
        return False

    def block(self, stmts, env, fn):
        if not stmts:
            self.bad(fn, 'control reaches the end of the function without a return')
        s, rest = stmts[0], stmts[1:]
        k = s.get('kind')
        if k == 'ReturnStmt':
            if not s.get('inner'):
                self.bad(s, 'return without a value')
            e = self.ex(s['inner'][0], env)
            self.set_ret(env, e, s)
            return ('ret', e.term), ('ret', e.defd or 'true')
        if k == 'NullStmt':
            return self.block(rest, env, fn)
        if k == 'CompoundStmt':
            return self.block(list(s.get('inner', [])) + rest, env, fn)
        if k == 'DeclStmt':
            decls = s.get('inner', [])
            lets, dfds = [], []
            for v in decls:
                vk = v.get('kind')
                if vk in ('EnumDecl', 'StaticAssertDecl', 'TypedefDecl', 'TypeAliasDecl', 'UsingDecl'):
                    continue
                if vk != 'VarDecl' or v.get('storageClass') == 'static' and not v['type']['qualType'].startswith('const'):
                    self.bad(v, 'declaration statement of kind %s' % vk)
                init = [c for c in v.get('inner', []) if is_expr(c)]
                if not init:
                    self.bad(v, 'local %s without initialiser' % v.get('name'))
                e = self.ex(init[-1], env)
                vt = self.resolve(v['type'], v) if 'auto' not in v['type'].get('qualType', '') or 'desugaredQualType' in v['type'] else e.ty
                if vt.kind == 'int' and e.ty.kind == 'int' and (vt.w, vt.signed) != (e.ty.w, e.ty.signed):
                    self.bad(v, 'initialiser type differs from the declared type without a cast node')
                nm = env.fresh(v['name'])
                env.vars[v['id']] = (nm, e.ty if vt.kind != e.ty.kind else vt)
                lets.append((nm, e.term, e.defd))
            val, dfd = self.block(rest, env, fn)
            for nm, term, d0 in reversed(lets):
                val = ('let', nm, term, val)
                dfd = dfd if is_true_blk(dfd) else ('let', nm, term, dfd)
                if d0:
                    dfd = ('and', d0, dfd)
            return val, dfd
        if k == 'IfStmt':
            if s.get('hasInit') or s.get('hasVar') or s.get('isConstexpr'):
                self.bad(s, 'if statement with initialiser / condition variable / constexpr')
            inn = s.get('inner', [])
            c = self.ex(inn[0], env)
            if c.ty.kind != 'bool':
                self.bad(s, 'condition is not of type bool')
            then = [inn[1]]
            els = [inn[2]] if len(inn) > 2 else []
            tv, td = self.block(then if self.returns(then) else then + rest, env, fn)
            ev, ed = self.block(els if els and self.returns(els) else els + rest, env, fn)
            val = ('if', c.term, tv, ev)
            dfd = ('ret', 'true') if is_true_blk(td) and is_true_blk(ed) else ('if', c.term, td, ed)
            if c.defd:
                dfd = ('and', c.defd, dfd)
            return val, dfd
        self.bad(s, 'statement of kind %s' % k)

    def set_ret(self, env, e, n):
        old = getattr(env, 'ret_ty', None)
        if old is not None and (old.kind != e.ty.kind or (old.kind == 'int' and (old.w, old.signed) != (e.ty.w, e.ty.signed))):
            self.bad(n, 'return statements of different types')
        env.ret_ty = e.ty


def is_true_blk(b):
    return b[0] == 'ret' and b[1] in ('true', None)


def render(b, ind):
    p = ' ' * ind
    if b[0] == 'ret':
        return p + (b[1] or 'true')
    if b[0] == 'let':
        return '%slet %s := %s\n%s' % (p, b[1], b[2], render(b[3], ind))
    if b[0] == 'if':
        return '%sif %s then\n%s\n%selse\n%s' % (p, b[1], render(b[2], ind + 2), p, render(b[3], ind + 2))
    if b[0] == 'and':
        if is_true_blk(b[2]):
            return p + b[1]
        return '%s%s && (\n%s)' % (p, b[1], render(b[2], ind + 2))
    raise AssertionError(b)
