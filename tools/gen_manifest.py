#!/usr/bin/env python3
"""Assemble MANIFEST.json from tools/manifest.d/*.json (one fragment per claimed property)
and tools/manifest.d/_not_applicable.json (reasons for unclaimed ones)."""
import json, os, glob
ROOT = os.path.dirname(os.path.dirname(os.path.abspath(__file__)))
D = os.path.join(ROOT, 'tools', 'manifest.d')
# only fragments the lead has enabled (reviewed, committed, passing on the clean tree) are claimed
enabled = set(json.load(open(os.path.join(D, '_enabled.json'))))
checks = []
for f in sorted(glob.glob(os.path.join(D, 'C*.json'))):
    c = json.load(open(f))
    if c['property_id'] in enabled:
        checks.append(c)
claimed = {c['property_id'] for c in checks}
props = [json.loads(l)['id'] for l in open(os.path.join(ROOT, 'properties.jsonl'))]
na_reasons = json.load(open(os.path.join(D, '_not_applicable.json')))
na = [{'property_id': p, 'reason': na_reasons.get(p, 'no check built yet: the Lean model/theorems and correspondence harness for this property are planned in DESIGN.md §3 but not implemented in this round')}
      for p in props if p not in claimed]
base = json.load(open(os.path.join(D, '_base.json')))
base['checks'] = checks
for e in base.get('engines', []):
    e['serves_properties'] = sorted(claimed)
base['not_applicable'] = na
json.dump(base, open(os.path.join(ROOT, 'MANIFEST.json'), 'w'), indent=1)
print('claimed', sorted(claimed), 'not_applicable', [x['property_id'] for x in na])
