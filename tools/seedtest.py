#!/usr/bin/env python3
"""Confirm a seeded change and run the registered checks against it.

  tools/seedtest.py <seed-dir> [--props C16,C20] [--no-suite] [--tier quick]

<seed-dir> contains patch.diff, demo.cpp, meta.json ({"property": "Cxx", ...}).  A scratch
worktree of /repo is created outside /repo and /verif, the patch applied there, then
  1. the repository's own test suite is built and run with the patch (must pass: 159 tests),
  2. the demonstration is compiled and run on the clean tree (must exit 0) and the patched
     tree (must exit non-zero),
  3. `tools/check.py <prop>` is run with VERIF_REPO=<patched worktree> (the library is
     header-only, so this is the same as applying the patch to /repo and rebuilding) and the
     VIOLATION lines are collected,
and the worktree with its build output is removed.  Results are written into meta.json under
"confirmed" and printed.  Afterwards the checks are re-run on the real tree so that evidence and
Generated/*.lean belong to /repo again.
"""
import argparse
import json
import os
import shutil
import subprocess
import sys
import time

ROOT = os.path.dirname(os.path.dirname(os.path.abspath(__file__)))
LIBS = ['-lpthread', '-lz', '-lbz2', '-lexpat', '-llz4']


def sh(cmd, cwd=None, env=None, timeout=3600):
    e = dict(os.environ)
    if env:
        e.update(env)
    p = subprocess.run(cmd, cwd=cwd, env=e, stdout=subprocess.PIPE, stderr=subprocess.STDOUT, text=True, errors='replace',
                       shell=isinstance(cmd, str), timeout=timeout)
    return p.returncode, p.stdout


def main():
    ap = argparse.ArgumentParser()
    ap.add_argument('seed')
    ap.add_argument('--props', default=None)
    ap.add_argument('--no-suite', action='store_true')
    ap.add_argument('--tier', default='quick')
    ap.add_argument('--keep-evidence', action='store_true')
    a = ap.parse_args()
    seed = os.path.abspath(a.seed)
    meta_path = os.path.join(seed, 'meta.json')
    meta = json.load(open(meta_path)) if os.path.exists(meta_path) else {}
    props = (a.props.split(',') if a.props else [meta.get('property')])
    wt = '/tmp/seedtest_%d' % os.getpid()
    res = {'at': time.strftime('%Y-%m-%dT%H:%M:%S'), 'repo_head': sh('git -C /repo rev-parse --short HEAD')[1].strip()}
    try:
        rc, out = sh(['git', '-C', '/repo', 'worktree', 'add', '--detach', wt, 'HEAD'])
        if rc != 0:
            print(out)
            return 2
        # demo on the clean tree
        demo = os.path.join(seed, 'demo.cpp')
        if os.path.exists(demo):
            rc, out = sh(['g++', '-std=c++17', '-O1', '-I', os.path.join(wt, 'include'), demo, '-o', os.path.join(wt, 'demo_clean')] + LIBS)
            if rc != 0:
                res['demo_clean'] = 'compile-failed: ' + out[-300:]
            else:
                rc, out = sh([os.path.join(wt, 'demo_clean')], cwd=wt, timeout=300)
                res['demo_clean'] = rc
        rc, out = sh(['git', '-C', wt, 'apply', os.path.join(seed, 'patch.diff')])
        if rc != 0:
            res['apply'] = 'failed: ' + out[-300:]
            print(json.dumps(res, indent=1))
            return 2
        if os.path.exists(demo):
            rc, out = sh(['g++', '-std=c++17', '-O1', '-I', os.path.join(wt, 'include'), demo, '-o', os.path.join(wt, 'demo_patched')] + LIBS)
            if rc != 0:
                res['demo_patched'] = 'compile-failed: ' + out[-300:]
            else:
                rc, out = sh([os.path.join(wt, 'demo_patched')], cwd=wt, timeout=300)
                res['demo_patched'] = rc
                res['demo_patched_output'] = out[-300:]
        if not a.no_suite:
            rc, out = sh('cmake -G Ninja -B _build -S . -DCMAKE_BUILD_TYPE=RelWithDebInfo -DCMAKE_CXX_FLAGS=-Wno-error >/dev/null 2>&1 && '
                         'cmake --build _build -j16 >/dev/null 2>&1 && ctest --test-dir _build -j8 --timeout 900 2>&1 | grep -E "tests passed|tests failed|Failed"', cwd=wt)
            res['suite'] = 'pass' if '100% tests passed' in out and 'out of 159' in out else out[-400:]
            shutil.rmtree(os.path.join(wt, '_build'), ignore_errors=True)
        res['checks'] = {}
        for p in props:
            t = time.time()
            rc, out = sh([sys.executable, os.path.join(ROOT, 'tools', 'check.py'), p, '--tier', a.tier], cwd=ROOT,
                         env={'VERIF_REPO': wt}, timeout=7200)
            vio = [l for l in out.split('\n') if l.startswith('VIOLATION') or l.startswith('  what:')]
            res['checks'][p] = {'exit': rc, 'detected': rc == 1 and any(l.startswith('VIOLATION') for l in vio),
                                'lines': [l[:400] for l in vio[:6]], 'wall_s': round(time.time() - t, 1)}
    finally:
        sh(['git', '-C', '/repo', 'worktree', 'remove', '--force', wt])
        shutil.rmtree(wt, ignore_errors=True)
    # restore evidence / generated files of the real tree
    if not a.keep_evidence:
        for p in props:
            rc, out = sh([sys.executable, os.path.join(ROOT, 'tools', 'check.py'), p, '--tier', 'quick'], cwd=ROOT, timeout=7200)
            res['checks'][p]['clean_tree_exit_after'] = rc
    meta['confirmed'] = res
    if os.path.isdir(seed):
        json.dump(meta, open(meta_path, 'w'), indent=1)
    print(json.dumps(res, indent=1))
    return 0


if __name__ == '__main__':
    sys.exit(main())
