#!/bin/bash
# The repository's own test suite with the hook guard OFF (nothing defines OSMIUM_VERIF).
set -e
cmake -G Ninja -B /repo/_build -S /repo >/dev/null
cmake --build /repo/_build -j16
ctest --test-dir /repo/_build -j8 --timeout 900
