#!/usr/bin/env python3
"""Entry point of every registered check:  tools/check.py C16 [--tier quick|thorough] [--replay f]

Exit 0 = property held on everything explored (known findings are printed as KNOWN-FINDING
lines); exit 1 + `VIOLATION property=<id> replay=<path>` otherwise.
"""
import argparse
import importlib
import os
import sys
import traceback

sys.path.insert(0, os.path.dirname(os.path.abspath(__file__)))
import vlib  # noqa: E402


def main():
    ap = argparse.ArgumentParser()
    ap.add_argument('prop')
    ap.add_argument('--tier', default=os.environ.get('VERIF_TIER', 'quick'), choices=['quick', 'thorough'])
    ap.add_argument('--seed', type=int, default=int(os.environ.get('VERIF_SEED', '1')))
    ap.add_argument('--replay', default=None)
    a = ap.parse_args()
    prop = a.prop.upper()
    mod = importlib.import_module('props.' + prop.lower())
    ctx = vlib.Ctx(prop, a.tier, a.seed)
    ctx.replay = a.replay
    # lean/Osmium/Generated/*.lean is rewritten from the tree under check and then compiled: a run
    # against a COPY of the library (VERIF_REPO, used to try seeded changes) must not overlap with
    # any other run, or one would compile the other's generated files.  Runs against /repo itself
    # regenerate identical text and may share.
    tree_lock = vlib.Lock('tree', shared=(os.path.realpath(vlib.REPO) == '/repo'))
    tree_lock.__enter__()
    try:
        mod.run(ctx)
    except Exception:
        # an internal failure of the machinery must never look like a pass
        tb = traceback.format_exc()
        vlib.log(tb)
        ctx.violation('check-crashed', 'the check itself failed: ' + tb[-800:], {'kind': 'check-error', 'traceback': tb}, found_input=False)
    sys.exit(ctx.finish())


if __name__ == '__main__':
    main()
