"""Shared machinery for the per-property checks (see DESIGN.md §1).

A property check is a module tools/props/cNN.py with `run(ctx)`.  `ctx` (class Ctx)
offers: building harnesses from /repo's working tree, building + auditing the Lean
theorems of the property, running the compiled Lean model driver, diffing model vs
implementation streams, recording violations (with replay files), matching them against
KNOWN_FINDINGS.txt and writing the evidence file.
"""
import fcntl
import hashlib
import json
import os
import re
import subprocess
import sys
import time

ROOT = os.path.dirname(os.path.dirname(os.path.abspath(__file__)))
REPO = os.environ.get('VERIF_REPO', '/repo')
LEAN = os.path.join(ROOT, 'lean')
BUILD = os.path.join(ROOT, '.build')
# evidence/ describes /repo itself: a run against a COPY of the library (VERIF_REPO, used to try seeded
# changes and mutations) writes its evidence under .build/ instead, so it can never be committed by mistake
EVID = os.path.join(ROOT, 'evidence') if os.path.realpath(REPO) == '/repo' else os.path.join(BUILD, 'evidence_of_copy')
REPLAYS = os.path.join(ROOT, 'replays')
KNOWN = os.path.join(ROOT, 'KNOWN_FINDINGS.txt')
GUARD = 'OSMIUM_VERIF'
ALLOWED_AXIOMS = {'propext', 'Classical.choice', 'Quot.sound'}
FORBIDDEN_RE = re.compile(r'\bsorry\b|\badmit\b|^\s*axiom\s|native_decide|bv_decide|implemented_by|\bunsafe\s|maxHeartbeats\s+0\b')

os.makedirs(BUILD, exist_ok=True)
os.makedirs(EVID, exist_ok=True)
os.makedirs(REPLAYS, exist_ok=True)


def log(*a):
    print(*a, flush=True)


class SplitMix64:
    """The one PRNG every random choice derives from (same algorithm as harness/common.hpp)."""

    def __init__(self, seed):
        self.s = seed & 0xFFFFFFFFFFFFFFFF

    def next(self):
        self.s = (self.s + 0x9E3779B97F4A7C15) & 0xFFFFFFFFFFFFFFFF
        z = self.s
        z = ((z ^ (z >> 30)) * 0xBF58476D1CE4E5B9) & 0xFFFFFFFFFFFFFFFF
        z = ((z ^ (z >> 27)) * 0x94D049BB133111EB) & 0xFFFFFFFFFFFFFFFF
        return z ^ (z >> 31)

    def below(self, n):
        return self.next() % n if n else 0

    def choice(self, xs):
        return xs[self.below(len(xs))]

    def chance(self, num, den):
        return self.below(den) < num

    def shuffle(self, xs):
        for i in range(len(xs) - 1, 0, -1):
            j = self.below(i + 1)
            xs[i], xs[j] = xs[j], xs[i]


def sh(cmd, cwd=None, env=None, input=None, timeout=None, binary=False):
    e = dict(os.environ)
    if env:
        e.update(env)
    try:
        p = subprocess.run(cmd, cwd=cwd, env=e, input=input, stdout=subprocess.PIPE,
                           stderr=subprocess.PIPE, timeout=timeout,
                           shell=isinstance(cmd, str), text=not binary)
    except subprocess.TimeoutExpired as ex:
        # a harness that does not come back (a hang IS an observation): report it like a crash, with
        # the output produced so far, so that the caller names the op it stopped at
        def dec(b):
            if b is None:
                return b'' if binary else ''
            return b if binary or isinstance(b, str) else b.decode('utf-8', 'replace')
        return -9, dec(ex.stdout), (dec(ex.stderr) if not binary else b'') + ('' if binary else '\nTIMEOUT after %s s (process killed)' % timeout)
    return p.returncode, p.stdout, p.stderr


class Lock:
    def __init__(self, name, shared=False):
        self.path = os.path.join(BUILD, name + '.lock')
        self.shared = shared

    def __enter__(self):
        self.f = open(self.path, 'a')
        fcntl.flock(self.f, fcntl.LOCK_SH if self.shared else fcntl.LOCK_EX)
        return self

    def __exit__(self, *a):
        fcntl.flock(self.f, fcntl.LOCK_UN)
        self.f.close()


_tree_hash = None


def repo_tree_hash():
    """Hash of every file under /repo/include (the library is header-only): a harness
    binary is reused only if it was built from exactly this tree."""
    global _tree_hash
    if _tree_hash is None:
        h = hashlib.sha256()
        inc = os.path.join(REPO, 'include')
        for d, dirs, files in os.walk(inc):
            dirs.sort()
            for f in sorted(files):
                p = os.path.join(d, f)
                h.update(p.encode())
                with open(p, 'rb') as fh:
                    h.update(fh.read())
        _tree_hash = h.hexdigest()
    return _tree_hash


DEFAULT_LIBS = ['-lpthread', '-lz', '-lbz2', '-lexpat', '-llz4']


def build_cpp(name, sources, flags=(), asan=False, ndebug=True, libs=None, compiler='g++'):
    """Compile a harness against /repo's CURRENT working tree with the hook guard on.
    Returns (path, None) or (None, error_text).  Cached by (tree hash, sources, flags)."""
    libs = DEFAULT_LIBS if libs is None else libs
    srcs = [s if os.path.isabs(s) else os.path.join(ROOT, 'harness', s) for s in sources]
    fl = ['-std=c++17', '-O1', '-g', '-D' + GUARD, '-I' + os.path.join(REPO, 'include'),
          '-I' + os.path.join(ROOT, 'harness'), '-Wno-deprecated-declarations']
    if ndebug:
        fl.append('-DNDEBUG')
    if asan:
        fl += ['-fsanitize=address,undefined', '-fno-sanitize-recover=all', '-fno-omit-frame-pointer']
    fl += list(flags)
    h = hashlib.sha256()
    h.update(repo_tree_hash().encode())
    h.update(' '.join(fl + libs + [compiler]).encode())
    for s in srcs + [os.path.join(ROOT, 'harness', 'common.hpp')]:
        with open(s, 'rb') as fh:
            h.update(fh.read())
    out = os.path.join(BUILD, '%s-%s' % (name, h.hexdigest()[:16]))
    with Lock('cpp-' + name):
        if os.path.exists(out):
            return out, None
        # drop stale binaries of the same harness — but only old ones: another run (e.g. against a
        # VERIF_REPO copy, or one that started before /repo was edited) may still be using them
        now = time.time()
        for f in os.listdir(BUILD):
            fp = os.path.join(BUILD, f)
            if f.startswith(name + '-') and not f.endswith('.lock') and os.path.isfile(fp):
                try:
                    if now - os.path.getmtime(fp) > 6 * 3600:
                        os.remove(fp)
                except OSError:
                    pass
        tmp = out + '.tmp%d' % os.getpid()
        rc, so, se = sh([compiler] + fl + srcs + ['-o', tmp] + libs)
        if rc != 0:
            return None, se[-4000:]
        os.rename(tmp, out)
    return out, None


def lake(args, timeout=3600):
    with Lock('lake'):
        return sh(['lake'] + args, cwd=LEAN, timeout=timeout)


def write_if_changed(path, content):
    try:
        with open(path) as f:
            if f.read() == content:
                return False
    except OSError:
        pass
    os.makedirs(os.path.dirname(path), exist_ok=True)
    with open(path, 'w') as f:
        f.write(content)
    return True


def theorem_spans(path):
    """[(name, first_line, last_line)] of the theorems declared in a Lean file."""
    out = []
    with open(path) as f:
        lines = f.read().split('\n')
    starts = []
    for i, l in enumerate(lines, 1):
        m = re.match(r'\s*(?:private\s+|protected\s+)?(?:theorem|lemma)\s+([^\s:({\[]+)', l)
        if m:
            starts.append((m.group(1), i))
    for j, (n, i) in enumerate(starts):
        end = starts[j + 1][1] - 1 if j + 1 < len(starts) else len(lines)
        out.append((n, i, end))
    return out


def strip_comments(text):
    text = re.sub(r'/-.*?-/', lambda m: '\n' * m.group(0).count('\n'), text, flags=re.S)
    return re.sub(r'--.*', '', text)


def grep_forbidden(files):
    hits = []
    for p in files:
        with open(p) as f:
            txt = strip_comments(f.read())
        for i, l in enumerate(txt.split('\n'), 1):
            if FORBIDDEN_RE.search(l):
                hits.append('%s:%d: %s' % (os.path.relpath(p, ROOT), i, l.strip()))
    return hits


def lean_deps(module, seen=None):
    """Transitive closure of project-local imports of a module → list of file paths."""
    seen = seen if seen is not None else {}
    p = os.path.join(LEAN, module.replace('.', '/') + '.lean')
    if module in seen or not os.path.exists(p):
        return seen
    seen[module] = p
    with open(p) as f:
        for l in f:
            m = re.match(r'\s*(?:public\s+)?import\s+(\S+)', l)
            if m and (m.group(1).startswith('Osmium.') or m.group(1).startswith('Driver.')):
                lean_deps(m.group(1), seen)
    return seen


AUDIT_TMPL = '''import Lean
import %(mod)s
open Lean Elab Command
run_cmd do
  let env ← getEnv
  let some modIdx := env.getModuleIdx? `%(mod)s | throwError "no module"
  let mut names : Array Name := #[]
  for (n, ci) in env.constants.map₁.toList do
    if env.getModuleIdxFor? n == some modIdx then
      names := names.push n
  for n in names.qsort Name.lt do
    let axs ← collectAxioms n
    logInfo m!"THEOREM {n} AXIOMS {axs.qsort Name.lt}"
'''


class Violation:
    def __init__(self, key, what, replay, found_input):
        self.key = key
        self.what = what
        self.replay = replay
        self.found_input = found_input


class Ctx:
    def __init__(self, prop, tier, seed):
        self.prop = prop
        self.tier = tier
        self.seed = seed
        self.t0 = time.time()
        self.rng = SplitMix64(seed * 1000003 + int(prop[1:]))
        self.violations = []
        self.obligations = {}      # theorem -> {'discharged': bool, 'axioms': [...], 'why': str}
        self.evaluations = 0
        self.distinct = set()
        self.distinct_count_extra = 0
        self.samples = []
        self.streams = {}          # stream name -> {'lines': n, 'disagreements': n}
        self.hist = {}             # histogram of branches / op kinds
        self.assumptions = []
        self.trusted = ['Lean 4.33.0 kernel', 'axioms: propext, Classical.choice, Quot.sound (audited per theorem by `#print axioms`-equivalent collectAxioms)',
                        'tools/vlib.py + tools/props/%s.py (correspondence harness, generators, canonicalisation)' % prop.lower(),
                        'g++ 12 / libstdc++ for the harness; Lean compiler+runtime for the model driver']
        self.extra = {}
        self.level = 'proof'
        self.checker_cmds = []
        self.rule = ''
        self.known_printed = []

    # ---- statistics -------------------------------------------------------------
    def count(self, key, n=1):
        self.hist[key] = self.hist.get(key, 0) + n

    def sample(self, s, limit=8):
        if len(self.samples) < limit:
            self.samples.append(s)

    def note_case(self, case, nontrivial=True):
        """Count one explored case; distinct non-trivial cases are counted by hash."""
        self.evaluations += 1
        if nontrivial:
            self.distinct.add(hashlib.blake2b(case.encode() if isinstance(case, str) else case, digest_size=8).digest())

    # ---- Lean side ---------------------------------------------------------------
    def lean_build(self, exes=(), modules=None):
        """Build Osmium.Props.<prop> (or the given modules) and the model drivers.
        Returns (ok, log).  On failure the failing theorems are recorded as undischarged
        obligations (the caller then searches for a failing input)."""
        mods = list(modules) if modules is not None else ['Osmium.Props.' + self.prop]
        self.prop_modules = mods
        targets = mods + list(exes)
        t = time.time()
        self.exe_build_ok = True
        if exes:
            # drivers first: they depend on the models only, so the correspondence can still
            # run when a theorem breaks
            rc0, so0, se0 = lake(['build'] + list(exes))
            if rc0 != 0:
                self.exe_build_ok = False
        rc, so, se = lake(['build'] + targets)
        self.extra['lake_build_s'] = round(time.time() - t, 1)
        self.checker_cmds.append('cd lean && lake build ' + ' '.join(targets))
        out = so + se
        self.build_log = out
        failed = {}
        if rc != 0:
            for m in re.finditer(r'error: (?:\./)?([^\s:]+\.lean):(\d+):(\d+): (.*)', out):
                path, line, msg = os.path.join(LEAN, m.group(1)), int(m.group(2)), m.group(4)
                name = None
                if os.path.exists(path):
                    for n, a, b in theorem_spans(path):
                        if a <= line <= b:
                            name = n
                name = name or ('%s:%d' % (m.group(1), line))
                failed.setdefault(name, '%s:%d: %s' % (m.group(1), line, msg[:300]))
            if not failed:
                failed['<build>'] = out[-1500:]
        self.lean_failed = failed
        return rc == 0, out

    def lean_audit(self):
        """Axiom audit of every theorem of the property modules + forbidden-token grep over
        the property modules and everything they import from this project."""
        ok = True
        for mod in self.prop_modules:
            src = os.path.join(LEAN, mod.replace('.', '/') + '.lean')
            declared = [n for n, _, _ in theorem_spans(src)]
            audit_dir = os.path.join(BUILD, 'audit')
            os.makedirs(audit_dir, exist_ok=True)
            af = os.path.join(audit_dir, mod + '.lean')
            with open(af, 'w') as f:
                f.write(AUDIT_TMPL % {'mod': mod})
            with Lock('lake', shared=True):
                rc, so, se = sh(['lake', 'env', 'lean', af], cwd=LEAN, timeout=1800)
            self.checker_cmds.append('cd lean && lake env lean <audit of %s: collectAxioms for every theorem>' % mod)
            found = {}
            for m in re.finditer(r'THEOREM (\S+) AXIOMS \[(.*?)\]', so + se, flags=re.S):
                full = m.group(1)
                axs = [a.strip() for a in m.group(2).replace('\n', ' ').split(',') if a.strip()]
                found[full] = axs
            if rc != 0 and not found:
                self.obligations[mod + ':<audit>'] = {'discharged': False, 'axioms': [], 'why': (so + se)[-500:]}
                ok = False
                continue
            short = {}
            for full, axs in found.items():
                short[full.split('.')[-1]] = (full, axs)
            for n in declared:
                key = n.split('.')[-1]
                if key in short:
                    full, axs = short[key]
                    bad = [a for a in axs if a not in ALLOWED_AXIOMS]
                    self.obligations[full] = {'discharged': not bad, 'axioms': axs,
                                              'why': ('uses axioms ' + ', '.join(bad)) if bad else ''}
                    if bad:
                        ok = False
                else:
                    self.obligations[mod + '.' + n] = {'discharged': False, 'axioms': [], 'why': 'declared in source but not found as a theorem in the compiled module'}
                    ok = False
            # every other constant of the module (definitions, auxiliary lemmas) must be clean too
            for full, axs in found.items():
                bad = [a for a in axs if a not in ALLOWED_AXIOMS]
                if bad and full not in self.obligations:
                    self.obligations[full] = {'discharged': False, 'axioms': axs, 'why': 'uses axioms ' + ', '.join(bad)}
                    ok = False
        files = set()
        for mod in self.prop_modules:
            files.update(lean_deps(mod).values())
        hits = grep_forbidden(sorted(files))
        self.extra['forbidden_token_hits'] = hits
        if hits:
            ok = False
            self.obligations['<forbidden-tokens>'] = {'discharged': False, 'axioms': [], 'why': '; '.join(hits[:5])}
        return ok

    def leanchecker(self):
        res = True
        for mod in self.prop_modules:
            with Lock('lake', shared=True):
                rc, so, se = sh(['lake', 'env', 'leanchecker', mod], cwd=LEAN, timeout=3600)
            self.checker_cmds.append('cd lean && lake env leanchecker ' + mod)
            self.extra.setdefault('leanchecker', {})[mod] = 'ok' if rc == 0 else (so + se)[-500:]
            if rc != 0:
                res = False
                self.obligations[mod + ':<leanchecker>'] = {'discharged': False, 'axioms': [], 'why': (so + se)[-300:]}
        return res

    def model_exe(self, name):
        return os.path.join(LEAN, '.lake', 'build', 'bin', name)

    # ---- running -----------------------------------------------------------------
    def run_lines(self, cmd, text, env=None, timeout=None, cwd=None):
        """Feed op lines, return (rc, list of output lines, stderr).  rc = -9 and stderr ending in
        TIMEOUT when the process had to be killed (quick tier: 15 min, thorough: 90 min)."""
        if timeout is None:
            timeout = 900 if self.tier == 'quick' else 5400
        rc, so, se = sh(cmd, input=text, env=env, timeout=timeout, cwd=cwd)
        lines = so.split('\n')
        if lines and lines[-1] == '':
            lines.pop()
        return rc, lines, se

    def diff_streams(self, name, ops, impl, model, limit=20):
        """Compare implementation and model output line by line.  Returns the list of
        (index, op, impl_line, model_line) disagreements (at most `limit`)."""
        dis = []
        n = max(len(impl), len(model), len(ops))
        for i in range(n):
            a = impl[i] if i < len(impl) else '<missing>'
            b = model[i] if i < len(model) else '<missing>'
            if a != b:
                if len(dis) < limit:
                    dis.append((i, ops[i] if i < len(ops) else '<no-op>', a, b))
        st = self.streams.setdefault(name, {'lines': 0, 'disagreements': 0})
        st['lines'] += len(ops)
        st['disagreements'] += len(dis)
        return dis

    # ---- violations -------------------------------------------------------------
    def violation(self, key, what, replay_obj, found_input=True):
        """Record a violation.  `key` identifies the failing input / call site (matched
        against KNOWN_FINDINGS.txt)."""
        for v in self.violations:
            if v.key == key:
                return v
        h = hashlib.sha256((self.prop + key).encode()).hexdigest()[:12]
        path = os.path.join(REPLAYS, '%s-%s.json' % (self.prop, h))
        obj = {'property': self.prop, 'key': key, 'what': what, 'tier': self.tier, 'seed': self.seed,
               'failing_input_found': found_input}
        obj.update(replay_obj)
        with open(path, 'w') as f:
            json.dump(obj, f, indent=1)
        v = Violation(key, what, path, found_input)
        self.violations.append(v)
        return v

    def known_findings(self):
        known = []
        if os.path.exists(KNOWN):
            with open(KNOWN) as f:
                for l in f:
                    m = re.match(r'known:\s+property=(\S+)\s+key=(\S+)\s+(.*)', l.strip())
                    if m and m.group(1) == self.prop:
                        known.append((m.group(2), m.group(3)))
        return known

    # ---- finish -----------------------------------------------------------------
    def finish(self):
        known = dict(self.known_findings())
        real = []
        for v in self.violations:
            if v.key in known:
                log('KNOWN-FINDING: property=%s key=%s %s' % (self.prop, v.key, known[v.key]))
                self.known_printed.append(v.key)
            else:
                real.append(v)
        nob = len(self.obligations)
        ndis = sum(1 for o in self.obligations.values() if o['discharged'])
        cov = {
            'obligations': nob,
            'discharged': ndis,
            'checker_cmd': ' ; '.join(dict.fromkeys(self.checker_cmds)) or 'n/a',
            'trusted_base': self.trusted,
            'theorems': {k: {'discharged': v['discharged'], 'axioms': v['axioms'], **({'why': v['why']} if v['why'] else {})}
                         for k, v in sorted(self.obligations.items())},
            'evaluations': self.evaluations,
            'distinct_nontrivial': len(self.distinct) + self.distinct_count_extra,
            'rule': self.rule,
            'samples': self.samples,
            'correspondence_streams': self.streams,
            'histogram': dict(sorted(self.hist.items())),
            'known_findings_reproduced': self.known_printed,
        }
        cov.update(self.extra)
        ev = {
            'property_id': self.prop,
            'tier': self.tier,
            'seed': self.seed,
            'level': self.level,
            'coverage': cov,
            'assumptions': self.assumptions,
            'wall_s': round(time.time() - self.t0, 2),
            'violations': len(real),
        }
        with open(os.path.join(EVID, self.prop + '.json'), 'w') as f:
            json.dump(ev, f, indent=1)
        for v in real:
            tail = '' if v.found_input else ' no-failing-input-found'
            log('VIOLATION property=%s replay=%s%s' % (self.prop, v.replay, tail))
            log('  what: ' + v.what)
        log('%s %s: obligations %d/%d discharged, %d evaluations (%d distinct non-trivial), %d violations, %d known findings, %.1fs'
            % (self.prop, self.tier, ndis, nob, self.evaluations, cov['distinct_nontrivial'], len(real),
               len(self.known_printed), time.time() - self.t0))
        return 1 if real else 0

    # ---- convenience: the standard proof stage -------------------------------------
    def proof_stage(self, exes=(), modules=None, on_fail=None):
        """Build + audit the theorems.  If anything is not discharged, call
        on_fail(failed: dict name->why) which should search for a concrete failing input and
        record violations with found_input=True; if it records none, a
        no-failing-input-found violation naming the broken theorems is recorded."""
        # translator half of the tie: regenerate the shared constants file from the current source
        # (tools/consts.py); the `consts_tie*` theorems are then re-checked against it
        import consts
        consts.regen(self)
        # second kind of tie: small pure functions are TRANSLATED from the C++ source (tools/cxx2lean.py ->
        # Osmium/Generated/Src.lean); the `src_tie_*` theorems are then re-checked against the new text
        import cxx2lean
        cxx2lean.regen(self)
        ok, out = self.lean_build(exes=exes, modules=modules)
        if ok:
            ok = self.lean_audit()
            if ok and self.tier == 'thorough':
                ok = self.leanchecker()
        else:
            for n, why in self.lean_failed.items():
                self.obligations[n] = {'discharged': False, 'axioms': [], 'why': why}
        if not ok:
            failed = {n: o['why'] for n, o in self.obligations.items() if not o['discharged']}
            before = len(self.violations)
            if on_fail:
                on_fail(failed)
            if len(self.violations) == before:
                self.violation('proof-broken:' + ','.join(sorted(failed))[:200],
                               'theorems no longer check: ' + '; '.join('%s (%s)' % kv for kv in sorted(failed.items()))[:1500],
                               {'kind': 'broken-proof', 'theorems': failed}, found_input=False)
        return ok
