"""Statement translation for tools/cxx2lean.py: the IMPERATIVE subset (class ImpTranslator).

A function body is translated by symbolic execution of its statement list in continuation style: every
assignment creates a new version of the assigned variable (`let x_1 := …`) or of the object state
(`let self_1 := { self with m := … }`); an `if` translates both branches, each followed by the statements
after the `if`; `return` / `throw` end a path.  The result is a tree of `let` / `if` whose leaves are the
outcomes.  A function without effects (no member of `*this` written, no `throw`, no loop, no call of a
function with effects) is emitted as before: `f args : ρ`.  A function WITH effects is emitted as a state
transformer

    f [fuel] [self] args : CxxSem.Outcome σ ρ        σ = the record of `*this` (Unit for a free function)
        .normal s r      the call returned r (Unit for void), the object is in state s
        .thrown exc s    an exception of class `exc` left the function, the object is in state s
        .nofuel          a loop ran out of fuel (only functions with loops take `fuel`)

with `f_defined` (no undefined behaviour on the executed path) and `f_typed` as for pure functions.

Statements: compound, declarations of initialised locals, `if`, `return [e]`, `throw T{…}` (only the class of
the exception is modelled; the operand may only READ the state), `switch` over an integer / enum / char
with arbitrary fall-through and `break`, assignment statements `lv = e`, `lv op= e`, `++lv`, `lv++`, `--lv`,
`lv--` where `lv` is a local, a parameter passed by value, or a (nested / inherited / bit-field) member of
`*this` or of a local record, `std::swap(lv1, lv2)` on scalars, calls of functions with effects in the four
positions `f(…);`, `lv = f(…);`, `T x = f(…);`, `return f(…);` (the state is threaded through
`Outcome.bindLift`), `while` / `for` loops whose body neither returns, throws, breaks nor continues:
a loop becomes its own definition `f.loop_k fuel vars : Option (modified vars)` by recursion on the fuel
(`none` = fuel exhausted) with `f.loop_k_defined`.  `static_cast<void>(0)` (an `assert` under NDEBUG) is a
no-op.  Everything else is refused with file:line.

Functions with character cursors (`const char*`, `const char**`) and functions that BUILD A STRING (`std::string&` /
`std::back_insert_iterator<std::string>` parameters, local `std::string`s that are only appended to) are translated in JOIN
style (`jblock` below; tools/GUIDE.md "character cursors" / "output strings"): one byte array `buf` for all pointers, the
cursor cell and / or the output string as the state σ of the Outcome, loops with `return` / `throw` / `break`, calls that
bind the callee's state to variables of the caller (`Outcome.bindVia` / `Flow.callVia`), `std::strlen`, and static local
pointers to string literals as extra parameters (`f_lits` says where the literal lies in the array).
"""
import re

from x2l_ast import Unsupported, is_expr
from x2l_tr import E, Env, Item, SEM, T_BOOL, T_VOID, Ty, conj, ident, is_true_blk, is_ostr_type, PASS_THROUGH, RECORD_KINDS
from x2l_ex import FullTranslator, paren, fits

ASSIGN_KINDS = ('CompoundAssignOperator',)
END_SWITCH = {'kind': '_EndSwitch'}
OUT = SEM + 'Outcome'


def strip(n):
    while n.get('kind') in PASS_THROUGH:
        n = n['inner'][0]
    return n


def c_string_bytes(v):
    """the bytes of a narrow C string literal as clang prints it (`"…"` with escapes), without the NUL; None = not understood"""
    if len(v) < 2 or v[0] != '"' or v[-1] != '"':
        return None
    out, i, body = [], 0, v[1:-1]
    simple = {'n': 10, 't': 9, 'r': 13, '0': 0, '\\': 92, '"': 34, "'": 39, 'a': 7, 'b': 8, 'f': 12, 'v': 11}
    while i < len(body):
        ch = body[i]
        if ch != '\\':
            if ord(ch) > 127:
                return None
            out.append(ord(ch))
            i += 1
            continue
        if i + 1 >= len(body):
            return None
        e = body[i + 1]
        if e == 'x':
            j = i + 2
            while j < len(body) and body[j] in '0123456789abcdefABCDEF':
                j += 1
            if j == i + 2 or int(body[i + 2:j], 16) > 255:
                return None
            out.append(int(body[i + 2:j], 16))
            i = j
        elif e in '01234567' and not (e == '0' and (i + 2 >= len(body) or body[i + 2] not in '01234567')):
            j = i + 1
            while j < len(body) and j < i + 4 and body[j] in '01234567':
                j += 1
            if int(body[i + 1:j], 8) > 255:
                return None
            out.append(int(body[i + 1:j], 8))
            i = j
        elif e in simple:
            out.append(simple[e])
            i += 2
        else:
            return None
    return out


def isnull(n):
    """an absent child (clang prints `{}`; the index adds its location keys)"""
    return not n or 'kind' not in n


def walk(n, skip_switch=False):
    yield n
    for c in n.get('inner', []) or []:
        if c and not (skip_switch and c.get('kind') == 'SwitchStmt'):
            for x in walk(c, skip_switch):
                yield x


class ImpTranslator(FullTranslator):

    # ---- lvalues ---------------------------------------------------------------------------------
    def lvalue(self, n, env):
        """-> (root, path, ty, bits): root = 'self' or a variable decl id; path = member names"""
        n = strip(n)
        k = n.get('kind')
        if k == 'DeclRefExpr':
            r = n['referencedDecl']
            if r['kind'] not in ('VarDecl', 'ParmVarDecl'):
                self.bad(n, 'assignment to a %s' % r['kind'])
            e = self.ex(n, env)                      # binds a free variable in extraction mode
            if r['id'] not in env.vars and r['id'] not in env.free:
                self.bad(n, 'assignment to %s, which is not a local variable' % r.get('name'))
            d = self.ix.by_id.get(r['id'])
            q = (d or {}).get('type', {}).get('qualType', '')
            if '&' in q or ('*' in q and e.ty.kind != 'ptr'):
                self.bad(n, 'assignment through the reference / pointer %s' % r.get('name'))
            return r['id'], [], e.ty, None
        if k == 'CXXThisExpr':
            if env.self_ty is None:
                self.bad(n, '`this` outside a method')
            env.uses_self = True
            return 'self', [], env.self_ty, None
        if k == 'UnaryOperator' and n.get('opcode') == '*' and strip(n['inner'][0]).get('kind') == 'CXXThisExpr':
            return self.lvalue(n['inner'][0], env)
        if k == 'UnaryOperator' and n.get('opcode') == '*':
            cid = self.cell_ref(n['inner'][0], env)
            if cid is not None:                      # `*data` with `const char** data`: the cursor cell
                nm, ty = env.vars[cid]
                return cid, [], Ty('ptr', 8, ty.signed), None
        if k == 'ImplicitCastExpr' and n.get('castKind') in ('DerivedToBase', 'UncheckedDerivedToBase'):
            root, path, ty, bits = self.lvalue(n['inner'][0], env)
            dst = self.resolve_str(re.sub(r'\*\s*$', '', (n['type'].get('desugaredQualType') or n['type']['qualType'])), n)
            return root, path + self.base_path(ty, dst, n), dst, None
        if k == 'ImplicitCastExpr' and n.get('castKind') == 'NoOp':
            return self.lvalue(n['inner'][0], env)
        if k == 'MemberExpr':
            root, path, ty, bits = self.lvalue(n['inner'][0], env)
            if ty.kind != 'rec':
                self.bad(n, 'member of a non-record lvalue')
            fd = self.ix.by_id.get(n.get('referencedMemberDecl'))
            if fd is None or fd.get('kind') != 'FieldDecl':
                self.bad(n, 'member %s is not a data member' % n.get('name'))
            if fd.get('mutable'):
                self.bad(n, 'mutable member %s' % n.get('name'))
            self.record_item(ty.rec)
            for nm, ft, fb, c in self.rec_fields[ty.rec['id']]['fields']:
                if c['id'] == fd['id']:
                    return root, path + [nm], ft, fb
            self.bad(n, 'member %s of %s is outside the translated subset' % (n.get('name'), ty.rec['_q']))
        self.bad(n, 'assignment target of kind %s' % k)

    def cell_ref(self, n, env):
        """the decl id if n is (an rvalue read of) the function's `const char**` parameter"""
        n = strip(n)
        while n.get('kind') == 'ImplicitCastExpr' and n.get('castKind') in ('LValueToRValue', 'NoOp'):
            n = strip(n['inner'][0])
        if n.get('kind') == 'DeclRefExpr' and env.fx.cell is not None and n['referencedDecl']['id'] == env.fx.cell and env.fx.cell in env.vars:
            return env.fx.cell
        return None

    def root_term(self, root, env):
        return env.self_name if root == 'self' else (env.vars[root][0] if root in env.vars else env.free[root][0])

    @staticmethod
    def updated(obj, path, new):
        if not path:
            return new
        return '{ %s with %s := %s }' % (obj, path[0], ImpTranslator.updated('%s.%s' % (paren(obj), path[0]), path[1:], new))

    def store(self, root, path, new, env, n):
        """bind the next version of the root object; -> (lean name, term)"""
        term = self.updated(self.root_term(root, env), path, new)
        env.fx.writes = True
        if root == 'self':
            nm = env.fresh('self')
            env.self_name = nm
            env.fx.writes_self = True
            return nm, term
        old, ty = env.vars[root] if root in env.vars else env.free[root][:2]
        nm = env.fresh(re.sub(r'_\d+$', '', old))
        env.vars[root] = (nm, ty)
        return nm, term

    def stored_value(self, e, ty, bits, n):
        """the value a scalar lvalue of type ty (bit-field width bits) holds after `lv = e`"""
        if ty.kind not in ('int', 'bool', 'ptr'):
            self.bad(n, 'assignment to an lvalue of type %r (only integers, bool and character cursors)' % ty)
        if e.ty.kind != ty.kind or (ty.kind in ('int', 'ptr') and (e.ty.w, e.ty.signed) != (ty.w, ty.signed)):
            self.bad(n, 'assigned value of type %r differs from the target type %r without a cast node' % (e.ty, ty))
        if bits is not None and ty.kind == 'int':
            if ty.signed or ty.w is None:
                self.bad(n, 'assignment to a signed bit-field')
            if bits < ty.w:
                return '%swrapU %d %s' % (SEM, bits, paren(e.term))
        return e.term

    # ---- assignment-like statements -> [(root, path, value term)], definedness -------------------
    def assignment(self, s, env):
        k = s.get('kind')
        if k == 'BinaryOperator' and s.get('opcode') == '=':
            root, path, ty, bits = self.lvalue(s['inner'][0], env)
            call = self.fx_call(s['inner'][1], env)
            if call is not None:
                return ('call', call, (root, path, ty, bits))
            e = self.ex(s['inner'][1], env)
            return ('set', [(root, path, self.stored_value(e, ty, bits, s))], e.defd)
        if k == 'CompoundAssignOperator':
            op = s['opcode'][:-1]
            root, path, ty, bits = self.lvalue(s['inner'][0], env)
            if ty.kind == 'ptr' and op in ('+', '-'):
                r = self.ptr_arith(s, op, self.ex(s['inner'][0], env), self.ex(s['inner'][1], env))
                return ('set', [(root, path, self.stored_value(r, ty, bits, s))], r.defd)
            if ty.kind != 'int' or ty.w is None:
                self.bad(s, 'compound assignment to %r' % ty)
            cur = self.ex(s['inner'][0], env)
            lt = self.resolve(s['computeLHSType'], s)
            if lt.kind != 'int' or lt.w is None:
                self.bad(s, 'compound assignment computed in %r' % lt)
            L = self.int_from(cur, lt)
            R = self.ex(s['inner'][1], env)
            r = self.binop(s, op, L, R, s['computeResultType'])
            r = self.int_from(r, ty)
            return ('set', [(root, path, self.stored_value(r, ty, bits, s))], r.defd)
        if k == 'UnaryOperator' and s.get('opcode') in ('++', '--'):
            root, path, ty, bits = self.lvalue(s['inner'][0], env)
            if ty.kind == 'ptr':
                cur = self.ex(s['inner'][0], env)
                t = '%s %s 1' % (paren(cur.term), s['opcode'][0])
                return ('set', [(root, path, t)], conj(cur.defd, '%sptrOk buf (%s)' % (SEM, t)))
            if ty.kind != 'int' or ty.w is None:
                self.bad(s, '%s on %r' % (s['opcode'], ty))
            cur = self.ex(s['inner'][0], env)
            ct = ty if ty.w >= 32 else Ty('int', 32, True)          # integral promotion
            t = '%s %s 1' % (paren(cur.term), s['opcode'][0])
            if ct.signed:
                r = E(t, ct, conj(cur.defd, '%sinS %d (%s)' % (SEM, ct.w, t)) if ct is ty else cur.defd)
            else:
                r = E('%swrapU %d (%s)' % (SEM, ct.w, t), ct, cur.defd)
            r = self.int_from(r, ty)
            return ('set', [(root, path, self.stored_value(r, ty, bits, s))], r.defd)
        return None

    def is_std_swap(self, s):
        if s.get('kind') != 'CallExpr' or len(s.get('inner', [])) != 3:
            return False
        c = self.callee(s['inner'][0])
        r = c.get('referencedDecl') or {}
        return c.get('kind') == 'DeclRefExpr' and r.get('name') == 'swap' and r.get('id') not in self.ix.by_id

    def swap(self, s, env):
        a, b = s['inner'][1], s['inner'][2]
        la, lb = self.lvalue(a, env), self.lvalue(b, env)
        ea, eb = self.ex(a, env), self.ex(b, env)
        for l in (la, lb):
            if l[2].kind not in ('int', 'bool') or l[3] is not None:
                self.bad(s, 'std::swap on %r (only whole scalar objects)' % l[2])
        if (la[2].kind, la[2].w, la[2].signed) != (lb[2].kind, lb[2].w, lb[2].signed):
            self.bad(s, 'std::swap on differently typed objects')
        if la[0] == lb[0] and la[1] == lb[1]:
            return ('set', [], None)
        return ('set', [(la[0], la[1], eb.term), (lb[0], lb[1], ea.term)], conj(ea.defd, eb.defd))

    # ---- calls of functions with effects ---------------------------------------------------------
    def fx_call(self, n, env):
        """if n is (a wrapper around) a call of a translated function WITH effects: its description"""
        n = strip(n)
        k = n.get('kind')
        obj = None
        if k == 'CXXMemberCallExpr':
            me = strip(n['inner'][0])
            if me.get('kind') != 'MemberExpr':
                return None
            f = self.ix.by_id.get(me.get('referencedMemberDecl'))
            obj = me['inner'][0]
            argn = n['inner'][1:]
        elif k == 'CallExpr':
            c = self.callee(n['inner'][0])
            if c.get('kind') != 'DeclRefExpr':
                return None
            f = self.ix.by_id.get(c['referencedDecl']['id'])
            argn = n['inner'][1:]
        else:
            return None
        if f is None or f.get('kind') not in ('FunctionDecl', 'CXXMethodDecl'):
            return None
        it = self.fn_item(f)
        if getattr(it, 'lits', None):
            self.bad(n, 'call of a function with a static literal table (its index is an extra parameter)')
        if not it.effectful:
            return None
        if env.in_loop is not None:
            self.bad(n, 'call of a function with effects inside a loop body')
        if len(argn) != len(it.cparams):
            self.bad(n, 'call with %d arguments to a function translated with %d parameters (default arguments?)' % (len(argn), len(it.cparams)))
        args, special = [], {}
        for i_, (a, (pn, pt)) in enumerate(zip(argn, it.cparams)):
            loc = self.addr_of_local(a, env) if pt.kind == 'pptr' else None
            if pt.kind == 'ostr':
                vid = self.ostr_var(a, env)
                if vid is None:
                    self.bad(a, 'the output-string argument is not an output string of the caller (a `std::string&` parameter / local '
                                '`std::string`, or `std::back_inserter` of one)')
                special[i_] = ('ostr', vid)
                args.append(E(env.vars[vid][0], pt))
            elif loc is not None:
                special[i_] = ('addr', loc)
                args.append(E(env.vars[loc][0], Ty('pptr', 8, env.vars[loc][1].signed), None))
            else:
                args.append(self.ex(a, env))
        for a, (pn, pt) in zip(args, it.cparams):
            if a.ty.kind != pt.kind or (pt.kind == 'int' and (a.ty.w, a.ty.signed) != (pt.w, pt.signed)) or \
                    (pt.kind == 'rec' and a.ty.rec['id'] != pt.rec['id']):
                self.bad(n, 'argument type %r does not match parameter type %r' % (a.ty, pt))
        pre = []
        if it.fuel:
            env.fx.fuel = True
            pre.append('fuel')
        if it.buf:
            env.buf = True
            pre.append('buf')
        put = 'fun _ => %s' % env.self_name
        if it.state_ty is not None:
            if obj is None:
                self.bad(n, 'method call without an object')
            root, path, ty, bits = self.lvalue(obj, env)
            if root != 'self':
                self.bad(n, 'call of a method with effects on an object that is not (part of) *this')
            if ty.kind != 'rec' or ty.rec['id'] != it.state_ty.rec['id']:
                self.bad(n, 'object type of the call differs from the class of the method')
            cur = env.self_name + ''.join('.' + p for p in path)
            pre.append(paren(cur))
            put = 'fun t_ => %s' % self.updated(env.self_name, path, 't_')
            if path:
                env.fx.writes_self = True
            env.fx.writes = True
        env.fx.calls_fx = True
        argt = ''.join(' ' + p for p in pre) + ''.join(' ' + paren(a.term) for a in args)
        dd = conj(*([a.defd for a in args] + [None if it.defd_trivial else '%s_defined%s' % (it.full, argt)]))
        return {'term': it.full + argt, 'put': put, 'ret': it.ret, 'defd': dd, 'node': n, 'item': it, 'argn': argn, 'special': special}

    # ---- output strings (phase 4) -----------------------------------------------------------------
    # A `std::string& result` parameter, a by-value `std::back_insert_iterator<std::string>` parameter or a local
    # `std::string` that is only APPENDED to is an output byte list (`CxxSem.Buf`), versioned like a local; a parameter of
    # that kind is part of the state σ of the Outcome.  Nothing but size() / empty() may read it.

    def ostr_var(self, n, env):
        """the decl id if n denotes an output string of this function: the variable, `std::back_inserter(var)`, a copy of the iterator"""
        n = strip(n)
        while n.get('kind') == 'ImplicitCastExpr' and n.get('castKind') in ('LValueToRValue', 'NoOp'):
            n = strip(n['inner'][0])
        k = n.get('kind')
        if k == 'DeclRefExpr':
            rid = n['referencedDecl']['id']
            if rid in env.vars and env.vars[rid][1].kind == 'ostr':
                return rid
            return None
        if k == 'CallExpr' and len(n.get('inner', [])) == 2:
            c = self.callee(n['inner'][0])
            r = c.get('referencedDecl') or {}
            if c.get('kind') == 'DeclRefExpr' and r.get('name') == 'back_inserter' and r.get('id') not in self.ix.by_id:
                vid = self.ostr_var(n['inner'][1], env)
                if vid is not None and not self.is_iter_decl(vid):
                    return vid
            return None
        if k == 'CXXConstructExpr' and len(n.get('inner', [])) == 1 and \
                'back_insert_iterator' in (n['type'].get('desugaredQualType') or n['type'].get('qualType', '')):
            return self.ostr_var(n['inner'][0], env)              # copy of the iterator: it denotes the same string
        return None

    def is_iter_decl(self, vid):
        d = self.ix.by_id.get(vid) or {}
        return 'back_insert_iterator' in (d.get('type', {}).get('desugaredQualType') or d.get('type', {}).get('qualType', ''))

    def addr_of_local(self, a, env):
        """the decl id if a is `&s` with `s` a local `const char*` of this function (handed to a callee as ITS cursor cell)"""
        a = strip(a)
        if a.get('kind') == 'UnaryOperator' and a.get('opcode') == '&':
            t = strip(a['inner'][0])
            if t.get('kind') == 'DeclRefExpr':
                rid = t['referencedDecl']['id']
                d = self.ix.by_id.get(rid) or {}
                if rid in env.vars and env.vars[rid][1].kind == 'ptr' and d.get('kind') in ('VarDecl', 'ParmVarDecl') and rid != env.fx.cell \
                        and d.get('storageClass') != 'static':
                    return rid
        return None

    @staticmethod
    def op_name(n):
        """name of the operator function a CXXOperatorCallExpr calls"""
        c = n['inner'][0]
        while c.get('kind') in ('ImplicitCastExpr', 'ParenExpr'):
            c = c['inner'][0]
        return (c.get('referencedDecl') or {}).get('name')

    def byte_of(self, a, env, n):
        e = self.ex(a, env)
        if e.ty.kind != 'int' or e.ty.w != 8:
            self.bad(n, 'value of type %r appended to an output string (only `char`)' % e.ty)
        return e

    def lit_bytes_opt(self, a):
        try:
            return self.lit_bytes(a)
        except Unsupported:
            return None

    def lit_bytes(self, a):
        """the bytes of a string literal argument (`const char*` decayed from a literal), or None"""
        a = strip(a)
        while a.get('kind') == 'ImplicitCastExpr' and a.get('castKind') in ('ArrayToPointerDecay', 'NoOp'):
            a = strip(a['inner'][0])
        if a.get('kind') != 'StringLiteral':
            return None
        v = a.get('value', '')
        raw = c_string_bytes(v)
        if raw is None:
            self.bad(a, 'string literal %s (only plain narrow literals with simple escapes)' % v[:40])
        return '[' + ', '.join(str(b) for b in raw) + ']'

    def string_ctor(self, n, v):
        """initial contents of a local `std::string`: default-constructed or built from a plain string literal"""
        if n is None:
            return '([] : %sBuf)' % SEM
        n = strip(n)
        if n.get('kind') == 'CXXConstructExpr':
            args = [a for a in n.get('inner', []) if a and a.get('kind') != 'CXXDefaultArgExpr']
            if not args:
                return '([] : %sBuf)' % SEM
            if len(args) == 1:
                lit = self.lit_bytes(args[0])
                if lit is not None:
                    return '(%s : %sBuf)' % (lit, SEM)
        self.bad(v, 'local std::string %s initialised from something else than nothing / a string literal' % v.get('name'))

    def ostr_op(self, s, env):
        """an append-only operation on an output string as a statement -> (var id, new value term, definedness) or None"""
        k = s.get('kind')
        if k == 'CXXOperatorCallExpr':
            op = self.op_name(s)
            inn = s.get('inner', [])
            if op == '+=' or op == 'operator+=':
                vid = self.ostr_var(inn[1], env) if len(inn) == 3 else None
                if vid is None or self.is_iter_decl(vid):
                    return None
                lit = self.lit_bytes(inn[2]) if (inn[2].get('type', {}).get('qualType', '').count('*') == 1) else None
                if lit is not None:
                    return vid, '%s ++ %s' % (env.vars[vid][0], lit), None
                e = self.byte_of(inn[2], env, s)
                return vid, '%spush %s %s' % (SEM, env.vars[vid][0], paren(e.term)), e.defd
            if op == 'operator++' and len(inn) in (2, 3):
                vid = self.ostr_var(inn[1], env)         # `++out;` / `out++;` on a back_insert_iterator: no effect
                if vid is not None and self.is_iter_decl(vid):
                    return vid, env.vars[vid][0], None
                return None
            if op == 'operator=' and len(inn) == 3:
                # `*out = c`, `*out++ = c`, `*(out++) = c`, `*++out = c` on a back_insert_iterator: all append c
                t = strip(inn[1])
                seen_star = False
                while t.get('kind') == 'CXXOperatorCallExpr' and self.op_name(t) in ('operator*', 'operator++'):
                    seen_star = seen_star or self.op_name(t) == 'operator*'
                    t = strip(t['inner'][1])
                vid = self.ostr_var(t, env)
                if vid is None or not self.is_iter_decl(vid) or not seen_star:
                    return None
                e = self.byte_of(inn[2], env, s)
                return vid, '%spush %s %s' % (SEM, env.vars[vid][0], paren(e.term)), e.defd
            return None
        if k == 'CXXMemberCallExpr':
            me = strip(s['inner'][0])
            if me.get('kind') != 'MemberExpr':
                return None
            vid = self.ostr_var(me['inner'][0], env)
            if vid is None or self.is_iter_decl(vid):
                return None
            nm, argn = me.get('name'), s['inner'][1:]
            cur = env.vars[vid][0]
            if nm == 'push_back' and len(argn) == 1:
                e = self.byte_of(argn[0], env, s)
                return vid, '%spush %s %s' % (SEM, cur, paren(e.term)), e.defd
            if nm == 'clear' and not argn:
                return vid, '([] : %sBuf)' % SEM, None
            if nm == 'append' and len(argn) == 2:
                a, b = self.ex(argn[0], env), self.ex(argn[1], env)
                if a.ty.kind == 'ptr' and b.ty.kind == 'ptr':          # append(first, last): the bytes [first, last) of the input array
                    return vid, '%s ++ %sslice buf %s %s' % (cur, SEM, paren(a.term), paren(b.term)), \
                        conj(a.defd, b.defd, '%ssliceOk buf %s %s' % (SEM, paren(a.term), paren(b.term)))
                if a.ty.kind == 'ptr' and b.ty.kind == 'int' and b.ty.w is not None and not b.ty.signed:   # append(p, n)
                    end = '%s + %s' % (paren(a.term), paren(b.term))
                    return vid, '%s ++ %sslice buf %s (%s)' % (cur, SEM, paren(a.term), end), \
                        conj(a.defd, b.defd, '%ssliceOk buf %s (%s)' % (SEM, paren(a.term), end))
            if nm in ('size', 'length', 'empty'):
                return None
            self.bad(s, 'operation `%s` on an output string (only += char / literal, push_back, append(p, n), append(first, last), clear)' % nm)
        return None

    def bind_call(self, call, env, s, fn, k):
        """k(env, E of the result) -> (val, dfd) for the rest"""
        sn, rn = env.fresh('self' if env.self_ty is not None else 'u'), env.fresh('r')
        if env.self_ty is not None:
            env.self_name = sn
        res = E(rn, call['ret']) if call['ret'].kind != 'void' else None
        val, dfd = k(env, res)
        v = ('bind', call['term'], call['put'], sn, rn, val)
        d = ('bindB', call['term'], call['put'], sn, rn, dfd)
        if call['defd']:
            d = ('and', call['defd'], d)
        return v, d

    # ---- throw -----------------------------------------------------------------------------------
    def throw_class(self, t, env):
        if not t.get('inner'):
            self.bad(t, 'rethrow')
        op = t['inner'][0]
        cls = (op['type'].get('desugaredQualType') or op['type']['qualType']).replace('const ', '').strip()
        for x in walk(op):
            xk = x.get('kind')
            if xk in ASSIGN_KINDS or (xk == 'BinaryOperator' and x.get('opcode') in ('=', ',')) or \
                    (xk == 'UnaryOperator' and x.get('opcode') in ('++', '--')) or xk in ('CXXNewExpr', 'CXXDeleteExpr', 'LambdaExpr'):
                self.bad(x, 'side effect inside the operand of a throw')
        self.check_reads_only(op, None, t)
        return cls

    def check_reads_only(self, n, parent, t):
        """every reference to the state inside a throw operand is an rvalue read or a const lvalue"""
        k = n.get('kind')
        if k in ('DeclRefExpr', 'CXXThisExpr', 'MemberExpr'):
            if k == 'DeclRefExpr' and n.get('referencedDecl', {}).get('kind') not in ('VarDecl', 'ParmVarDecl'):
                return
            if k == 'MemberExpr' and '<bound member function type>' in n['type'].get('qualType', ''):
                obj = n['inner'][0]
                f = self.ix.by_id.get(n.get('referencedMemberDecl')) or {}
                if ' const' not in f.get('type', {}).get('qualType', '').split(')')[-1] and not \
                        (obj['type'].get('desugaredQualType') or obj['type']['qualType']).startswith('const '):
                    self.bad(n, 'call of a non-const method inside the operand of a throw')
                self.check_reads_only(obj, 'constobj', t)
                return
            q = n['type'].get('desugaredQualType') or n['type'].get('qualType', '')
            ok = parent in ('rvalue', 'constobj') or q.startswith('const ') or n.get('valueCategory') == 'prvalue'
            if not ok:
                self.bad(n, 'the operand of a throw takes a non-const reference to the state')
            if k == 'MemberExpr':
                self.check_reads_only(n['inner'][0], 'rvalue', t)
            return
        for c in n.get('inner', []) or []:
            if not c:
                continue
            p = None
            if k == 'ImplicitCastExpr' and n.get('castKind') == 'LValueToRValue':
                p = 'rvalue'
            elif k == 'ImplicitCastExpr' and (n['type'].get('desugaredQualType') or n['type'].get('qualType', '')).startswith('const '):
                p = 'constobj'
            self.check_reads_only(c, p, t)

    # ---- switch ----------------------------------------------------------------------------------
    def switch_parts(self, s):
        if s.get('hasInit') or s.get('hasVar'):
            self.bad(s, 'switch with initialiser / condition variable')
        inn = [c for c in s.get('inner', []) if c]
        if len(inn) != 2 or inn[1].get('kind') != 'CompoundStmt':
            self.bad(s, 'switch whose body is not a compound statement')
        flat, labels = [], []
        for c in inn[1].get('inner', []):
            while c.get('kind') in ('CaseStmt', 'DefaultStmt'):
                if c['kind'] == 'CaseStmt':
                    ci = [x for x in c.get('inner', []) if x]
                    if c.get('isGNURange') or len(ci) != 2 or ci[0].get('kind') != 'ConstantExpr' or 'value' not in ci[0]:
                        self.bad(c, 'case label without a single evaluated constant')
                    labels.append((int(ci[0]['value']), len(flat)))
                    c = ci[1]
                else:
                    labels.append(('default', len(flat)))
                    c = c['inner'][0]
            for x in walk(c, skip_switch=True):
                if x.get('kind') in ('CaseStmt', 'DefaultStmt'):
                    self.bad(x, 'case label nested inside another statement')
            if not labels and c.get('kind') != 'NullStmt':
                self.bad(c, 'statement before the first case label')
            flat.append(c)
        vals = [v for v, p in labels if v != 'default']
        if len(set(vals)) != len(vals) or [v for v, p in labels].count('default') > 1:
            self.bad(s, 'duplicate case labels')
        return inn[0], flat, labels

    # ---- loops -----------------------------------------------------------------------------------
    def is_local_decl(self, d):
        return d is not None and d.get('kind') in ('VarDecl', 'ParmVarDecl') and d.get('_parent') is not None and \
            d['_parent'].get('kind', '') in ('FunctionDecl', 'CXXMethodDecl', 'CXXConstructorDecl', 'CXXConversionDecl') and \
            d.get('storageClass') != 'static' and not d.get('constexpr')

    def loop_def(self, cond, body, env, fn, base, doc_node, extra_doc=''):
        """emit `base fuel vars : Option (modified vars)` + `base_defined`; -> (item, param ids, modified ids)"""
        nodes = ([cond] if cond else []) + body
        declared = set(x['id'] for n in nodes for x in walk(n) if x.get('kind') == 'VarDecl')
        ids, uses_this = [], False
        for n in nodes:
            for x in walk(n):
                k = x.get('kind')
                if k in ('ReturnStmt', 'CXXThrowExpr', 'BreakStmt', 'ContinueStmt', 'GotoStmt', 'CXXTryStmt', 'LambdaExpr'):
                    if k == 'BreakStmt' and self._inside_switch(nodes, x):
                        continue
                    self.bad(x, '%s inside a loop body' % k)
                if k == 'CXXThisExpr':
                    uses_this = True
                if k == 'DeclRefExpr' and x['referencedDecl']['kind'] in ('VarDecl', 'ParmVarDecl'):
                    rid = x['referencedDecl']['id']
                    if rid in declared or rid in ids:
                        continue
                    if rid in env.vars or rid in env.free or (env.extract and self.is_local_decl(self.ix.by_id.get(rid))):
                        ids.append(rid)
        ids.sort(key=lambda rid: ((self.ix.by_id.get(rid) or {}).get('range', {}).get('begin', {}) or {}).get('offset', 0))   # declaration order
        lenv = Env(env.self_ty, extract=False)
        lenv.used = set(['self', 'fuel'])
        lenv.in_loop = {'leaves': []}
        lenv.fx = env.fx
        params = []
        if uses_this:
            if env.self_ty is None:
                self.bad(doc_node, '`this` outside a method')
            env.uses_self = True
            self.record_item(env.self_ty.rec)
            params.append(('self', 'self', env.self_ty))
        for rid in ids:
            if rid in env.vars:
                ty = env.vars[rid][1]
            elif rid in env.free:
                ty = env.free[rid][1]
            else:
                e = self.ex({'kind': 'DeclRefExpr', 'referencedDecl': {'id': rid, 'kind': self.ix.by_id[rid]['kind'], 'name': self.ix.by_id[rid].get('name')},
                             'type': self.ix.by_id[rid]['type'], '_file': doc_node.get('_file'), '_line': doc_node.get('_line')}, env)
                ty = e.ty
            if ty.kind not in ('int', 'bool', 'rec', 'pair', 'vec'):
                self.bad(doc_node, 'loop variable of type %r' % ty)
            nm = lenv.fresh(self.ix.by_id[rid].get('name') or 'v')
            lenv.vars[rid] = (nm, ty)
            params.append((rid, nm, ty))
        marker = {'kind': '_LoopBack', 'params': params, 'base': base}
        c = self.ex(cond, lenv) if cond else E('true', T_BOOL)
        if c.ty.kind != 'bool':
            self.bad(doc_node, 'loop condition is not of type bool')
        env.fx.fuel = True
        bval, bdfd = self.block(list(body) + [marker], lenv.copy(), fn)
        modified = []
        for key, nm, ty in params:
            if any(key in ch for ch in lenv.in_loop['leaves']):
                modified.append((key, nm, ty))
        if not modified:
            self.bad(doc_node, 'loop that modifies none of its variables')
        ret = modified[0][1] if len(modified) == 1 else '(' + ', '.join(m[1] for m in modified) + ')'
        rty = ' × '.join(self.lean_ty(m[2], doc_node) for m in modified)
        sig = ' (fuel : Nat)' + ''.join(' (%s : %s)' % (nm, self.lean_ty(ty, doc_node)) for key, nm, ty in params)
        area = self.area_of(fn)
        ctx = {'loop': True}
        text = '%s\ndef %s%s : Option (%s) :=\n  match fuel with\n  | 0 => none\n  | fuel + 1 =>\n    if %s then\n%s\n    else\n      some %s\n' % (
            self.doc(doc_node, extra_doc), base, sig, rty, c.term, self.render(bval, 6, ctx), ret)
        dcond = (paren(c.defd) + ' && ') if c.defd else ''
        text += '/-- no undefined behaviour in the iterations that run within the fuel -/\n'
        text += 'def %s_defined%s : Bool :=\n  match fuel with\n  | 0 => true\n  | fuel + 1 =>\n    %s(if %s then\n%s\n    else\n      true)\n' % (
            base, sig, dcond, c.term, self.render(bdfd, 6, ctx))
        text += '/-- every argument holds a value of its C++ type -/\n'
        typed = conj(*[self.typed_term(ty, nm) for key, nm, ty in params]) or 'true'
        text += 'def %s_typed%s : Bool := %s' % (base, sig, typed)
        old = self.items.get(('loop', area, base))
        if old is not None:
            if old.text != text:
                self.bad(doc_node, 'the loop translates differently on two paths that reach it')
            return old, params, modified
        it = Item(area, base, text, 'loop', doc_node, self.src.text(doc_node))
        it.params = [(nm, ty) for key, nm, ty in params]
        it.cparams, it.effectful, it.fuel, it.state_ty = it.params, False, True, None
        it.ret, it.defd_trivial, it.uses_self = None, False, uses_this
        self.add(('loop', area, base), it)
        return it, params, modified

    def _inside_switch(self, roots, target):
        def go(n, insw):
            if n is target:
                return insw
            for c in n.get('inner', []) or []:
                if c:
                    r = go(c, insw or n.get('kind') == 'SwitchStmt')
                    if r is not None:
                        return r
            return None
        for r in roots:
            x = go(r, False)
            if x is not None:
                return x
        return False

    def loop_stmt(self, cond, body, rest, env, fn, s):
        self._loop_n = getattr(self, '_loop_n', {})
        self._loop_names = getattr(self, '_loop_names', {})
        key = fn.get('id')
        if (key, s['id']) not in self._loop_names:     # the same loop can be reached on several paths
            self._loop_n[key] = self._loop_n.get(key, 0) + 1
            self._loop_names[(key, s['id'])] = '%s.loop_%d' % (self.local_name(fn), self._loop_n[key])
        base = self._loop_names[(key, s['id'])]
        it, params, modified = self.loop_def(cond, body, env, fn, base, s)
        args = ' fuel' + ''.join(' ' + (env.self_name if key_ == 'self' else self.root_term(key_, env)) for key_, nm, ty in params)
        call = it.full + args
        names = []
        for key_, nm, ty in modified:
            if key_ == 'self':
                n2 = env.fresh('self')
                env.self_name = n2
                env.fx.writes_self = True
            else:
                n2 = env.fresh(nm)
                env.vars[key_] = (n2, ty)
            names.append(n2)
        env.fx.writes = True
        val, dfd = self.block(rest, env, fn)
        pat = names[0] if len(names) == 1 else '(' + ', '.join(names) + ')'
        return ('optbind', call, pat, val), ('and', '%s_defined%s' % (it.full, args), ('optbindB', call, pat, dfd))

    # ---- statements ------------------------------------------------------------------------------
    def block(self, stmts, env, fn):
        if not stmts:
            if self.is_void(fn):
                return self.leaf_normal(env, None)
            self.bad(fn, 'control reaches the end of the function without a return')
        s, rest = stmts[0], stmts[1:]
        k = s.get('kind')
        if k == '_EndSwitch' or k == 'NullStmt':
            return self.block(rest, env, fn)
        if k == '_LoopBack':
            lp = env.in_loop
            changed = set()
            args = []
            for key, nm, ty in s['params']:
                cur = env.self_name if key == 'self' else env.vars[key][0]
                if cur != nm:
                    changed.add(key)
                args.append(cur)
            lp['leaves'].append(changed)
            a = ' fuel' + ''.join(' ' + x for x in args)
            return ('ret', s['base'] + a), ('ret', s['base'] + '_defined' + a)
        if k in PASS_THROUGH and k != 'ConstantExpr':
            return self.block([s['inner'][0]] + rest, env, fn)
        if k == 'ReturnStmt':
            if env.in_loop is not None:
                self.bad(s, 'return inside a loop body')
            if not s.get('inner'):
                return self.leaf_normal(env, None)
            rv = strip(s['inner'][0])
            if rv.get('kind') == 'UnaryOperator' and rv.get('opcode') == '*' and strip(rv['inner'][0]).get('kind') == 'CXXThisExpr' \
                    and env.self_ty is not None and self.returns_self_ref(fn, env):
                return self.leaf_normal(env, None)     # `return *this;` of a method returning a reference to its object
            call = self.fx_call(s['inner'][0], env)
            if call is not None:
                def k_ret(env2, res):
                    if res is not None:
                        self.set_ret(env2, res, s)
                    return self.leaf_normal(env2, res)
                return self.bind_call(call, env, s, fn, k_ret)
            e = self.ex(s['inner'][0], env)
            self.set_ret(env, e, s)
            return self.leaf_normal(env, e)
        if k == 'CompoundStmt':
            return self.block(list(s.get('inner', [])) + rest, env, fn)
        if k == 'CXXThrowExpr':
            if env.in_loop is not None:
                self.bad(s, 'throw inside a loop body')
            cls = self.throw_class(s, env)
            env.fx.throws = True
            return ('leaf', 'thrown', env.self_name, '"%s"' % cls), ('ret', 'true')
        if k in ('CXXStaticCastExpr', 'CStyleCastExpr') and s.get('castKind') == 'ToVoid':
            inner = strip(s['inner'][0])
            if inner.get('kind') in ('IntegerLiteral', 'CXXBoolLiteralExpr'):
                return self.block(rest, env, fn)       # assert() under NDEBUG
            self.bad(s, 'expression cast to void')
        if k == 'DeclStmt':
            return self.decl_stmt(s, rest, env, fn)
        if k == 'IfStmt':
            if s.get('hasInit') or s.get('hasVar') or s.get('isConstexpr'):
                self.bad(s, 'if statement with initialiser / condition variable / constexpr')
            inn = s.get('inner', [])
            c = self.ex(inn[0], env)
            if c.ty.kind != 'bool':
                self.bad(s, 'condition is not of type bool')
            tv, td = self.block([inn[1]] + rest, env.copy(), fn)
            ev, ed = self.block(([inn[2]] if len(inn) > 2 else []) + rest, env.copy(), fn)
            val = ('if', c.term, tv, ev)
            dfd = ('ret', 'true') if is_true_blk(td) and is_true_blk(ed) else ('if', c.term, td, ed)
            if c.defd:
                dfd = ('and', c.defd, dfd)
            return val, dfd
        if k == 'SwitchStmt':
            return self.switch_stmt(s, rest, env, fn)
        if k == 'BreakStmt':
            for i, x in enumerate(rest):
                if x is END_SWITCH:
                    return self.block(rest[i + 1:], env, fn)
            self.bad(s, 'break outside a switch (break out of loops is not translated)')
        if k == 'WhileStmt':
            if s.get('hasVar') or len(s.get('inner', [])) != 2:
                self.bad(s, 'while with a condition variable')
            return self.loop_stmt(s['inner'][0], [s['inner'][1]], rest, env, fn, s)
        if k == 'ForStmt':
            inn = s.get('inner', [])
            if len(inn) != 5 or not isnull(inn[1]):
                self.bad(s, 'for statement with a condition variable')
            init, cond, inc, body = inn[0], inn[2], inn[3], inn[4]
            if isnull(cond):
                self.bad(s, 'for statement without a condition')
            loop = {'kind': '_For', 'cond': cond, 'body': [body] + ([] if isnull(inc) else [inc]), 'node': s}
            return self.block(([] if isnull(init) else [init]) + [loop] + rest, env, fn)
        if k == '_For':
            return self.loop_stmt(s['cond'], s['body'], rest, env, fn, s['node'])
        a = self.assignment(s, env)
        if a is None and self.is_std_swap(s):
            a = self.swap(s, env)
        if a is not None:
            if a[0] == 'call':
                root, path, ty, bits = a[2]

                def k_set(env2, res):
                    if res is None:
                        self.bad(s, 'assignment of a void result')
                    nm, term = self.store(root, path, self.stored_value(res, ty, bits, s), env2, s)
                    v, d = self.block(rest, env2, fn)
                    return ('let', nm, term, v), (d if is_true_blk(d) else ('let', nm, term, d))
                return self.bind_call(a[1], env, s, fn, k_set)
            sets = [(r, p, v) for r, p, v in a[1]]
            lets = []
            olds = [(r, self.root_term(r, env)) for r, p, v in sets]
            if len(sets) > 1 and len(set(r for r, p, v in sets)) < len(sets):
                self.bad(s, 'simultaneous assignment to two parts of the same object')
            for r, p, v in sets:
                lets.append(self.store(r, p, v, env, s))
            val, dfd = self.block(rest, env, fn)
            for nm, term in reversed(lets):
                val = ('let', nm, term, val)
                dfd = dfd if is_true_blk(dfd) else ('let', nm, term, dfd)
            if a[2]:
                dfd = ('and', a[2], dfd)
            return val, dfd
        call = self.fx_call(s, env) if is_expr(s) else None
        if call is not None:
            return self.bind_call(call, env, s, fn, lambda env2, res: self.block(rest, env2, fn))
        if is_expr(s) and k in ('CallExpr', 'CXXMemberCallExpr', 'CXXOperatorCallExpr'):
            e = self.ex(s, env)                       # a call without effects whose value is discarded
            val, dfd = self.block(rest, env, fn)
            return val, (('and', e.defd, dfd) if e.defd else dfd)
        self.bad(s, 'statement of kind %s' % k)

    def returns_self_ref(self, fn, env):
        m = re.match(r'([\w:<>, ]+) &\(', fn.get('type', {}).get('qualType', ''))
        if not m:
            return False
        try:
            rt = self.resolve_str(m.group(1), fn)
        except Unsupported:
            return False
        return rt.kind == 'rec' and rt.rec['id'] == env.self_ty.rec['id']

    def is_void(self, fn):
        return fn.get('kind') in ('FunctionDecl', 'CXXMethodDecl') and fn.get('type', {}).get('qualType', '').startswith('void (')

    def leaf_normal(self, env, e):
        if env.in_loop is not None:
            self.bad({'_file': None, '_line': None}, 'return inside a loop body')
        if e is None:
            if env.ret_ty is not None and env.ret_ty.kind != 'void':
                raise Unsupported('return statements of different types')
            env.ret_ty = T_VOID
            return ('leaf', 'normal', env.self_name, '()'), ('ret', 'true')
        return ('leaf', 'normal', env.self_name, e.term), ('ret', e.defd or 'true')

    def decl_stmt(self, s, rest, env, fn):
        decls = [v for v in s.get('inner', []) if v.get('kind') not in ('EnumDecl', 'StaticAssertDecl', 'TypedefDecl', 'TypeAliasDecl', 'UsingDecl')]
        if not decls:
            return self.block(rest, env, fn)
        v = decls[0]
        more = [dict(s, inner=decls[1:])] if len(decls) > 1 else []
        vk = v.get('kind')
        if vk != 'VarDecl' or v.get('storageClass') == 'static' and not v['type']['qualType'].startswith('const'):
            self.bad(v, 'declaration statement of kind %s' % vk)
        init = [c for c in v.get('inner', []) if is_expr(c)]
        if not init:
            self.bad(v, 'local %s without initialiser' % v.get('name'))
        q = v['type'].get('desugaredQualType') or v['type'].get('qualType', '')
        if '*' in q:
            self.bad(v, 'local %s of pointer type' % v.get('name'))
        if '&' in q:
            x, temp = init[-1], False
            while x.get('kind') in PASS_THROUGH:
                temp = temp or x['kind'] == 'MaterializeTemporaryExpr'
                x = x['inner'][0]
            if not temp and x.get('valueCategory') == 'lvalue':
                env.fx.ref_locals.append(v)      # an alias: only sound in a function without assignments
        call = self.fx_call(init[-1], env)
        if call is not None:
            def k_decl(env2, res):
                if res is None:
                    self.bad(v, 'local initialised with a void result')
                return self.bind_local(v, res, more + rest, env2, fn)
            return self.bind_call(call, env, s, fn, k_decl)
        e = self.ex(init[-1], env)
        return self.bind_local(v, e, more + rest, env, fn)

    def bind_local(self, v, e, rest, env, fn):
        vt = self.resolve(v['type'], v) if 'auto' not in v['type'].get('qualType', '') or 'desugaredQualType' in v['type'] else e.ty
        if vt.kind == 'int' and e.ty.kind == 'int' and (vt.w, vt.signed) != (e.ty.w, e.ty.signed):
            self.bad(v, 'initialiser type differs from the declared type without a cast node')
        nm = env.fresh(v['name'])
        env.vars[v['id']] = (nm, e.ty if vt.kind != e.ty.kind else vt)
        val, dfd = self.block(rest, env, fn)
        val = ('let', nm, e.term, val)
        dfd = dfd if is_true_blk(dfd) else ('let', nm, e.term, dfd)
        if e.defd:
            dfd = ('and', e.defd, dfd)
        return val, dfd

    def switch_stmt(self, s, rest, env, fn):
        cond, flat, labels = self.switch_parts(s)
        c = self.ex(cond, env)
        if c.ty.kind != 'int':
            self.bad(s, 'switch over %r' % c.ty)
        sw = env.fresh('sw')
        groups, default = [], None
        for v, p in labels:
            if v == 'default':
                default = p
            elif groups and groups[-1][0] == p:
                groups[-1][1].append(v)
            else:
                groups.append((p, [v]))
        if default is not None:                      # labels that share the default's position add nothing
            groups = [g for g in groups if g[0] != default]
        after = [END_SWITCH] + rest
        if default is not None:
            val, dfd = self.block(flat[default:] + after, env.copy(), fn)
        else:
            val, dfd = self.block(list(rest), env.copy(), fn)
        alltrue = is_true_blk(dfd)
        arms = []
        for p, vs in reversed(groups):
            test = ' || '.join('%seq %s %s' % (SEM, sw, ('(%d)' % x) if x < 0 else str(x)) for x in vs)
            tv, td = self.block(flat[p:] + after, env.copy(), fn)
            alltrue = alltrue and is_true_blk(td)
            arms.append((test, tv, td))
        for test, tv, td in arms:
            val = ('if', test, tv, val)
            dfd = ('if', test, td, dfd)
        val = ('let', sw, c.term, val)
        dfd = ('ret', 'true') if alltrue else ('let', sw, c.term, dfd)
        if c.defd:
            dfd = ('and', c.defd, dfd)
        return val, dfd


    # ---- JOIN style (functions with character cursors) ----------------------------------------------
    # A statement list is translated with ONE copy of every statement: an `if` none of whose branches always
    # leaves the function delivers the variables its branches assign (`let (a, b) := if c then … else …` when the
    # branches only assign; `Flow.seq/bind (if c then … else …) (fun (a, b) => rest)` when they can also return /
    # throw / loop); `if (c) throw …;` guards stay plain `if c then exit else rest`.  Loops are definitions
    # `f.loop_k fuel buf vars : Flow σ (modified vars) ρ` whose bodies may return and throw.

    EXIT_KINDS = ('ReturnStmt', 'CXXThrowExpr')

    def has_ptr(self, fn):
        """the function declares a character cursor (parameter or local)"""
        for x in walk(fn):
            if x.get('kind') in ('ParmVarDecl', 'VarDecl'):
                q = x.get('type', {}).get('desugaredQualType') or x.get('type', {}).get('qualType', '')
                if '*' in q and re.search(r'\bchar\b', q) and '(' not in q:
                    return True
                if x.get('kind') == 'ParmVarDecl' and x.get('_parent', fn) is fn and is_ostr_type(q):
                    return True
        return False

    def always_exits(self, stmts, brk=False):
        """brk: a `break` at this nesting level leaves the enclosing LOOP (join style), which also ends the statement list"""
        for st in stmts:
            st = strip(st) if st.get('kind') in PASS_THROUGH else st
            k = st.get('kind')
            if k in self.EXIT_KINDS or (brk and k == 'BreakStmt'):
                return True
            if k == 'CompoundStmt' and self.always_exits(st.get('inner', []), brk):
                return True
            if k == 'IfStmt':
                inn = st.get('inner', [])
                if len(inn) == 3 and self.always_exits([inn[1]], brk) and self.always_exits([inn[2]], brk):
                    return True
        return False

    def assigned_keys(self, nodes, env):
        """syntactic over-approximation of the variables visible in env that the statements assign (declaration order)"""
        keys = []

        def root(x):
            x = strip(x)
            k = x.get('kind')
            if k == 'DeclRefExpr':
                return x['referencedDecl']['id']
            if k == 'UnaryOperator' and x.get('opcode') == '*':
                return self.cell_ref(x['inner'][0], env)
            if k in ('MemberExpr', 'ImplicitCastExpr'):
                return root(x['inner'][0])
            return None
        for n in nodes:
            for x in walk(n):
                k = x.get('kind')
                tgt = []
                if (k == 'BinaryOperator' and x.get('opcode') == '=') or k == 'CompoundAssignOperator' or \
                        (k == 'UnaryOperator' and x.get('opcode') in ('++', '--')):
                    tgt = [root(x['inner'][0])]
                elif self.is_std_swap(x):
                    tgt = [root(x['inner'][1]), root(x['inner'][2])]
                elif k in ('CallExpr', 'CXXMemberCallExpr', 'CXXOperatorCallExpr', 'CXXConstructExpr', 'CXXTemporaryObjectExpr'):
                    for a in x.get('inner', []):
                        if a and self.cell_ref(a, env) is not None and self.resolve_arg_is_pptr(a):
                            tgt.append(env.fx.cell)
                        if a and k != 'CXXConstructExpr':
                            tgt.append(self.ostr_var(a, env))          # an output string handed to a call / operator: appended to
                            tgt.append(self.addr_of_local(a, env))     # `&s`: the callee moves the local cursor
                    if k == 'CXXMemberCallExpr':
                        me = strip(x['inner'][0])
                        if me.get('kind') == 'MemberExpr' and me.get('name') not in ('size', 'length', 'empty'):
                            tgt.append(self.ostr_var(me['inner'][0], env))
                for t in tgt:
                    if t is not None and t in env.vars and t not in keys:
                        keys.append(t)
        keys.sort(key=self.decl_offset)
        return keys

    def resolve_arg_is_pptr(self, a):
        q = a.get('type', {}).get('desugaredQualType') or a.get('type', {}).get('qualType', '')
        return q.count('*') == 2

    def decl_offset(self, rid):
        return ((self.ix.by_id.get(rid) or {}).get('range', {}).get('begin', {}) or {}).get('offset', 0)

    def state_term(self, env):
        parts = []
        for key, what in ((env.fx.cell, 'cursor cell'), (env.fx.ostr, 'output string')):
            if key is not None:
                if key not in env.vars:
                    raise Unsupported('the %s is not visible where the function returns / throws' % what)
                parts.append(env.vars[key][0])
        return self.jtuple(parts)

    @staticmethod
    def state_ty_str(fx):
        """σ of a join-style function: the cursor cell (Int) and / or the output string (Buf)"""
        return ' × '.join((['Int'] if fx.cell is not None else []) + ([SEM + 'Buf'] if fx.ostr is not None else [])) or 'Unit'

    def find_hoist(self, s, env):
        """postfix `x++` / `x--` inside the assignment statement s that can be evaluated as the old value of x with the
        increment carried out right after the statement: x is a local scalar / cursor that occurs nowhere else in s,
        and the increment is evaluated unconditionally"""
        if not ((s.get('kind') == 'BinaryOperator' and s.get('opcode') == '=') or s.get('kind') == 'CompoundAssignOperator'):
            return []
        found = []

        def go(n, cond):
            k = n.get('kind')
            if k == 'UnaryOperator' and n.get('opcode') in ('++', '--') and n.get('isPostfix') and not cond:
                t = strip(n['inner'][0])
                if t.get('kind') == 'DeclRefExpr' and t['referencedDecl']['id'] in env.vars and \
                        env.vars[t['referencedDecl']['id']][1].kind in ('int', 'ptr'):
                    found.append((n, t['referencedDecl']['id']))
                    return
            c2 = cond or k in ('ConditionalOperator', 'BinaryConditionalOperator', 'LambdaExpr', 'StmtExpr') or \
                (k == 'BinaryOperator' and n.get('opcode') in ('&&', '||', ','))
            for c in n.get('inner', []) or []:
                if c:
                    go(c, c2)
        go(s, False)
        out = []
        for n, rid in found:
            refs = [x for x in walk(s) if x.get('kind') == 'DeclRefExpr' and x['referencedDecl']['id'] == rid]
            d = self.ix.by_id.get(rid) or {}
            q = d.get('type', {}).get('qualType', '')
            if len(refs) == 1 and '&' not in q and 'id' in n:
                out.append(n)
        return out

    def jleaf(self, mode, kind, env, term):
        lf = ('leaf', kind, self.state_term(env), term)
        return ('jexit', lf) if mode == 'flow' else lf

    def jblock(self, stmts, env, fn, mode, tail):
        """mode 'out': the value is an Outcome (the statements run to the end of the function); 'flow': a Flow
        (a branch / loop body; `tail(env)` supplies what follows the last statement) -> (val, dfd)"""
        if not stmts:
            return tail(env)
        s, rest = stmts[0], stmts[1:]
        k = s.get('kind')
        if k == 'NullStmt':
            return self.jblock(rest, env, fn, mode, tail)
        if k in PASS_THROUGH and k != 'ConstantExpr':
            return self.jblock([s['inner'][0]] + rest, env, fn, mode, tail)
        if k == 'CompoundStmt':
            return self.jblock(list(s.get('inner', [])) + rest, env, fn, mode, tail)
        if k == 'ReturnStmt':
            if not s.get('inner'):
                if not self.is_void(fn):
                    self.bad(s, 'return without a value')
                env.ret_ty = T_VOID
                return self.jleaf(mode, 'normal', env, '()'), ('ret', 'true')
            if self.ostr_var(s['inner'][0], env) is not None:      # `return out;` of an output iterator: the same string
                env.ret_ty = T_VOID
                return self.jleaf(mode, 'normal', env, '()'), ('ret', 'true')
            call = self.fx_call(s['inner'][0], env)
            if call is not None:
                def k_ret(env2, res):
                    if res is None:
                        env2.ret_ty = T_VOID
                        return self.jleaf(mode, 'normal', env2, '()'), ('ret', 'true')
                    self.set_ret(env2, res, s)
                    return self.jleaf(mode, 'normal', env2, res.term), ('ret', 'true')
                return self.jcall(call, env, fn, mode, s, k_ret)
            e = self.ex(s['inner'][0], env)
            self.set_ret(env, e, s)
            return self.jleaf(mode, 'normal', env, e.term), ('ret', e.defd or 'true')
        if k == 'CXXThrowExpr':
            cls = self.throw_class(s, env)
            env.fx.throws = True
            return self.jleaf(mode, 'thrown', env, '"%s"' % cls), ('ret', self.throw_reads(s, env) or 'true')
        if k in ('CXXStaticCastExpr', 'CStyleCastExpr') and s.get('castKind') == 'ToVoid':
            if strip(s['inner'][0]).get('kind') in ('IntegerLiteral', 'CXXBoolLiteralExpr'):
                return self.jblock(rest, env, fn, mode, tail)       # assert() under NDEBUG
            self.bad(s, 'expression cast to void')
        if k == 'DeclStmt':
            decls = [v for v in s.get('inner', []) if v.get('kind') not in ('EnumDecl', 'StaticAssertDecl', 'TypedefDecl', 'TypeAliasDecl', 'UsingDecl')]
            if not decls:
                return self.jblock(rest, env, fn, mode, tail)
            v = decls[0]
            more = [dict(s, inner=decls[1:])] if len(decls) > 1 else []
            if v.get('kind') != 'VarDecl' or v.get('storageClass') == 'static' and not v['type']['qualType'].startswith('const'):
                self.bad(v, 'declaration statement of kind %s' % v.get('kind'))
            init = [c for c in v.get('inner', []) if is_expr(c)]
            q = v['type'].get('desugaredQualType') or v['type'].get('qualType', '')
            if v.get('storageClass') == 'static' and init and self.lit_bytes_opt(init[-1]) is not None:
                # `static const char* t = "literal";`: the table lies SOMEWHERE in the one array: its index becomes an extra
                # parameter of the function, `f_lits` says that the literal's bytes (and its NUL) are there
                vt = self.resolve(v['type'], v)
                if vt.kind != 'ptr' or mode != 'out' or env.fx.cell is not None and False:
                    self.bad(v, 'static local %s initialised from a string literal (only `static const char*` at function level)' % v.get('name'))
                for x in walk(fn):
                    if x.get('kind') in ('BinaryOperator', 'CompoundAssignOperator', 'UnaryOperator') and x.get('opcode') in ('=', '+=', '-=', '++', '--'):
                        t0 = strip(x['inner'][0])
                        if t0.get('kind') == 'DeclRefExpr' and t0['referencedDecl']['id'] == v['id']:
                            self.bad(x, 'assignment to the static local %s' % v.get('name'))
                nm = env.fresh(v['name'])
                env.vars[v['id']] = (nm, vt)
                env.fx.lits.append((nm, vt, self.lit_bytes_opt(init[-1])))
                env.buf = True
                return self.jblock(more + rest, env, fn, mode, tail)
            if is_ostr_type(q + ' &') and 'back_insert_iterator' not in q:
                # a local `std::string` that is only appended to: an output byte list (not part of the state σ)
                term = self.string_ctor(init[-1] if init else None, v)
                nm = env.fresh(v['name'])
                env.vars[v['id']] = (nm, Ty('ostr'))
                val, dfd = self.jblock(more + rest, env, fn, mode, tail)
                lt = SEM + 'Buf'
                return ('lett', nm, lt, term, val), (dfd if is_true_blk(dfd) else ('lett', nm, lt, term, dfd))
            if not init:
                self.bad(v, 'local %s without initialiser' % v.get('name'))
            if '&' in q:
                self.bad(v, 'reference-typed local %s in a function translated in join style' % v.get('name'))
            def bind_v(env2, e):
                vt = self.resolve(v['type'], v) if 'auto' not in v['type'].get('qualType', '') or 'desugaredQualType' in v['type'] else e.ty
                if vt.kind not in ('int', 'bool', 'ptr') or vt.kind != e.ty.kind or (vt.kind in ('int', 'ptr') and (vt.w, vt.signed) != (e.ty.w, e.ty.signed)):
                    self.bad(v, 'local %s: declared type %r, initialiser of type %r' % (v.get('name'), vt, e.ty))
                nm = env2.fresh(v['name'])
                env2.vars[v['id']] = (nm, vt)
                val, dfd = self.jblock(more + rest, env2, fn, mode, tail)
                lt = self.lean_ty(vt, v)
                return ('lett', nm, lt, e.term, val), self.jlet_d(nm, lt, e, dfd)
            call = self.fx_call(init[-1], env)
            if call is not None:
                def k_decl(env2, res):
                    if res is None:
                        self.bad(v, 'local initialised with a void result')
                    return bind_v(env2, res)
                return self.jcall(call, env, fn, mode, s, k_decl)
            return bind_v(env, self.ex(init[-1], env))
        if k == 'BinaryOperator' and s.get('opcode') == ',':
            return self.jblock([s['inner'][0], s['inner'][1]] + rest, env, fn, mode, tail)
        if k == 'IfStmt':
            return self.jif(s, rest, env, fn, mode, tail)
        if k == '_EndSwitch':
            return self.jblock(rest, env, fn, mode, tail)
        if k == 'BreakStmt':
            for i_, x in enumerate(rest):
                if x is END_SWITCH:
                    return self.jblock(rest[i_ + 1:], env, fn, mode, tail)
            if env.brk is not None:
                return env.brk(env)                    # leaves the enclosing loop with the current variables
            self.bad(s, 'break out of a loop from inside a branch that is merged (only at the flow level of the loop body)')
        if k == 'SwitchStmt':
            return self.jswitch(s, rest, env, fn, mode, tail)
        if k in ('WhileStmt', 'ForStmt', 'DoStmt', '_For'):
            return self.jloop_stmt(s, rest, env, fn, mode, tail)
        oo = self.ostr_op(s, env) if is_expr(s) else None
        if oo is not None:
            vid, term, od = oo
            old, ty = env.vars[vid]
            nm = env.fresh(re.sub(r'_\d+$', '', old))
            env.vars[vid] = (nm, ty)
            env.fx.writes = True
            lt = self.lean_ty(ty, s)
            val, dfd = self.jblock(rest, env, fn, mode, tail)
            val = ('lett', nm, lt, term, val)
            dfd = dfd if is_true_blk(dfd) else ('lett', nm, lt, term, dfd)
            return val, (('and', od, dfd) if od else dfd)
        hoist = self.find_hoist(s, env)
        for h in hoist:
            env.hoisted[h['id']] = True
        try:
            a = self.assignment(s, env)
        finally:
            for h in hoist:
                env.hoisted.pop(h['id'], None)
        if a is None and self.is_std_swap(s):
            a = self.swap(s, env)
        if a is not None:
            if a[0] == 'call':
                root, path, ty, bits = a[2]
                if root == 'self':
                    self.bad(s, 'assignment to a member in a function translated in join style')

                def k_set(env2, res):
                    if res is None:
                        self.bad(s, 'assignment of a void result')
                    nm, term = self.store(root, path, self.stored_value(res, ty, bits, s), env2, s)
                    lt = self.lean_ty(env2.vars[root][1], s)
                    v_, d_ = self.jblock(rest, env2, fn, mode, tail)
                    return ('lett', nm, lt, term, v_), (d_ if is_true_blk(d_) else ('lett', nm, lt, term, d_))
                return self.jcall(a[1], env, fn, mode, s, k_set)
            sets = a[1]
            if len(sets) > 1 and len(set(r for r, p_, v in sets)) < len(sets):
                self.bad(s, 'simultaneous assignment to two parts of the same object')
            lets = []
            for r, p_, v in sets:
                if r == 'self':
                    self.bad(s, 'assignment to a member in a function translated in join style')
                nm, term = self.store(r, p_, v, env, s)
                lets.append((nm, term, self.lean_ty(env.vars[r][1], s)))
            val, dfd = self.jblock(list(hoist) + rest, env, fn, mode, tail)
            for nm, term, lt in reversed(lets):
                val = ('lett', nm, lt, term, val)
                dfd = dfd if is_true_blk(dfd) else ('lett', nm, lt, term, dfd)
            if a[2]:
                dfd = ('and', a[2], dfd)
            return val, dfd
        call = self.fx_call(s, env) if is_expr(s) else None
        if call is not None:
            return self.jcall(call, env, fn, mode, s, lambda env2, res: self.jblock(rest, env2, fn, mode, tail))
        if is_expr(s) and k in ('CallExpr', 'CXXMemberCallExpr', 'CXXOperatorCallExpr'):
            e = self.ex(s, env)                       # a call without effects whose value is discarded
            val, dfd = self.jblock(rest, env, fn, mode, tail)
            return val, (('and', e.defd, dfd) if e.defd else dfd)
        self.bad(s, 'statement of kind %s (join style)' % k)

    def jcall(self, call, env, fn, mode, s, k):
        """a call of a translated function with effects in a join-style function; k(env, E of the result | None) -> (val, dfd)"""
        it = call['item']
        if it.state_ty is not None:
            self.bad(s, 'call of a member function with effects in a function translated in join style')
        cell = env.fx.cell
        if call.get('special') or getattr(it, 'ostr', False):
            return self.jcall_via(call, env, fn, mode, s, k)
        if getattr(it, 'cell', False):
            passed = [a for a, (pn, pt) in zip(call['argn'], it.cparams) if pt.kind == 'pptr']
            if cell is None or len(passed) != 1 or self.cell_ref(passed[0], env) is None or not self.resolve_arg_is_pptr(passed[0]):
                self.bad(s, 'the `const char**` argument of the call is not the `const char**` parameter of the caller')
            put = 'fun t_ => t_'
        else:
            if mode == 'flow' and cell is not None:
                self.bad(s, 'call of a function with effects but without a cursor cell inside a branch / loop of a function with one')
            put = 'fun _ => %s' % self.state_term(env)
        env.fx.calls_fx = True
        sn, rn = env.fresh('st'), env.fresh('r')
        if cell is not None:
            env.vars[cell] = (sn, env.vars[cell][1])
            env.fx.writes = True
        res = E(rn, call['ret']) if call['ret'] is not None and call['ret'].kind != 'void' else None
        val, dfd = k(env, res)
        if mode == 'out':
            v = ('bind', call['term'], put, sn, rn, val)
        else:
            v = ('jcallf', call['term'], sn, rn, val)
        d = ('bindB', call['term'], put, sn, rn, dfd)
        if call['defd']:
            d = ('and', call['defd'], d)
        return v, d

    def jcall_via(self, call, env, fn, mode, s, k):
        """a call whose callee state τ = (its cursor cell, its output string) is bound to VARIABLES of the caller: the cell to the
        caller's own `const char**` parameter or to a local cursor handed over as `&s`, the string to an output string of the
        caller; `put : τ → σ` says what the caller's state is when the callee throws"""
        it = call['item']
        comps = []                                     # (target var id in the caller)
        if getattr(it, 'cell', False):
            idx = [i_ for i_, (pn, pt) in enumerate(it.cparams) if pt.kind == 'pptr']
            if len(idx) != 1:
                self.bad(s, 'callee with %d `const char**` parameters' % len(idx))
            sp = call['special'].get(idx[0])
            if sp is not None:
                comps.append(sp[1])
            else:
                a = call['argn'][idx[0]]
                if env.fx.cell is None or self.cell_ref(a, env) is None or not self.resolve_arg_is_pptr(a):
                    self.bad(s, 'the `const char**` argument of the call is neither the `const char**` parameter of the caller nor `&local`')
                comps.append(env.fx.cell)
        if getattr(it, 'ostr', False):
            idx = [i_ for i_, (pn, pt) in enumerate(it.cparams) if pt.kind == 'ostr']
            if len(idx) != 1 or call['special'].get(idx[0]) is None:
                self.bad(s, 'callee with %d output strings' % len(idx))
            comps.append(call['special'][idx[0]][1])
        if len(set(comps)) != len(comps) or not comps:
            self.bad(s, 'call whose state components are not distinct variables of the caller')
        env.fx.calls_fx = True
        sn, rn = env.fresh('st'), env.fresh('r')
        projs = [sn] if len(comps) == 1 else ['%s.%d' % (sn, i_ + 1) for i_ in range(len(comps))]
        tmp = env.copy()
        for vid, pj in zip(comps, ['t_'] if len(comps) == 1 else ['t_.%d' % (i_ + 1) for i_ in range(len(comps))]):
            tmp.vars[vid] = (pj, env.vars[vid][1])
        put = 'fun t_ => %s' % self.state_term(tmp)
        lets = []
        for vid, pj in zip(comps, projs):
            old, ty = env.vars[vid]
            nm = env.fresh(re.sub(r'_\d+$', '', old))
            env.vars[vid] = (nm, ty)
            lets.append((nm, self.lean_ty(ty, s), pj))
        env.fx.writes = True
        res = E(rn, call['ret']) if call['ret'] is not None and call['ret'].kind != 'void' else None
        val, dfd = k(env, res)
        for nm, lt, pj in reversed(lets):
            val = ('lett', nm, lt, pj, val)
            dfd = dfd if is_true_blk(dfd) else ('lett', nm, lt, pj, dfd)
        v = ('bindvia' if mode == 'out' else 'jcallvia', call['term'], put, sn, rn, val)
        d = ('bindB', call['term'], 'fun t_ => t_', sn, rn, dfd)
        if call['defd']:
            d = ('and', call['defd'], d)
        return v, d

    @staticmethod
    def jlet_d(nm, lt, e, dfd):
        d = dfd if is_true_blk(dfd) else ('lett', nm, lt, e.term, dfd)
        return ('and', e.defd, d) if e.defd else d

    def throw_reads(self, t, env):
        """definedness of the reads the operand of a throw performs: a cursor handed to std::string (`std::string + p`,
        `std::string{p}`) is read as a C string"""
        ds = []
        for x in walk(t):
            if x.get('kind') in ('CXXOperatorCallExpr', 'CXXConstructExpr', 'CXXTemporaryObjectExpr', 'CallExpr', 'CXXMemberCallExpr') and \
                    'basic_string' in (x.get('type', {}).get('desugaredQualType') or x.get('type', {}).get('qualType', '')):
                for a in x.get('inner', []):
                    y = strip(a) if a else {}
                    while y.get('kind') == 'ImplicitCastExpr' and y.get('castKind') in ('LValueToRValue', 'NoOp'):
                        y = strip(y['inner'][0])
                    ok = y.get('kind') == 'DeclRefExpr' or (y.get('kind') == 'UnaryOperator' and y.get('opcode') == '*')
                    if ok and (a.get('type', {}).get('desugaredQualType') or a.get('type', {}).get('qualType', '')).count('*') == 1:
                        try:
                            e = self.ex(a, env)
                        except Unsupported:
                            continue
                        if e.ty.kind == 'ptr':
                            ds.append(conj(e.defd, '%scstrOk buf %s' % (SEM, paren(e.term))))
        return conj(*ds)

    def jnames(self, keys, env):
        return [env.vars[k_][0] for k_ in keys]

    def jrebind(self, keys, env):
        """fresh versions of the variables a merge / loop delivers -> names"""
        names = []
        for k_ in keys:
            old, ty = env.vars[k_]
            nm = env.fresh(re.sub(r'_\d+$', '', old))
            env.vars[k_] = (nm, ty)
            names.append(nm)
        env.fx.writes = True
        return names

    def jif(self, s, rest, env, fn, mode, tail):
        if s.get('hasInit') or s.get('hasVar') or s.get('isConstexpr'):
            self.bad(s, 'if statement with initialiser / condition variable / constexpr')
        inn = s.get('inner', [])
        c = self.ex(inn[0], env)
        if c.ty.kind != 'bool':
            self.bad(s, 'condition is not of type bool')
        A, B = [inn[1]], ([inn[2]] if len(inn) > 2 else [])
        brk_ok = env.brk is not None and not any(x is END_SWITCH for x in rest)
        ea, eb = self.always_exits(A, brk_ok), self.always_exits(B, brk_ok)

        def guard(dfd):
            return ('and', c.defd, dfd) if c.defd else dfd
        if ea or eb or not rest:
            tv, td = self.jblock(A + ([] if ea else rest), env.copy(), fn, mode, tail)
            ev, ed = self.jblock(B + ([] if eb else rest), env.copy(), fn, mode, tail)
            dfd = ('ret', 'true') if is_true_blk(td) and is_true_blk(ed) else ('if', c.term, td, ed)
            return ('if', c.term, tv, ev), guard(dfd)
        keys = self.assigned_keys(A + B, env)

        def t_next(e2):
            return ('jnext', self.jnames(keys, e2)), ('ret', 'true')
        menv = env.copy()
        menv.brk = None                                # a `break` inside a merged branch would have to skip the merge: refused
        tv, td = self.jblock(A, menv.copy(), fn, 'flow', t_next)
        ev, ed = self.jblock(B, menv.copy(), fn, 'flow', t_next)
        names = self.jrebind(keys, env)
        rv, rd = self.jrest(rest, env, fn, mode, tail)
        bd = ('ret', 'true') if is_true_blk(td) and is_true_blk(ed) else ('if', c.term, td, ed)
        merged = ('if', c.term, tv, ev)
        if self.tree_pure(tv) and self.tree_pure(ev):
            val = ('letp', names, merged, rv)
            dfd = ('conj', [bd, ('ret', 'true') if is_true_blk(rd) else ('letp', names, merged, rd)])
        else:
            env.fx.flow = True
            fty = '%sFlow %s (%s) «rho»' % (SEM, paren(self.state_ty_str(env.fx)),
                                          ' × '.join(self.lean_ty(env.vars[k_][1], s) for k_ in keys) or 'Unit')
            val = ('jbind', 'seq' if mode == 'out' else 'bind', merged, names, rv)
            dfd = ('conj', [bd, ('ret', 'true') if is_true_blk(rd) else ('jand', merged, names, rd, fty)])
        return val, guard(dfd)

    COMPOUND = ('IfStmt', 'WhileStmt', 'ForStmt', 'DoStmt', 'SwitchStmt')

    def jrest(self, rest, env, fn, mode, tail):
        """the statements after a merge / loop: at function level, when they contain further control flow, they become a
        JOIN POINT `f.k_n [fuel] buf vars : Outcome σ ρ` of their own (so that a tie can be proved stage by stage)"""
        if mode != 'out' or not any(x.get('kind') in self.COMPOUND for n in rest for x in walk(n)):
            return self.jblock(rest, env, fn, mode, tail)
        self._k_n = getattr(self, '_k_n', {})
        key = fn.get('id')
        self._k_n[key] = self._k_n.get(key, 0) + 1
        base = '%s.k_%d' % (self.local_name(fn), self._k_n[key])
        declared = set(x['id'] for n in rest for x in walk(n) if x.get('kind') == 'VarDecl')
        ids = []
        for n in rest:
            for x in walk(n):
                if x.get('kind') == 'DeclRefExpr' and x['referencedDecl']['kind'] in ('VarDecl', 'ParmVarDecl'):
                    rid = x['referencedDecl']['id']
                    if rid not in declared and rid not in ids and rid in env.vars:
                        ids.append(rid)
        for sk in (env.fx.cell, env.fx.ostr):
            if sk is not None and sk not in ids and sk in env.vars:
                ids.append(sk)
        ids.sort(key=self.decl_offset)
        fuel = any(x.get('kind') in ('WhileStmt', 'ForStmt', 'DoStmt') for n in rest for x in walk(n))
        kenv = Env(None, extract=False)
        kenv.used = set(['self', 'fuel', 'buf'])
        kenv.fx = env.fx
        kenv.join = True
        kenv.hoisted = env.hoisted
        params = []
        for rid in ids:
            ty = env.vars[rid][1]
            if ty.kind not in ('int', 'bool', 'ptr', 'pptr', 'ostr'):
                self.bad(rest[0], 'variable of type %r live at a join point' % ty)
            nm = kenv.fresh(self.ix.by_id[rid].get('name') or 'v')
            kenv.vars[rid] = (nm, ty)
            params.append((rid, nm, ty))
        val, dfd = self.jblock(rest, kenv, fn, 'out', tail)
        env.buf = True
        sig = (' (fuel : Nat)' if fuel else '') + ' (buf : %sBuf)' % SEM + ''.join(' (%s : %s)' % (nm, self.lean_ty(ty, rest[0])) for rid, nm, ty in params)
        st = self.state_ty_str(env.fx)
        ctx = {'eff': True}
        first = rest[0]
        first.setdefault('_file', fn.get('_file'))
        text = '/-- %s: the statements of `%s` from here to its end, as a function of the variables they read (join point) -/\n' % (
            self.where(first), fn.get('_q'))
        text += 'def %s%s : %s %s «rho» :=\n%s\n' % (base, sig, OUT, paren(st), self.render(val, 2, ctx))
        text += '/-- no undefined behaviour from here to the end of the function -/\n'
        text += 'def %s_defined%s : Bool :=\n%s' % (base, sig, self.render(dfd, 2, ctx))
        area = self.area_of(fn)
        it = Item(area, base, text, 'kont', first, '')
        it.params = [(nm, ty) for rid, nm, ty in params]
        it.cparams, it.effectful, it.fuel, it.state_ty = it.params, True, fuel, None
        it.ret, it.defd_trivial, it.uses_self, it.buf = None, False, False, True
        it.rho_of = fn.get('id')
        self.add(('kont', area, base), it)
        env.fx.flow = True
        if fuel:
            env.fx.fuel = True
        args = (' fuel' if fuel else '') + ' buf' + ''.join(' ' + env.vars[rid][0] for rid, nm, ty in params)
        return ('ret', it.full + args), ('ret', '%s_defined%s' % (it.full, args))

    def jswitch(self, s, rest, env, fn, mode, tail):
        """`switch` in join style: an `if` chain on `CxxSem.eq sw k`; every arm runs from its label (fall-through included)
        to its `break` and then through the statements after the switch (these are translated once per arm)"""
        cond, flat, labels = self.switch_parts(s)
        c = self.ex(cond, env)
        if c.ty.kind != 'int':
            self.bad(s, 'switch over %r' % c.ty)
        sw = env.fresh('sw')
        groups, default = [], None
        for v, p_ in labels:
            if v == 'default':
                default = p_
            elif groups and groups[-1][0] == p_:
                groups[-1][1].append(v)
            else:
                groups.append((p_, [v]))
        if default is not None:
            groups = [g for g in groups if g[0] != default]
        after = [END_SWITCH] + rest
        if default is not None:
            val, dfd = self.jblock(flat[default:] + after, env.copy(), fn, mode, tail)
        else:
            val, dfd = self.jblock(list(rest), env.copy(), fn, mode, tail)
        alltrue = is_true_blk(dfd)
        arms = []
        for p_, vs in reversed(groups):
            test = ' || '.join('%seq %s %s' % (SEM, sw, ('(%d)' % x) if x < 0 else str(x)) for x in vs)
            tv, td = self.jblock(flat[p_:] + after, env.copy(), fn, mode, tail)
            alltrue = alltrue and is_true_blk(td)
            arms.append((test, tv, td))
        for test, tv, td in arms:
            val = ('if', test, tv, val)
            dfd = ('if', test, td, dfd)
        lt = self.lean_ty(c.ty, s)
        val = ('lett', sw, lt, c.term, val)
        dfd = ('ret', 'true') if alltrue else ('lett', sw, lt, c.term, dfd)
        if c.defd:
            dfd = ('and', c.defd, dfd)
        return val, dfd

    def tree_pure(self, t):
        if t[0] == 'jnext':
            return True
        if t[0] == 'let':
            return self.tree_pure(t[3])
        if t[0] == 'lett':
            return self.tree_pure(t[4])
        if t[0] == 'letp':
            return self.tree_pure(t[3])
        if t[0] == 'if':
            return self.tree_pure(t[2]) and self.tree_pure(t[3])
        return False

    def jloop_stmt(self, s, rest, env, fn, mode, tail):
        k = s.get('kind')
        inn = s.get('inner', [])
        if k == 'WhileStmt':
            if s.get('hasVar') or len(inn) != 2:
                self.bad(s, 'while with a condition variable')
            cond, body, node = inn[0], [inn[1]], s
        elif k == 'DoStmt':
            if len(inn) != 2:
                self.bad(s, 'do statement of unexpected shape')
            for x in walk(inn[0]):
                if x.get('kind') in ('BreakStmt', 'ContinueStmt'):
                    self.bad(x, '%s inside a do body' % x['kind'])
            # `do B while (c);` = `B; while (c) B`
            return self.jblock([inn[0], {'kind': '_For', 'cond': inn[1], 'body': [inn[0]], 'node': s}] + rest, env, fn, mode, tail)
        elif k == 'ForStmt':
            if len(inn) != 5 or not isnull(inn[1]):
                self.bad(s, 'for statement with a condition variable')
            if isnull(inn[2]):
                self.bad(s, 'for statement without a condition')
            loop = {'kind': '_For', 'cond': inn[2], 'body': [inn[4]] + ([] if isnull(inn[3]) else [inn[3]]), 'node': s}
            return self.jblock(([] if isnull(inn[0]) else [inn[0]]) + [loop] + rest, env, fn, mode, tail)
        else:
            cond, body, node = s['cond'], s['body'], s['node']
        self._loop_n = getattr(self, '_loop_n', {})
        self._loop_names = getattr(self, '_loop_names', {})
        key = fn.get('id')
        if (key, node['id']) not in self._loop_names:
            self._loop_n[key] = self._loop_n.get(key, 0) + 1
            self._loop_names[(key, node['id'])] = '%s.loop_%d' % (self.local_name(fn), self._loop_n[key])
        base = self._loop_names[(key, node['id'])]
        it, params, modified = self.jloop_def(cond, body, env, fn, base, node)
        args = ' fuel buf' + ''.join(' ' + self.root_term(rid, env) for rid, nm, ty in params)
        call = it.full + args
        names = self.jrebind([m[0] for m in modified], env)
        rv, rd = self.jrest(rest, env, fn, mode, tail)
        val = ('jbind', 'seq' if mode == 'out' else 'bind', ('ret', call), names, rv)
        dfd = ('conj', [('ret', '%s_defined%s' % (it.full, args)), ('ret', 'true') if is_true_blk(rd) else ('jand', ('ret', call), names, rd)])
        return val, dfd

    def jloop_def(self, cond, body, env, fn, base, doc_node, extra_doc=''):
        """emit `base fuel buf vars : Flow σ (modified vars) ρ` + `base_defined`; -> (item, params, modified)"""
        nodes = [cond] + body
        declared = set(x['id'] for n in nodes for x in walk(n) if x.get('kind') == 'VarDecl')
        ids, exits = [], False
        for n in nodes:
            for x in walk(n):
                k = x.get('kind')
                if k in ('ContinueStmt', 'GotoStmt', 'CXXTryStmt', 'LambdaExpr', 'CXXThisExpr'):
                    self.bad(x, '%s inside a loop body (join style)' % k)
                exits = exits or k in self.EXIT_KINDS or (k == 'CallExpr' and self.calls_via(x, env))
                if k == 'DeclRefExpr' and x['referencedDecl']['kind'] in ('VarDecl', 'ParmVarDecl'):
                    rid = x['referencedDecl']['id']
                    if rid in declared or rid in ids:
                        continue
                    if rid in env.vars or rid in env.free or (env.extract and self.is_local_decl(self.ix.by_id.get(rid))):
                        ids.append(rid)
        for sk in (env.fx.cell, env.fx.ostr):          # the state where the loop returns / throws / a callee throws
            if exits and sk is not None and sk not in ids and sk in env.vars:
                ids.append(sk)
        ids.sort(key=self.decl_offset)
        lenv = Env(None, extract=False)
        lenv.used = set(['self', 'fuel', 'buf'])
        lenv.fx = env.fx
        lenv.join = True
        lenv.hoisted = env.hoisted
        params = []
        for rid in ids:
            if rid in env.vars:
                ty = env.vars[rid][1]
            elif rid in env.free:
                ty = env.free[rid][1]
            else:
                d = self.ix.by_id[rid]
                ty = self.ex({'kind': 'DeclRefExpr', 'referencedDecl': {'id': rid, 'kind': d['kind'], 'name': d.get('name')},
                              'type': d['type'], '_file': doc_node.get('_file'), '_line': doc_node.get('_line')}, env).ty
            if ty.kind not in ('int', 'bool', 'ptr', 'pptr', 'ostr'):
                self.bad(doc_node, 'loop variable of type %r (join style)' % ty)
            nm = lenv.fresh(self.ix.by_id[rid].get('name') or 'v')
            lenv.vars[rid] = (nm, ty)
            params.append((rid, nm, ty))
        mkeys = self.assigned_keys(nodes, lenv)
        modified = [p_ for p_ in params if p_[0] in mkeys]
        if not modified:
            self.bad(doc_node, 'loop that modifies none of its variables')
        # prefix `++x` / `--x` inside the condition (`while (++length <= max_length)`): carried out at the top of every
        # evaluation of the condition, which then reads the new value; the loop delivers the incremented variable
        pre = self.find_cond_pre(cond, lenv)
        prelets, predefd = [], []
        for pn in pre:
            a = self.assignment(pn, lenv)
            if a is None or a[0] != 'set' or len(a[1]) != 1:
                self.bad(pn, 'increment inside a loop condition')
            r_, p_, v_ = a[1][0]
            nm_, term_ = self.store(r_, p_, v_, lenv, pn)
            prelets.append((nm_, self.lean_ty(lenv.vars[r_][1], pn), term_, a[2]))
            lenv.hoisted[pn['id']] = True
        try:
            c = self.ex(cond, lenv)
        finally:
            for pn in pre:
                lenv.hoisted.pop(pn['id'], None)
        if c.ty.kind != 'bool':
            self.bad(doc_node, 'loop condition is not of type bool')
        env.fx.fuel = True
        env.buf = True

        def t_back(e2):
            a = ' fuel buf' + ''.join(' ' + e2.vars[rid][0] for rid, nm, ty in params)
            return ('ret', base + a), ('ret', base + '_defined' + a)

        def t_break(e2):
            return ('jnext', [e2.vars[m[0]][0] for m in modified]), ('ret', 'true')
        benv = lenv.copy()
        benv.brk = t_break
        bval, bdfd = self.jblock(list(body), benv, fn, 'flow', t_back)
        ret = self.jtuple([lenv.vars[m[0]][0] for m in modified])
        rty = ' × '.join(self.lean_ty(m[2], doc_node) for m in modified)
        sig = ' (fuel : Nat) (buf : %sBuf)' % SEM + ''.join(' (%s : %s)' % (nm, self.lean_ty(ty, doc_node)) for rid, nm, ty in params)
        area = self.area_of(fn)
        ctx = {'eff': True}
        st = paren(self.state_ty_str(env.fx))
        pl = ''.join('    let %s : %s := %s\n' % (nm_, lt_, term_) for nm_, lt_, term_, d_ in prelets)
        text = '%s\ndef %s%s : %sFlow %s (%s) «rho» :=\n  match fuel with\n  | 0 => .exit .nofuel\n  | fuel + 1 =>\n%s    if %s then\n%s\n    else\n      .next %s\n' % (
            self.doc(doc_node, extra_doc), base, sig, SEM, st, rty, pl, c.term, self.render(bval, 6, ctx), ret)
        dcond = (paren(c.defd) + ' && ') if c.defd else ''
        text += '/-- no undefined behaviour in the iterations that run within the fuel -/\n'
        pd = ''
        for nm_, lt_, term_, d_ in prelets:
            pd += ('    %s && (\n' % paren(d_) if d_ else '    (\n') + '    let %s : %s := %s\n' % (nm_, lt_, term_)
        text += 'def %s_defined%s : Bool :=\n  match fuel with\n  | 0 => true\n  | fuel + 1 =>\n%s    %s(if %s then\n%s\n    else\n      true)%s\n' % (
            base, sig, pd, dcond, c.term, self.render(bdfd, 6, ctx), ')' * len(prelets))
        text += '/-- every argument holds a value of its C++ type -/\n'
        typed = conj(*[self.typed_term(ty, nm) for rid, nm, ty in params]) or 'true'
        text += 'def %s_typed%s : Bool := %s' % (base, sig.replace(' (fuel : Nat)', '', 1), typed)
        old = self.items.get(('loop', area, base))
        if old is not None:
            if old.text != text:
                self.bad(doc_node, 'the loop translates differently on two paths that reach it')
            return old, params, modified
        it = Item(area, base, text, 'loop', doc_node, self.src.text(doc_node))
        it.params = [(nm, ty) for rid, nm, ty in params]
        it.cparams, it.effectful, it.fuel, it.state_ty = it.params, False, True, None
        it.ret, it.defd_trivial, it.uses_self, it.buf = None, False, False, True
        it.rho_of = fn.get('id')
        self.add(('loop', area, base), it)
        return it, params, modified

    def calls_via(self, x, env):
        """x is a call that hands over `&local` or an output string (its callee's exception carries the caller's state)"""
        return any(a and (self.addr_of_local(a, env) is not None or self.ostr_var(a, env) is not None) for a in x.get('inner', [])[1:])

    def find_cond_pre(self, cond, env):
        """prefix ++/-- nodes inside a loop condition that are evaluated unconditionally and whose variable (a local integer)
        occurs nowhere else in the condition"""
        found = []

        def go(n, cnd):
            k = n.get('kind')
            if k == 'UnaryOperator' and n.get('opcode') in ('++', '--'):
                t = strip(n['inner'][0])
                if n.get('isPostfix') or cnd or t.get('kind') != 'DeclRefExpr' or t['referencedDecl']['id'] not in env.vars or \
                        env.vars[t['referencedDecl']['id']][1].kind != 'int' or 'id' not in n:
                    self.bad(n, 'operator `%s` inside a loop condition (only an unconditionally evaluated prefix increment of a local integer)' % n['opcode'])
                found.append((n, t['referencedDecl']['id']))
                return
            c2 = cnd or k in ('ConditionalOperator', 'BinaryConditionalOperator', 'LambdaExpr', 'StmtExpr')
            for i_, c in enumerate(n.get('inner', []) or []):
                if c:
                    go(c, c2 or (k == 'BinaryOperator' and n.get('opcode') in ('&&', '||', ',') and i_ > 0))
        go(cond, False)
        out = []
        for n, rid in found:
            refs = [x for x in walk(cond) if x.get('kind') == 'DeclRefExpr' and x['referencedDecl']['id'] == rid]
            q = (self.ix.by_id.get(rid) or {}).get('type', {}).get('qualType', '')
            if len(refs) != 1 or '&' in q:
                self.bad(n, 'the variable incremented inside the loop condition occurs elsewhere in it')
            out.append(n)
        return out

    @staticmethod
    def jtuple(names):
        return '()' if not names else (names[0] if len(names) == 1 else '(' + ', '.join(names) + ')')

    # ---- function emission -----------------------------------------------------------------------
    def _fn(self, d):
        area, local = self.area_of(d), self.local_name(d)
        parent = d.get('_parent')
        is_method = d['kind'] in ('CXXMethodDecl', 'CXXConversionDecl') and d.get('storageClass') != 'static'
        self_ty = Ty('rec', rec=parent) if (is_method or d['kind'] == 'CXXConstructorDecl') and parent is not None and parent.get('kind') in RECORD_KINDS else None
        env = Env(self_ty if is_method else None)
        env.used.update(['self', 'fuel', 'buf'])
        env.opaque = getattr(self, 'opaque_for', {}).get(d.get('_q'), ())
        env.join = d['kind'] != 'CXXConstructorDecl' and self.has_ptr(d)
        if env.join and (is_method or d['kind'] != 'FunctionDecl'):
            self.bad(d, 'character cursors in a non-static member function')
        params = []
        for p in d.get('inner', []):
            if p.get('kind') == 'ParmVarDecl':
                ty = self.check_param(p)
                nm = env.fresh(p.get('name') or 'arg')
                env.vars[p['id']] = (nm, ty)
                params.append((nm, ty))
                if ty.kind in ('ptr', 'pptr'):
                    env.buf = True
                if ty.kind == 'pptr':
                    if env.fx.cell is not None:
                        self.bad(p, 'two `const char**` parameters (they may alias)')
                    env.fx.cell = p['id']
                if ty.kind == 'ostr':
                    if env.fx.ostr is not None:
                        self.bad(p, 'two output-string parameters (they may alias)')
                    if not env.join:
                        self.bad(p, 'output-string parameter in a function that is not translated in join style')
                    env.fx.ostr = p['id']
        cparams = list(params)
        if d['kind'] == 'CXXConstructorDecl':
            val, dfd, ret = self.ctor_body(d, env, self_ty)
        else:
            body = [c for c in d.get('inner', []) if c.get('kind') == 'CompoundStmt']
            if env.join:
                def t_end(e2):
                    if not self.is_void(d):
                        self.bad(d, 'control reaches the end of the function without a return')
                    e2.ret_ty = T_VOID
                    return self.jleaf('out', 'normal', e2, '()'), ('ret', 'true')
                val, dfd = self.jblock(list(body[0].get('inner', [])), env, d, 'out', t_end)
            else:
                val, dfd = self.block(list(body[0].get('inner', [])), env, d)
            ret = env.ret_ty or T_VOID
            if ret.kind != 'void' and self.is_void(d):
                self.bad(d, 'void function returning a value')
        fx = env.fx
        if fx.writes:
            self.check_aliasing(d, env, self_ty if is_method else None)
        extra = ''
        if env.opaque_vals:
            if fx.writes or fx.effectful:
                self.bad(d, 'opaque calls in a function with effects')
            ops = list(env.opaque_vals.values())
            params = params + [(nm, ty) for nm, ty, q in ops]
            extra = ' (' + '; '.join('parameter `%s` = the value of the call `%s()`, left opaque' % (nm, q) for nm, ty, q in ops) + ')'
        if fx.lits:
            params = params + [(nm, ty) for nm, ty, bs in fx.lits]
            extra += ' (' + '; '.join('parameter `%s` = where the string literal that initialises the static local of that name lies in the '
                                      'array: `%s_lits`' % (nm, local) for nm, ty, bs in fx.lits) + ')'
        if is_method and (env.uses_self or fx.effectful):
            self.record_item(parent)
            params = [('self', self_ty)] + params
        it = self.emit_fn(area, local, d, params, ret, val, dfd, is_method and (env.uses_self or fx.effectful),
                          fx=fx, state_ty=self_ty if is_method else None, extra_doc=extra, key=d['id'])
        it.cparams = cparams
        return it

    def check_aliasing(self, d, env, self_ty):
        """a function that writes: no reference may alias what is written (checked conservatively)"""
        if env.fx.ref_locals:
            self.bad(env.fx.ref_locals[0], 'reference-typed local %s in a function with assignments (aliasing)' % env.fx.ref_locals[0].get('name'))
        reach = set()

        def add(rec):
            if rec['id'] in reach:
                return
            reach.add(rec['id'])
            for b in rec.get('bases', []):
                try:
                    bt = self.resolve(b['type'], rec)
                except Unsupported:
                    continue
                if bt.kind == 'rec':
                    add(bt.rec)
            for c in rec.get('inner', []):
                if c.get('kind') == 'FieldDecl':
                    try:
                        ft = self.resolve(c['type'], c)
                    except Unsupported:
                        continue
                    if ft.kind == 'rec':
                        add(ft.rec)
        if self_ty is not None:
            add(self_ty.rec)
        for p in d.get('inner', []):
            if p.get('kind') != 'ParmVarDecl':
                continue
            dq = p['type'].get('desugaredQualType') or p['type'].get('qualType', '')
            if '&' not in dq or is_ostr_type(dq):
                continue
            ty = self.resolve(p['type'], p)
            if ty.kind != 'rec':
                self.bad(p, 'scalar parameter %s passed by reference to a function with assignments (aliasing)' % p.get('name'))
            sub = set()
            saved, reach2 = reach, sub

            def addp(rec, acc=sub):
                if rec['id'] in acc:
                    return
                acc.add(rec['id'])
                for b in rec.get('bases', []):
                    try:
                        bt = self.resolve(b['type'], rec)
                    except Unsupported:
                        continue
                    if bt.kind == 'rec':
                        addp(bt.rec)
            addp(ty.rec)
            if env.fx.writes_self and (sub & reach):
                self.bad(p, 'parameter %s (a reference to %s) may alias a part of *this, which the function writes' % (p.get('name'), ty.rec['_q']))

    def emit_fn(self, area, local, d, params, ret, val, dfd, uses_self, extra_doc='', fx=None, state_ty=None, key=None):
        eff = fx is not None and fx.effectful
        fuel = fx is not None and fx.fuel
        buf = fx is not None and fx.buf
        cell = fx is not None and fx.cell is not None
        ostr = fx is not None and fx.ostr is not None
        ctx = {'eff': eff}
        psig = (' (buf : %sBuf)' % SEM if buf else '') + ''.join(' (%s : %s)' % (nm, self.lean_ty(ty, d)) for nm, ty in params)
        sig = (' (fuel : Nat)' if fuel else '') + psig
        typed = conj(*[self.typed_term(ty, nm) for nm, ty in params]) or 'true'
        trivial = is_true_blk(dfd)
        rt = 'Unit' if ret is None or ret.kind == 'void' else self.lean_ty(ret, d)
        rho = paren(rt)
        for it0 in self.order:                       # the loops of this function deliver into its return type
            if getattr(it0, 'rho_of', None) == d.get('id') and '«rho»' in it0.text:
                it0.text = it0.text.replace('«rho»', rho)
        if eff:
            st = self.state_ty_str(fx) if (cell or ostr) else (self.lean_ty(state_ty, d) if state_ty is not None else 'Unit')
            rt = '%s %s %s' % (OUT, paren(st), paren(rt))
        if cell:
            extra_doc += (' (state σ = the cursor cell `*%s`: the parameter is its value at the call, `.normal i r` / `.thrown e i` carry its '
                          'value when the call ends)' % [nm for nm, ty in params if ty.kind == 'pptr'][0])
        if ostr:
            extra_doc += (' (%sthe output string `%s` is part of the state σ: the parameter is its contents at the call, the outcome carries its '
                          'contents when the call ends)' % ('' if cell else 'state σ: ', [nm for nm, ty in params if ty.kind == 'ostr'][0]))
        text = '%s\ndef %s%s : %s :=\n%s\n' % (self.doc(d, extra_doc), local, sig, rt, self.render(val, 2, ctx))
        text += '/-- no undefined behaviour (and exactness of integer-valued `double` arithmetic) on this input -/\n'
        text += 'def %s_defined%s : Bool :=\n%s\n' % (local, sig, self.render(dfd, 2, ctx).replace('«rho»', rho))
        text += '/-- every argument holds a value of its C++ type -/\n'
        text += 'def %s_typed%s : Bool := %s' % (local, psig, typed)
        it = Item(area, local, text, 'fn', d, self.src.text(d))
        it.params, it.ret, it.defd_trivial, it.uses_self = params, ret, trivial, uses_self
        it.effectful, it.fuel, it.state_ty = eff, fuel, (state_ty if eff else None)
        it.buf, it.cell, it.ostr = buf, cell, ostr
        it.lits = list(fx.lits) if fx is not None else []
        if it.lits:
            text += '\n/-- the string literals behind the static local pointers lie in the array where the extra parameters say (bytes and NUL) -/\n'
            text += 'def %s_lits%s : Bool := %s' % (local, psig, conj(*['%slitAt buf %s %s' % (SEM, nm, bs[:-1] + (', 0]' if bs != '[]' else '0]'))
                                                                        for nm, ty, bs in it.lits]))
            it.text = text
        it.cparams = [p for p in params if p[0] != 'self']
        return self.add(key if key is not None else (d['id'] if not extra_doc else ('x', local)), it)

    # ---- rendering -------------------------------------------------------------------------------
    def render(self, b, ind, ctx):
        p = ' ' * ind
        t = b[0]
        if t == 'ret':
            return p + (b[1] or 'true')
        if t == 'leaf':
            if ctx.get('loop'):
                raise Unsupported('return / throw inside a loop body')
            if not ctx.get('eff'):
                return p + b[3]
            if b[1] == 'normal':
                return '%s%s.normal %s %s' % (p, OUT, b[2], paren(b[3]))
            return '%s%s.thrown %s %s' % (p, OUT, b[3], b[2])
        if t == 'let':
            return '%slet %s := %s\n%s' % (p, b[1], b[2], self.render(b[3], ind, ctx))
        if t == 'if':
            return '%sif %s then\n%s\n%selse\n%s' % (p, b[1], self.render(b[2], ind + 2, ctx), p, self.render(b[3], ind + 2, ctx))
        if t == 'and':
            if is_true_blk(b[2]):
                return p + b[1]
            return '%s%s && (\n%s)' % (p, b[1], self.render(b[2], ind + 2, ctx))
        if t == 'jexit':
            lf = b[1]
            if lf[1] == 'normal':
                return '%s.exit (%s.normal %s %s)' % (p, OUT, lf[2], paren(lf[3]))
            return '%s.exit (%s.thrown %s %s)' % (p, OUT, lf[3], lf[2])
        if t == 'lett':
            return '%slet %s : %s := %s\n%s' % (p, b[1], b[2], b[3], self.render(b[4], ind, ctx))
        if t == 'jnext':
            return '%s%s%s' % (p, '' if ctx.get('pure') else '.next ', self.jtuple(b[1]))
        if t == 'letp':
            return '%slet %s := (\n%s)\n%s' % (p, self.jtuple(b[1]) if b[1] else '_', self.render(b[2], ind + 2, dict(ctx, pure=True)), self.render(b[3], ind, ctx))
        if t == 'jbind':
            return '%s%sFlow.%s (\n%s) (fun %s =>\n%s)' % (p, SEM, b[1], self.render(b[2], ind + 2, ctx), self.jtuple(b[3]) if b[3] else '_',
                                                         self.render(b[4], ind, ctx))
        if t == 'bindvia':
            return '%s%s.bindVia (%s) (%s) (fun %s %s =>\n%s)' % (p, OUT, b[1], b[2], b[3], b[4], self.render(b[5], ind + 2, ctx))
        if t == 'jcallvia':
            return '%s%sFlow.callVia (%s) (%s) (fun %s %s =>\n%s)' % (p, SEM, b[1], b[2], b[3], b[4], self.render(b[5], ind + 2, ctx))
        if t == 'jcallf':
            return '%s%sFlow.call (%s) (fun %s %s =>\n%s)' % (p, SEM, b[1], b[2], b[3], self.render(b[4], ind + 2, ctx))
        if t == 'jand':
            asc = (' : %s' % b[4]) if len(b) > 4 else ''
            return '%s%sFlow.andThen (\n%s%s) (fun %s =>\n%s)' % (p, SEM, self.render(b[1], ind + 2, ctx), asc, self.jtuple(b[2]) if b[2] else '_',
                                                                self.render(b[3], ind, ctx))
        if t == 'conj':
            parts = [x for x in b[1] if not is_true_blk(x)]
            if not parts:
                return p + 'true'
            if len(parts) == 1:
                return self.render(parts[0], ind, ctx)
            return p + '(\n' + ') && (\n'.join(self.render(x, ind + 2, ctx) for x in parts) + ')'
        if t == 'bind':
            return '%s%s.bindLift (%s) (%s) (fun %s %s =>\n%s)' % (p, OUT, b[1], b[2], b[3], b[4], self.render(b[5], ind + 2, ctx))
        if t == 'bindB':
            if is_true_blk(b[5]):
                return p + 'true'
            return '%s%s.okAnd (%s) (%s) (fun %s %s =>\n%s)' % (p, OUT, b[1], b[2], b[3], b[4], self.render(b[5], ind + 2, ctx))
        if t == 'optbind':
            f = 'Option.bind' if ctx.get('loop') else OUT + '.ofOpt'
            return '%s%s (%s) (fun %s =>\n%s)' % (p, f, b[1], b[2], self.render(b[3], ind + 2, ctx))
        if t == 'optbindB':
            if is_true_blk(b[3]):
                return p + 'true'
            return '%s%soptAnd (%s) (fun %s =>\n%s)' % (p, SEM, b[1], b[2], self.render(b[3], ind + 2, ctx))
        raise AssertionError(b)
