#!/bin/bash
# run the quick (or $1) tier of every enabled check, one after the other; summary lines to stdout
cd "$(dirname "$0")/.."
tier=${1:-quick}
for p in $(python3 -c "import json;print(' '.join(json.load(open('tools/manifest.d/_enabled.json'))))"); do
  out=$(python3 tools/check.py $p --tier $tier 2>&1); rc=$?
  echo "$p rc=$rc :: $(echo "$out" | tail -1)"
  [ $rc -ne 0 ] && echo "$out" | grep -E "VIOLATION|what:" | head -6 | cut -c1-300
done
