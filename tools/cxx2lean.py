"""C++ -> Lean 4 translator for small pure functions of libosmium (second kind of tie, DESIGN.md §0):
lean/Osmium/Generated/Src.lean is REGENERATED from /repo's current source on every run (called from
Ctx.proof_stage right after consts.regen) and the `src_tie_*` theorems in Osmium/Props/*.lean state that
the regenerated definition equals the hand-written model function the property theorems are about.
A semantic edit of a translated function changes the generated text and breaks its tie theorem.

How: ONE clang run over a generated translation unit (`#include` of the headers below + explicit
template instantiations) with `-Xclang -ast-dump=json -Xclang -ast-dump-filter=osmium`; the typed AST
gives the integer width / signedness of every sub-expression and every implicit conversion.  Callees,
constructors, enumerators and constexpr variables are found through their declaration ids and translated
recursively (x2l_tr.py, x2l_ex.py, x2l_st.py); anything outside the subset raises `Unsupported` naming file:line —
nothing is approximated silently.

Subset (expressions, x2l_ex.py): integer / bool / char literals, integer-valued floating literals, ParenExpr,
ConditionalOperator, BinaryOperator (+ - * / % < <= > >= == != && || & | ^ << >>), UnaryOperator (! - ~ +),
DeclRefExpr to parameters / locals / enumerators / constexpr variables, member reads (`this->m`, `obj.m`, std::pair
first/second), implicit + explicit casts (LValueToRValue, NoOp, IntegralCast — also enum <-> underlying type —,
IntegralToBoolean, IntegralToFloating, FloatingToIntegral, derived-to-base), calls of other translatable osmium
functions / methods / overloaded operators / constructors (copy + move = identity), `T{..}` aggregates, std::abs / min /
max / minmax on integers, `std::numeric_limits<T>::max/min/lowest()`, `sizeof(scalar type)`, `size()` of a
std::vector / std::string member (an opaque value), `osmium::const_tie(..)` / `std::tie(..)` compared with `<` / `==`.
Statements (x2l_st.py — the IMPERATIVE subset, see its docstring): compound, initialised locals, if, return, throw,
switch with fall-through and break, assignment statements to locals and to members of `*this` (=, op=, ++, --,
std::swap), calls of functions with effects in statement positions, while / for loops over integers.  A function
that writes members, throws, loops or calls such a function is emitted as a state transformer
`f [fuel] [self] args : CxxSem.Outcome σ ρ`; every other function as `f [self] args : ρ`.
Record types become Lean structures with the members that are in the subset.  Besides whole functions a target
can be the initialiser of a named local (`local=`), the condition of the k-th `if` (`cond=`) or the k-th loop
(`loop=`) of a function that is otherwise outside the subset: it becomes a function of its free variables (ordered
by declaration position); `opaque=[callee]` turns the value of `this->callee()` (const noexcept, no arguments)
into an extra parameter.

Character cursors (`const char*` / `const char**`: ONE byte array `buf`, pointers are indices) and output strings (`std::string&` /
back_insert_iterator parameters and local `std::string`s that are only appended to: byte lists, part of the state σ) are translated
in JOIN style by x2l_st.py `jblock`; see tools/GUIDE.md "Source ties".

Semantics: lean/Osmium/Model/CxxSem.lean.  Each definition `f` comes with `f_defined` (no undefined
behaviour: signed overflow, shift amount, division by zero, abs(MIN), double -> int out of range; plus
exactness of integer-valued double arithmetic) and `f_typed` (arguments are values of their C++ types).
"""
import hashlib
import json
import os
import sys
import time

sys.path.insert(0, os.path.dirname(os.path.abspath(__file__)))
import vlib  # noqa: E402
from x2l_ast import Index, Sources, Unsupported, is_expr, load_objects  # noqa: E402
from x2l_tr import Env, Ty  # noqa: E402
from x2l_st import ImpTranslator  # noqa: E402

GEN = os.path.join(vlib.LEAN, 'Osmium', 'Generated', 'Src.lean')
WORK = os.path.join(vlib.BUILD, 'x2l')

HEADERS = [
    'osmium/memory/item.hpp', 'osmium/memory/buffer.hpp', 'osmium/osm/object_comparisons.hpp',
    'osmium/osm/location.hpp', 'osmium/index/id_set.hpp', 'osmium/index/map/flex_mem.hpp',
    'osmium/storage/item_stash.hpp', 'osmium/osm/timestamp.hpp', 'osmium/area/detail/node_ref_segment.hpp',
    'osmium/geom/tile.hpp', 'osmium/handler/check_order.hpp', 'osmium/util/delta.hpp', 'osmium/osm/item_type.hpp',
    'osmium/osm/object.hpp', 'osmium/index/relations_map.hpp', 'osmium/relations/members_database.hpp',
    'osmium/io/detail/pbf_output_format.hpp', 'osmium/io/detail/opl_parser_functions.hpp', 'osmium/io/detail/string_util.hpp',
    'osmium/handler/node_locations_for_ways.hpp',
]
INSTANTIATE = [
    'template class osmium::index::IdSetDense<unsigned long>;',
    'template class osmium::index::IdSetDense<unsigned int>;',
    'template class osmium::index::map::FlexMem<unsigned long, osmium::Location>;',
    'template class osmium::util::DeltaEncode<long, long>;',
    'template class osmium::util::DeltaEncode<unsigned int, long>;',
    'template class osmium::util::DeltaEncode<unsigned int, int>;',
    'template class osmium::util::DeltaEncode<int, int>;',
    'template class osmium::util::DeltaDecode<long, long>;',
    # the handler of C12 over the abstract Map interface (what harness/c12.cpp instantiates)
    'template class osmium::handler::NodeLocationsForWays<osmium::index::map::Map<unsigned long, osmium::Location>, osmium::index::map::Map<unsigned long, osmium::Location> >;',
    # RelationsMapIndex::for_each is a member template: one instantiation to look at
    'namespace x2l_inst { inline void f(const osmium::index::RelationsMapIndex& ix) { ix.for_each(0, [](osmium::unsigned_object_id_type) {}); } }',
]
FLEX = 'osmium::index::map::FlexMem<unsigned long, osmium::Location>'
DENSE64 = 'osmium::index::IdSetDense<unsigned long, 22>'
DENSE32 = 'osmium::index::IdSetDense<unsigned int, 22>'
SEGNS = 'osmium::area::detail::'
DELTA = 'osmium::util::'
KV32 = 'osmium::index::detail::flat_map<unsigned long, unsigned int, unsigned long, unsigned int>::kv_pair'
KV64 = 'osmium::index::detail::flat_map<unsigned long, unsigned long, unsigned long, unsigned long>::kv_pair'
MDB = 'osmium::relations::MembersDatabaseCommon::'
NLFW = ('osmium::handler::NodeLocationsForWays<osmium::index::map::Map<unsigned long, osmium::Location>, '
        'osmium::index::map::Map<unsigned long, osmium::Location>>')

# fn = qualified name; sig = substring of the function type (overloads); local / cond = extraction;
# name = Lean name of an extracted expression
TARGETS = [
    dict(fn='osmium::memory::padded_length'),
    dict(fn='osmium::memory::Buffer::calculate_capacity'),
    dict(fn='osmium::id_order::operator()'),
    dict(fn='osmium::object_equal_type_id::operator()', sig='(const osmium::OSMObject &, const osmium::OSMObject &)'),
    dict(fn='osmium::operator==', sig='(const osmium::OSMObject &, const osmium::OSMObject &)'),
    dict(fn='osmium::operator<', sig='(const osmium::OSMObject &, const osmium::OSMObject &)'),
    dict(fn='osmium::operator>', sig='(const osmium::OSMObject &, const osmium::OSMObject &)'),
    dict(fn='osmium::operator<=', sig='(const osmium::OSMObject &, const osmium::OSMObject &)'),
    dict(fn='osmium::operator>=', sig='(const osmium::OSMObject &, const osmium::OSMObject &)'),
    dict(fn='osmium::operator!=', sig='(const osmium::OSMObject &, const osmium::OSMObject &)'),
    dict(fn='osmium::object_order_type_id_version_without_timestamp::operator()', sig='(const osmium::OSMObject &, const osmium::OSMObject &)'),
    dict(fn='osmium::object_order_type_id_reverse_version::operator()', sig='(const osmium::OSMObject &, const osmium::OSMObject &)'),
    dict(fn='osmium::Location::valid'),
    dict(fn='osmium::Location::is_defined'),
    dict(fn='osmium::Location::is_undefined'),
    dict(fn='osmium::Location::operator bool'),
    dict(fn='osmium::operator==', sig='(const osmium::Location &, const osmium::Location &)'),
    dict(fn='osmium::operator<', sig='(const osmium::Location &, const osmium::Location &)'),
    dict(fn=DENSE64 + '::chunk_id'), dict(fn=DENSE64 + '::offset'), dict(fn=DENSE64 + '::bitmask'),
    dict(fn=DENSE32 + '::chunk_id'), dict(fn=DENSE32 + '::offset'), dict(fn=DENSE32 + '::bitmask'),
    dict(fn=FLEX + '::block'), dict(fn=FLEX + '::offset'),
    dict(fn=FLEX + '::set_sparse', cond=1, name='set_sparse_cond_min_entries'),
    dict(fn=FLEX + '::set_sparse', cond=2, name='set_sparse_cond_density'),
    # C12: NodeLocationsForWays — node()/way()/get_node_location() call virtual index methods and range over the
    # way's node refs (outside the subset); every condition that steers them is translated
    dict(fn=NLFW + '::node', cond=0, name='nlfw_node_cond_out_of_order'),
    dict(fn=NLFW + '::node', local='id', name='nlfw_node_id'),
    dict(fn=NLFW + '::node', cond=1, name='nlfw_node_cond_positive'),
    dict(fn=NLFW + '::get_node_location', cond=0, name='nlfw_get_cond_positive'),
    dict(fn=NLFW + '::way', cond=0, name='nlfw_way_cond_must_sort'),
    # cond=-1 = the LAST `if` of way() (the throw); the `if (!node_ref.location())` inside the range-for goes through the
    # non-const NodeRef::location(), whose generated name would clash with the const overload: not extracted
    dict(fn=NLFW + '::way', cond=-1, name='nlfw_way_cond_throw'),
    # what way() stores into m_last_id after sorting (seed C12-7) and what node() stores into it
    dict(fn=NLFW + '::way', rhs='m_last_id', name='nlfw_way_last_id_after_sort'),
    dict(fn=NLFW + '::node', rhs='m_last_id', name='nlfw_node_last_id'),
    dict(fn=NLFW + '::ignore_errors'),
    dict(fn='osmium::ItemStash::should_gc'),
    dict(fn='osmium::detail::parse_timestamp', sig='(const char **)', local='leap_year', name='parse_timestamp_leap_year'),
    dict(fn=SEGNS + 'outside_x_range'),
    dict(fn=SEGNS + 'y_range_overlap'),
    dict(fn=SEGNS + 'operator<', sig='NodeRefSegment'),
    dict(fn=SEGNS + 'calculate_intersection', cond=0, name='calculate_intersection_cond_same'),
    dict(fn=SEGNS + 'calculate_intersection', local='pd', name='calculate_intersection_pd'),
    dict(fn=SEGNS + 'calculate_intersection', local='d', name='calculate_intersection_d'),
    dict(fn=SEGNS + 'calculate_intersection', cond=1, name='calculate_intersection_cond_not_collinear'),
    dict(fn=SEGNS + 'calculate_intersection', cond=2, name='calculate_intersection_cond_touch'),
    dict(fn=SEGNS + 'calculate_intersection', local='na', name='calculate_intersection_na'),
    dict(fn=SEGNS + 'calculate_intersection', local='nb', name='calculate_intersection_nb'),
    dict(fn=SEGNS + 'calculate_intersection', cond=3, name='calculate_intersection_cond_cross'),
    dict(fn=SEGNS + 'calculate_intersection', cond=4, name='calculate_intersection_cond_same_line'),
    dict(fn='osmium::Location::Location', sig='void () noexcept'),
    dict(fn='osmium::geom::num_tiles_in_zoom'),
    dict(fn='osmium::geom::Tile::valid'),
    # ---- phase 2: the imperative subset (x2l_st.py) ----
    dict(fn='osmium::handler::CheckOrder::node'),
    dict(fn='osmium::handler::CheckOrder::way'),
    dict(fn='osmium::handler::CheckOrder::relation'),
    dict(fn='osmium::handler::CheckOrder::max_node_id'),
    dict(fn='osmium::handler::CheckOrder::max_way_id'),
    dict(fn='osmium::handler::CheckOrder::max_relation_id'),
    dict(fn=DELTA + 'DeltaEncode<long, long>::update'),
    dict(fn=DELTA + 'DeltaEncode<unsigned int, long>::update'),
    dict(fn=DELTA + 'DeltaEncode<unsigned int, int>::update'),
    dict(fn=DELTA + 'DeltaEncode<int, int>::update'),
    dict(fn=DELTA + 'DeltaDecode<long, long>::update'),
    dict(fn=DELTA + 'DeltaEncode<long, long>::clear'),
    dict(fn=DELTA + 'DeltaDecode<long, long>::clear'),
    dict(fn='osmium::memory::Buffer::commit'),
    dict(fn='osmium::memory::Buffer::rollback'),
    dict(fn='osmium::memory::Buffer::clear'),
    dict(fn='osmium::memory::Buffer::written'),
    dict(fn='osmium::memory::Buffer::committed'),
    dict(fn='osmium::memory::Buffer::capacity'),
    dict(fn='osmium::memory::Buffer::is_aligned'),
    dict(fn='osmium::memory::Buffer::reserve_space', cond=0, name='reserve_space_cond_full'),
    dict(fn='osmium::memory::Buffer::reserve_space', cond=2, name='reserve_space_cond_grow_internal'),
    dict(fn='osmium::memory::Buffer::reserve_space', cond=3, name='reserve_space_cond_still_full'),
    dict(fn='osmium::memory::Buffer::reserve_space', local='new_capacity', name='reserve_space_new_capacity'),
    dict(fn='osmium::memory::Buffer::reserve_space', loop=0, name='reserve_space_loop_double'),
    dict(fn='osmium::item_type_to_char'),
    dict(fn='osmium::char_to_item_type'),
    dict(fn='osmium::item_type_to_nwr_index'),
    dict(fn='osmium::nwr_index_to_item_type'),
    dict(fn='osmium::io::detail::opl_parse_relation_members', cond=1, name='opl_member_type_unknown'),
    dict(fn=KV32 + '::operator<'), dict(fn=KV32 + '::operator=='), dict(fn=KV32 + '::kv_pair', sig='key_type, const'),
    dict(fn=KV64 + '::operator<'), dict(fn=KV64 + '::operator=='), dict(fn=KV64 + '::kv_pair', sig='key_type, const'),
    dict(fn='osmium::index::RelationsMapIndex::for_each', cond=1, name='for_each_cond_id_above_32bit'),
    dict(fn='osmium::index::RelationsMapStash::add', cond=0, name='add_cond_fits_32bit'),
    # C15: the generated RECORD of flat_map (all members in the subset: the vector as an opaque value) — `src_tie_flat_map_state`
    dict(fn=KV32[:-len('::kv_pair')] + '::size'), dict(fn=KV64[:-len('::kv_pair')] + '::size'),
    dict(fn=MDB + 'element::operator<'), dict(fn=MDB + 'element::is_removed'), dict(fn=MDB + 'element::remove'),
    dict(fn=MDB + 'compare_member_id::operator()'),
    dict(fn='osmium::OSMObject::set_version', sig='(osmium::object_version_type)'),
    dict(fn='osmium::OSMObject::set_deleted'), dict(fn='osmium::OSMObject::set_visible', sig='(bool)'),
    dict(fn='osmium::io::detail::DenseNodes::size'),
    dict(fn='osmium::io::detail::PrimitiveBlock::can_add', opaque=['osmium::io::detail::PrimitiveBlock::size']),
    dict(fn='osmium::io::detail::PrimitiveBlock::count'),
    # ---- phase 3: character cursors (join style, x2l_st.py jblock) ----
    dict(fn='osmium::detail::string_to_location_coordinate'),
    dict(fn='osmium::io::detail::opl_parse_int', sig='long (const char **)'),
    dict(fn='osmium::io::detail::opl_parse_int', sig='unsigned int (const char **)'),
    dict(fn='osmium::io::detail::opl_parse_id'),
    dict(fn='osmium::io::detail::opl_parse_visible'),
    dict(fn='osmium::io::detail::opl_non_empty'),
    dict(fn='osmium::io::detail::opl_parse_space'),
    dict(fn='osmium::detail::fractional_seconds'),
    # parse_timestamp as a whole is outside the subset (std::tm, timegm, an effectful call inside `&&`): the digit arithmetic
    # of the six `tm` fields (`rhs=`: right-hand side of the assignment) is translated
    dict(fn='osmium::detail::parse_timestamp', sig='(const char **)', rhs='tm.tm_year', name='parse_timestamp_year'),
    dict(fn='osmium::detail::parse_timestamp', sig='(const char **)', rhs='tm.tm_mon', name='parse_timestamp_mon'),
    dict(fn='osmium::detail::parse_timestamp', sig='(const char **)', rhs='tm.tm_mday', name='parse_timestamp_mday'),
    dict(fn='osmium::detail::parse_timestamp', sig='(const char **)', rhs='tm.tm_hour', name='parse_timestamp_hour'),
    dict(fn='osmium::detail::parse_timestamp', sig='(const char **)', rhs='tm.tm_min', name='parse_timestamp_min'),
    dict(fn='osmium::detail::parse_timestamp', sig='(const char **)', rhs='tm.tm_sec', name='parse_timestamp_sec'),
    # … and the 37 conjuncts of its big condition before `(str[19] == 'Z' || fractional_seconds(s))` (`and_left=1`)
    dict(fn='osmium::detail::parse_timestamp', sig='(const char **)', cond=0, and_left=1, name='parse_timestamp_cond_pattern'),
    dict(fn='osmium::io::detail::utf8_sequence_length'),
    dict(fn='osmium::io::detail::next_utf8_codepoint'),
    # ---- phase 4: output strings (`std::string&` / back_insert_iterator parameters that are only appended to) ----
    dict(fn='osmium::io::detail::append_codepoint_as_utf8', sig='back_insert_iterator'),
    dict(fn='osmium::io::detail::opl_parse_escaped'),
    dict(fn='osmium::io::detail::opl_parse_string'),
    dict(fn='osmium::io::detail::opl_parse_char'),
    dict(fn='osmium::io::detail::append_2_hex_digits'),
    dict(fn='osmium::io::detail::append_min_4_hex_digits'),
    dict(fn='osmium::io::detail::append_utf8_encoded_string'),
    # opl_parse_tags drives a TagListBuilder (outside the subset): the test that ends its loop is translated
    dict(fn='osmium::io::detail::opl_parse_tags', cond=0, name='opl_parse_tags_cond_end'),
    dict(fn='osmium::io::detail::opl_parse_timestamp', cond=0, name='opl_parse_timestamp_cond_empty'),
    # C13: string_to_ulong / string_to_object_id call strtoul / strtoll / isspace / errno (external: refused as a whole, and so is
    # any conjunct that reads errno or `char* end`): the conjuncts in front of the last one of their conditions are translated, so
    # that a NEW conjunct in the acceptance test (seed C13-8: `errno != ERANGE &&`) changes — or is refused in — the generated text
    dict(fn='osmium::detail::string_to_ulong', cond=1, and_left=1, name='string_to_ulong_cond_start'),
    dict(fn='osmium::detail::string_to_ulong', cond=2, and_left=1, name='string_to_ulong_cond_range'),
    dict(fn='osmium::string_to_object_id', sig='(const char *)', cond=0, and_left=1, name='string_to_object_id_cond_start'),
]


def tu_text():
    return ''.join('#include <%s>\n' % h for h in HEADERS) + '\n'.join(INSTANTIATE) + '\n'


def _sha(b):
    return hashlib.sha256(b).hexdigest()


def _self_hash():
    h = hashlib.sha256()
    d = os.path.dirname(os.path.abspath(__file__))
    for f in ('cxx2lean.py', 'x2l_ast.py', 'x2l_tr.py', 'x2l_ex.py', 'x2l_st.py'):
        with open(os.path.join(d, f), 'rb') as fh:
            h.update(fh.read())
    return h.hexdigest()


def _file_hash(p):
    try:
        with open(p, 'rb') as f:
            return _sha(f.read())
    except OSError:
        return None


def _parse_deps(path):
    with open(path) as f:
        txt = f.read().replace('\\\n', ' ')
    txt = txt.split(':', 1)[1] if ':' in txt else ''
    return sorted(set(p for p in txt.split() if p))


# ---- extraction of sub-expressions ---------------------------------------------------------------

def _walk_stmts(n, out, kind):
    if n.get('kind') == kind:
        out.append(n)
    for c in n.get('inner', []):
        if not c.get('kind', '').endswith('Decl') or c.get('kind') == 'VarDecl':
            _walk_stmts(c, out, kind)
        if c.get('kind') == 'VarDecl' and kind == 'VarDecl' and c not in out:
            out.append(c)


def _walk_all(n):
    yield n
    for c in n.get('inner', []) or []:
        if c and (not c.get('kind', '').endswith('Decl') or c.get('kind') == 'VarDecl'):
            for x in _walk_all(c):
                yield x


def translate_target(tr, t):
    f = tr.ix.find_function(t['fn'], t.get('sig'))
    if 'local' not in t and 'cond' not in t and 'loop' not in t and 'rhs' not in t:
        return tr.fn_item(f)
    body = [c for c in f['inner'] if c.get('kind') == 'CompoundStmt'][0]
    parent = f.get('_parent')
    is_method = f['kind'] == 'CXXMethodDecl' and f.get('storageClass') != 'static' and parent is not None
    if 'loop' in t:
        loops = [x for x in _walk_all(body) if x.get('kind') in ('WhileStmt', 'ForStmt')]
        if t['loop'] >= len(loops):
            raise Unsupported('%s has only %d loops (loop %d requested)' % (t['fn'], len(loops), t['loop']))
        lp = loops[t['loop']]
        inn = lp.get('inner', [])
        if lp['kind'] == 'WhileStmt':
            if lp.get('hasVar') or len(inn) != 2:
                raise Unsupported('%s: while with a condition variable' % t['fn'])
            cond, lbody = inn[0], [inn[1]]
        else:
            if len(inn) != 5 or 'kind' in (inn[1] or {}) or 'kind' not in (inn[2] or {}):
                raise Unsupported('%s: for statement with a condition variable / without a condition' % t['fn'])
            cond, lbody = inn[2], [inn[4]] + ([inn[3]] if 'kind' in (inn[3] or {}) else [])
        env = Env(Ty('rec', rec=parent) if is_method else None, extract=True)
        env.used.update(['self', 'fuel'])
        lp.setdefault('_file', f['_file'])
        it, params, modified = tr.loop_def(cond, lbody, env, f, t['name'], lp, ' (loop #%d of %s as a function of the variables it reads; '
                                           'result: the variables it modifies)' % (t['loop'], f['_q']))
        return it
    if 'rhs' in t:
        # the right-hand side of the (nth) assignment statement whose left-hand side reads `t['rhs']` in the source
        cands = [x for x in _walk_all(body) if x.get('kind') == 'BinaryOperator' and x.get('opcode') == '=' and
                 ''.join(tr.src.text(x['inner'][0]).split()) == ''.join(t['rhs'].split())]
        if len(cands) <= t.get('nth', 0):
            raise Unsupported('%s: %d assignments to `%s`' % (t['fn'], len(cands), t['rhs']))
        expr, what = cands[t.get('nth', 0)]['inner'][1], ' (right-hand side of the assignment to `%s` in %s)' % (t['rhs'], f['_q'])
        want = None
    elif 'local' in t:
        vs = []
        _walk_stmts(body, vs, 'VarDecl')
        vs = [v for v in vs if v.get('name') == t['local']]
        if len(vs) != 1:
            raise Unsupported('%s: %d locals named %s' % (t['fn'], len(vs), t['local']))
        init = [c for c in vs[0].get('inner', []) if is_expr(c)]
        if not init:
            raise Unsupported('%s: local %s has no initialiser' % (t['fn'], t['local']))
        expr, what = init[-1], ' (initialiser of local `%s` in %s)' % (t['local'], f['_q'])
        want = tr.resolve(vs[0]['type'], vs[0])
    else:
        ifs = []
        _walk_stmts(body, ifs, 'IfStmt')
        if t['cond'] >= len(ifs):
            raise Unsupported('%s has only %d if statements (condition %d requested)' % (t['fn'], len(ifs), t['cond']))
        expr, what = ifs[t['cond']]['inner'][0], ' (condition of if #%d in %s)' % (t['cond'], f['_q'])
        for _ in range(t.get('and_left', 0)):          # the conjuncts before the last `and_left` ones of an `&&` chain
            while expr.get('kind') in ('ParenExpr', 'ExprWithCleanups'):
                expr = expr['inner'][0]
            if expr.get('kind') != 'BinaryOperator' or expr.get('opcode') != '&&':
                raise Unsupported('%s: condition #%d is not an && chain of the requested length' % (t['fn'], t['cond']))
            expr = expr['inner'][0]
            what = ' (condition of if #%d in %s without its last %d conjunct(s))' % (t['cond'], f['_q'], t['and_left'])
        want = None
    env = Env(Ty('rec', rec=parent) if is_method else None, extract=True)
    env.used.add('self')
    e = tr.ex(expr, env)
    if want is not None and want.kind != e.ty.kind:
        raise Unsupported('%s: initialiser kind differs from the declared type' % t['fn'])
    params = [(nm, ty) for nm, ty, off in sorted(env.free.values(), key=lambda x: x[2])]
    if env.uses_self:
        tr.record_item(parent)
        params = [('self', env.self_ty)] + params
    area = tr.area_of(f)
    expr.setdefault('_file', f['_file'])
    return tr.emit_fn(area, t['name'], expr, params, e.ty, ('ret', e.term), ('ret', e.defd or 'true'), env.uses_self, extra_doc=what,
                      fx=(env.fx if env.fx.buf else None))


# ---- clang + cache ---------------------------------------------------------------------------------

def run_clang(inc):
    os.makedirs(WORK, exist_ok=True)
    tag = _sha((inc + tu_text()).encode())[:12]
    tu = os.path.join(WORK, 'tu-%s.cpp' % tag)
    dep = os.path.join(WORK, 'tu-%s.d' % tag)
    with open(tu, 'w') as f:
        f.write(tu_text())
    cmd = ['clang++-14', '-std=gnu++17', '-fsyntax-only', '-I' + inc, '-D' + vlib.GUARD, '-DNDEBUG', '-Xclang', '-ast-dump=json',
           '-Xclang', '-ast-dump-filter=osmium', '-MD', '-MF', dep, tu]
    rc, so, se = vlib.sh(cmd, timeout=600)
    if rc != 0:
        raise RuntimeError('clang failed (rc %s): %s' % (rc, se[-1500:]))
    return so, _parse_deps(dep), ' '.join(cmd[:-1])


def translate(inc):
    """-> dict(lean=text, functions=[...], failures=[...], deps={path: sha})"""
    t0 = time.time()
    dump, deps, cmd = run_clang(inc)
    ix = Index(load_objects(dump))
    del dump
    tr = ImpTranslator(ix, Sources(), inc)
    tr.opaque_for = {t['fn']: set(t['opaque']) for t in TARGETS if t.get('opaque')}
    funcs, failures = [], []
    for t in TARGETS:
        label = t.get('name') or t['fn']
        mark = (len(tr.order), dict(tr.items))
        try:
            it = translate_target(tr, t)
            funcs.append({'target': label, 'lean': 'Osmium.Generated.' + it.full, 'source': tr.where(it.node),
                          'source_sha256': _sha(tr.src.text(it.node).encode())[:16], 'defined_trivial': it.defd_trivial})
        except Unsupported as ex:
            failures.append({'target': label, 'why': str(ex)})
            del tr.order[mark[0]:]                 # nothing of a refused target is emitted
            tr.items = mark[1]
        except (KeyError, IndexError, TypeError, ValueError, AttributeError) as ex:
            failures.append({'target': label, 'why': 'translator error %s: %s' % (type(ex).__name__, ex)})
            del tr.order[mark[0]:]
            tr.items = mark[1]
    return {'lean': render(tr), 'functions': funcs, 'failures': failures, 'clang_cmd': cmd,
            'deps': {p: _file_hash(p) for p in deps}, 'translate_s': round(time.time() - t0, 2)}


def render(tr):
    out = ['/- GENERATED by tools/cxx2lean.py from the C++ source under /repo/include on every run (clang typed AST ->',
           '   Lean) — do not edit.  Semantics of the operators: Osmium/Model/CxxSem.lean.  Core-only. -/',
           'import Osmium.Model.CxxSem', '', 'set_option Elab.async false', 'set_option linter.unusedVariables false', '',
           'namespace Osmium.Generated', '']
    cur = None
    for it in tr.order:
        if it.area != cur:
            if cur is not None:
                out += ['end Src.%s' % cur, '']
            cur = it.area
            out += ['/-! ### %s -/' % tr.areas.get(cur, cur), 'namespace Src.%s' % cur, '']
        out += [it.text, '']
    if cur is not None:
        out += ['end Src.%s' % cur, '']
    out += ['end Osmium.Generated', '']
    return '\n'.join(out)


def cached_translate():
    inc = os.path.join(vlib.REPO, 'include')
    os.makedirs(WORK, exist_ok=True)
    key = _sha((inc + '\0' + tu_text() + '\0' + _self_hash() + '\0' + json.dumps(TARGETS, sort_keys=True)).encode())[:20]
    cpath = os.path.join(WORK, 'cache-%s.json' % key)
    with vlib.Lock('x2l'):
        try:
            with open(cpath) as f:
                res = json.load(f)
            if res['deps'] and all(_file_hash(p) == h for p, h in res['deps'].items()):
                res['cache'] = 'hit'
                return res
        except (OSError, ValueError, KeyError):
            pass
        res = translate(inc)
        tmp = cpath + '.tmp%d' % os.getpid()
        with open(tmp, 'w') as f:
            json.dump(res, f)
        os.rename(tmp, cpath)
        now = time.time()
        for fn in os.listdir(WORK):                       # old cache entries
            p = os.path.join(WORK, fn)
            try:
                if fn.startswith(('cache-', 'tu-')) and now - os.path.getmtime(p) > 24 * 3600:
                    os.remove(p)
            except OSError:
                pass
    res['cache'] = 'miss'
    return res


def regen(ctx=None):
    t0 = time.time()
    try:
        res = cached_translate()
    except Exception as ex:  # noqa: BLE001  (clang failure, unreadable source …: never a silent pass)
        if ctx is not None:
            ctx.violation('translator-failed:cxx2lean', 'C++ -> Lean translator could not run on the current source: %s' % str(ex)[-800:],
                          {'kind': 'translator-failed', 'error': str(ex)[-3000:]}, found_input=False)
            return None
        raise
    changed = vlib.write_if_changed(GEN, res['lean'])
    if ctx is not None:
        note = ('tools/cxx2lean.py (+ x2l_ast/x2l_tr/x2l_ex/x2l_st.py): clang 14 typed AST -> Lean translation of the small functions '
                '(pure ones and state transformers over the members of *this) behind the src_tie_* theorems, with the operator / '
                'outcome semantics of lean/Osmium/Model/CxxSem.lean '
                '(cross-checked against the compiled code by tools/x2l_selftest.py)')
        if note not in ctx.trusted:
            ctx.trusted.append(note)
        ctx.extra['generated_src'] = {'functions': res['functions'], 'failures': res['failures'], 'cache': res['cache'],
                                      'changed': changed, 'clang_cmd': res['clang_cmd'], 'regen_s': round(time.time() - t0, 2)}
        for fl in res['failures']:
            ctx.violation('translator-failed:' + fl['target'], 'C++ -> Lean translator refuses %s: %s' % (fl['target'], fl['why']),
                          {'kind': 'translator-failed', 'target': fl['target'], 'why': fl['why']}, found_input=False)
    return res


if __name__ == '__main__':
    r = regen()
    for f in r['functions']:
        print('ok   %-50s %s  (%s)' % (f['target'], f['lean'], f['source']))
    for f in r['failures']:
        print('FAIL %-50s %s' % (f['target'], f['why']))
    print('cache %s, %.2fs' % (r['cache'], r.get('translate_s', 0)))
