#!/bin/bash
# Offline setup after a fresh restore: build the Lean theorems and the model driver of every
# claimed property (MANIFEST.json).  Harnesses are compiled by the checks themselves from
# /repo's working tree.
set -e
cd "$(dirname "$0")/.."
mkdir -p .build evidence replays
targets=$(python3 - <<'PY'
import json, os, sys, importlib
sys.path.insert(0, 'tools')
m = json.load(open('MANIFEST.json'))
t = []
def add(x):
    if x not in t:
        t.append(x)
for c in m['checks']:
    p = c['property_id'].lower()
    parts = [f[:-3] for f in sorted(os.listdir('tools/props')) if f.startswith(p + '_') and f.endswith('.py')]
    if parts:
        # property assembled from per-format parts: each names its Lean modules and drivers
        for name in parts:
            mod = importlib.import_module('props.' + name)
            for x in getattr(mod, 'MODULES', []) + getattr(mod, 'EXES', []):
                add(x)
    else:
        add('Osmium.Props.' + p.upper())
        add('model_' + p)
print(' '.join(t))
PY
)
cd lean
lake build $targets 2>&1 | tail -5
