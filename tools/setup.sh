#!/bin/bash
# Offline setup after a fresh restore: build the Lean theorems and the model driver of every
# claimed property (MANIFEST.json).  Harnesses are compiled by the checks themselves from
# /repo's working tree.
set -e
cd "$(dirname "$0")/.."
mkdir -p .build evidence replays
targets=$(python3 - <<'PY'
import json
m=json.load(open('MANIFEST.json'))
t=[]
for c in m['checks']:
    p=c['property_id']
    t += ['Osmium.Props.'+p, 'model_'+p.lower()]
print(' '.join(t))
PY
)
cd lean
lake build $targets 2>&1 | tail -5
