#!/bin/bash
# Offline setup after a fresh restore: build the Lean library (models, lemmas, property
# theorems) and all model drivers.  Harnesses are compiled by the checks themselves from
# /repo's working tree.
set -e
cd "$(dirname "$0")/.."
mkdir -p .build evidence replays
cd lean
lake build 2>&1 | tail -5
