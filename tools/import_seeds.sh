#!/bin/bash
# import_seeds.sh cNN [srcdir] [offset] : copy seed1/seed2 from srcdir (default /tmp/seed_cNN) into
# /verif/seeded/CNN-{1+offset,2+offset} and confirm them (tools/seedtest.py)
set -e
cd "$(dirname "$0")/.."
p=$1; P=${p^^}; src=${2:-/tmp/seed_$p}; off=${3:-0}
for n in 1 2; do
  [ -f $src/seed$n.diff ] || continue
  k=$((n+off))
  d=seeded/$P-$k; mkdir -p $d
  cp $src/seed$n.diff $d/patch.diff; cp $src/demo$n.cpp $d/demo.cpp; cp $src/seed$n.md $d/notes.md 2>/dev/null || true
  python3 - <<PY
import json
json.dump({"property":"$P","id":"$P-$k","source":"independent sub-agent given only the property text and a scratch worktree","notes":"notes.md"}, open("$d/meta.json","w"), indent=1)
PY
  echo "== $P-$k"
  python3 tools/seedtest.py $d 2>&1 | grep -E "demo_clean|demo_patched\"|suite|detected|VIOLATION|what|clean_tree|apply" | cut -c1-300
done
