#!/bin/bash
# import_seeds.sh cNN : copy seed1/seed2 from /tmp/seed_cNN into /verif/seeded/CNN-{1,2} and confirm them
set -e
cd "$(dirname "$0")/.."
p=$1; P=${p^^}
for n in 1 2; do
  [ -f /tmp/seed_$p/seed$n.diff ] || continue
  d=seeded/$P-$n; mkdir -p $d
  cp /tmp/seed_$p/seed$n.diff $d/patch.diff; cp /tmp/seed_$p/demo$n.cpp $d/demo.cpp; cp /tmp/seed_$p/seed$n.md $d/notes.md 2>/dev/null || true
  python3 - <<PY
import json
json.dump({"property":"$P","id":"$P-$n","source":"independent sub-agent given only the property text and a scratch worktree","notes":"notes.md"}, open("$d/meta.json","w"), indent=1)
PY
  echo "== $P-$n"
  python3 tools/seedtest.py $d 2>&1 | grep -E "demo_clean|demo_patched\"|suite|detected|VIOLATION|what|clean_tree|apply" | cut -c1-300
done
