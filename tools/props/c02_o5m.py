"""C02, o5m part — the o5m reader decodes every spec-conformant file (DESIGN.md §3 C02).

proof (dispatcher): lean/Osmium/Props/C02O5m.lean — table ring theorem, decode∘encode for
the specification encoder lean/Osmium/Model/O5mSpec.lean.
correspondence + monitors (here):
  * the compiled Lean SPEC ENCODER (driver op `gen`) emits files for random object lists D and
    random choice vectors (inline vs back-reference per string, reset / unknown / sync / jump
    datasets anywhere, o5c, trailer, bbox + timestamp datasets, delta sign changes, boundary
    ids, strings around the 250-byte table limit, table wrap-around by a burst of > 15000
    distinct strings);
  * each file is read by the REAL osmium::io::Reader (harness/o5m.cpp, memory buffer) and by
    the model decoder; monitor = "what the reader delivers equals D" (the property itself),
    correspondence = "reader output equals model output";
  * tiny files (10..22 bytes, every final-dataset length 0..12, with and without the 0xfe)
    from an independent Python encoder;
  * corpus/C02/o5m*.ops: regression probes `<hex> <stable key> <expected reader dump>`.
All runs use entity filter = all.  Two observations outside C02 (entity filter desync -> C05,
31-bit version field) are recorded with their repro in the evidence (`observations`).
"""
import os
import subprocess

MODULES = ['Osmium.Props.C02O5m']
EXES = ['model_o5m']
RULE = ('o5m: files from the Lean spec encoder (random D x random choices; profiles mixed / nodes / sorted n-w-r / '
        'string burst forcing table wrap-around / tiny) and hand-enumerated tiny files read by the real Reader and the model '
        'decoder; monitor: delivered objects == D; distinct = distinct files; all non-trivial')

HEADER = b'\xff\xe0\x04o5m2'


# ---- independent little encoder (Python), for the tiny files ----------------------------------
def uvar(n):
    out = bytearray()
    while True:
        b = n & 0x7f
        n >>= 7
        if n:
            out.append(b | 0x80)
        else:
            out.append(b)
            return bytes(out)


def svar(x):
    return uvar((x << 1) if x >= 0 else ((-x) << 1) - 1)


def dataset(t, payload):
    return bytes([t]) + uvar(len(payload)) + payload


def tiny_files():
    """(file bytes, expected dump or None) — a single final dataset of payload length 0..12"""
    out = []
    ids = {1: 5, 2: 300, 3: 70000, 4: 2 ** 22 + 5, 5: 2 ** 29 + 1}       # id by number of bytes of its svarint
    for idlen, idv in ids.items():
        assert len(svar(idv)) == idlen
    coords = {1: 7, 2: -500, 3: 123456, 4: -(2 ** 24), 5: 1800000000}
    for clen, cv in coords.items():
        assert len(svar(cv)) == clen, (clen, cv)
    for trailer in (b'', b'\xfe'):
        # empty / unknown datasets of length 0..12
        for L in range(0, 13):
            out.append((HEADER + dataset(0x20, bytes(range(1, L + 1))) + trailer, 'ok h S ts=0'))
        # deleted node: id + 00   (payload length 2..6)
        for idlen, idv in ids.items():
            p = svar(idv) + b'\x00'
            out.append((HEADER + dataset(0x10, p) + trailer,
                        'ok h S ts=0 | n %d v0 D t0 c0 u0 - L2147483647,2147483647' % idv))
            # deleted way / relation
            out.append((HEADER + dataset(0x11, p) + trailer, 'ok h S ts=0 | w %d v0 D t0 c0 u0 -' % idv))
            out.append((HEADER + dataset(0x12, p) + trailer, 'ok h S ts=0 | r %d v0 D t0 c0 u0 -' % idv))
            # empty visible way: id 00 00
            out.append((HEADER + dataset(0x11, p + b'\x00') + trailer, 'ok h S ts=0 | w %d v0 V t0 c0 u0 -' % idv))
        # visible node: id 00 lon lat (payload 4..12)
        for idlen, idv in ids.items():
            for lo, lov in coords.items():
                for la, lav in coords.items():
                    p = svar(idv) + b'\x00' + svar(lov) + svar(lav)
                    if len(p) <= 12:
                        out.append((HEADER + dataset(0x10, p) + trailer,
                                    'ok h S ts=0 | n %d v0 V t0 c0 u0 - L%d,%d' % (idv, lov, lav)))
        # node with version only / version+timestamp+changeset+anonymous user (3 bytes) / one tiny tag
        p = svar(1) + uvar(3) + svar(0) + svar(4) + svar(6)
        out.append((HEADER + dataset(0x10, p) + trailer, 'ok h S ts=0 | n 1 v3 V t0 c0 u0 - L4,6'))
        p = svar(1) + uvar(3) + svar(9) + svar(2) + b'\x00\x00\x00' + svar(4) + svar(6)
        out.append((HEADER + dataset(0x10, p) + trailer, 'ok h S ts=0 | n 1 v3 V t9 c2 u0 - L4,6'))
        p = svar(1) + b'\x00' + svar(4) + svar(6) + b'\x00a\x00b\x00'
        out.append((HEADER + dataset(0x10, p) + trailer, 'ok h S ts=0 | n 1 v0 V t0 c0 u0 - T61=62 L4,6'))
        p = svar(1) + uvar(3) + svar(9) + svar(2)     # deleted, user omitted
        out.append((HEADER + dataset(0x10, p) + trailer, 'ok h S ts=0 | n 1 v3 D t9 c2 u0 - L2147483647,2147483647'))
        # timestamp / bbox datasets only
        out.append((HEADER + dataset(0xdc, svar(1600000000)) + trailer, 'ok h S ts=1600000000'))
        out.append((HEADER + dataset(0xdb, svar(-5) + svar(-6) + svar(7) + svar(8)) + trailer, 'ok h S ts=0 B-5,-6;7,8'))
    out.append((HEADER, 'ok h S ts=0'))
    out.append((HEADER + b'\xfe', 'ok h S ts=0'))
    out.append((b'\xff\xe0\x04o5c2', 'ok h H ts=0'))
    out.append((HEADER + b'\xff', 'ok h S ts=0'))
    return out


# ---- helpers shared with c03_o5m ------------------------------------------------------------
def model_lines(ctx, lines):
    rc, out, se = ctx.run_lines([ctx.model_exe('model_o5m')], '\n'.join(lines) + '\n')
    if rc != 0 or len(out) != len(lines):
        raise RuntimeError('model driver failed rc=%s lines=%d/%d: %s' % (rc, len(out), len(lines), se[-400:]))
    return out


def gen_files(ctx, specs):
    """specs: list of (seed, profile, n, refAnon) -> list of dicts(hex, toks, expected, spec)"""
    lines = ['gen %d %d %d %d' % s for s in specs]
    outs = model_lines(ctx, lines)
    res = []
    for s, l in zip(specs, outs):
        parts = l.split('\t')
        if len(parts) != 3:
            raise RuntimeError('bad gen output for %s: %s' % (s, l[:200]))
        res.append({'spec': s, 'hex': parts[0], 'toks': parts[1], 'expected': 'ok ' + parts[2], 'op': 'gen %d %d %d %d' % s})
    return res


def filter_expected(expected, rt):
    parts = expected.split(' | ')
    keep = [parts[0]]
    for p in parts[1:]:
        bit = {'n': 1, 'w': 2, 'r': 4}[p[0]]
        if rt & bit:
            keep.append(p)
    return ' | '.join(keep)


def first_diff(a, b):
    pa, pb = a.split(' | '), b.split(' | ')
    for i in range(max(len(pa), len(pb))):
        x = pa[i] if i < len(pa) else '<missing>'
        y = pb[i] if i < len(pb) else '<missing>'
        if x != y:
            return i, x, y
    return None


def run_part(ctx):
    import vlib
    rng = ctx.rng
    quick = ctx.tier == 'quick'
    ctx.assumptions.append('o5m: O5mSpec.encode is my reading of the o5m wiki page (one id delta counter for all object types, separate way-node counter, '
                           'anonymous user = pair ("",""), strings of more than 250 characters not entered in the table); protozero varint routines = Osmium.Wire')
    hbin, err = vlib.build_cpp('o5m_plain', ['o5m.cpp'])
    if hbin is None:
        ctx.violation('o5m-harness-build', 'o5m harness does not compile against the current tree: ' + err[-600:],
                      {'kind': 'harness-build', 'stderr': err}, found_input=False)
        return
    if not ctx.exe_build_ok:
        ctx.violation('o5m-model-driver-build', 'model_o5m does not build', {'kind': 'broken-correspondence'}, found_input=False)
        return

    # ---- files ------------------------------------------------------------------------------
    specs = []
    base = rng.below(2 ** 30)
    nmixed, nnodes, nsorted, nburst, ntiny = (140, 25, 50, 1, 120) if quick else (5000, 800, 2000, 4, 3000)
    k = 0
    for _ in range(nmixed):
        specs.append((base + k, 0, 4 + rng.below(40), 1)); k += 1
    for _ in range(nnodes):
        specs.append((base + k, 1, 4 + rng.below(60), 1)); k += 1
    for _ in range(nsorted):
        specs.append((base + k, 2, 6 + rng.below(50), 1)); k += 1
    for i in range(nburst):
        # > 15000 eligible strings: 6 per node
        specs.append((base + k, 3, 2510 + 7 * i + rng.below(30), 1)); k += 1
    for _ in range(ntiny):
        specs.append((base + k, 4, 1 + rng.below(2), 1)); k += 1
    files = gen_files(ctx, specs)

    tiny = tiny_files()
    corpus_dir = os.path.join(vlib.ROOT, 'corpus', 'C02')
    corpus = []
    if os.path.isdir(corpus_dir):
        for fn in sorted(os.listdir(corpus_dir)):
            if fn.startswith('o5m') and fn.endswith('.ops'):
                with open(os.path.join(corpus_dir, fn)) as f:
                    for l in f:
                        l = l.strip()
                        if l and not l.startswith('#'):
                            hx, key, exp = (l.split(' ', 2) + ['', ''])[:3]
                            corpus.append((hx, key, exp.strip() or None))

    ops = []      # (op line, expected or None, tag)
    for i, f in enumerate(files):
        ops.append(('dec 0 7 ' + f['hex'], f['expected'], 'gen', f['op']))
    for data, exp in tiny:
        ops.append(('dec 0 7 ' + (data.hex() or '-'), exp, 'tiny', 'tiny'))
    for hx, key, exp in corpus:
        ops.append(('dec 0 7 ' + hx, exp, 'corpus', key))

    lines = [o[0] for o in ops]
    for l in lines:
        ctx.note_case(l)
    for o in ops:
        ctx.count('o5m-c02-stream:' + o[2])
    ctx.sample(files[0]['op'] + ' -> ' + files[0]['hex'][:120] + '…')
    ctx.sample(lines[len(files) + 3][:200])

    rc, impl, se = ctx.run_lines([hbin], '\n'.join(lines) + '\n')
    if rc != 0 or len(impl) != len(lines):
        bad = lines[len(impl)] if len(impl) < len(lines) else '?'
        ctx.violation('o5m-reader-crash-on-valid-file', 'the reader harness died (rc=%s) on a spec-conformant file: %s… %s' % (rc, bad[:200], se[-400:]),
                      {'kind': 'counterexample', 'op': bad, 'stderr': se[-3000:], 'replay': 'echo "<op>" | <harness o5m_plain>'})
        return
    model = model_lines(ctx, lines)

    # ---- histogram from the token streams (which encoder choices / decoder branches were hit) ----
    for f in files:
        t = f['toks']
        ctx.count('o5m-enc:datasets', t.count(',d'))
        ctx.count('o5m-enc:table-refs', t.count(';i') + t.count(':i'))
        ctx.count('o5m-enc:inline-strings', t.count(';m00;s') + t.count(':m00;s'))
        ctx.count('o5m-enc:resets', t.count('r:ff,') + (1 if t.endswith('r:ff') else 0))
        ctx.count('o5m-enc:unknown/sync/jump', t.count(',d20:') + t.count(',dee:') + t.count(',def:'))
        ctx.count('o5m-enc:o5c', 1 if t.startswith('r:ffe0046f356332') else 0)
    big = max(len(f['hex']) // 2 for f in files)
    ctx.extra['o5m_largest_file_bytes'] = big

    # ---- monitors ------------------------------------------------------------------------------
    for (op, exp, tag, origin), got, mod in zip(ops, impl, model):
        ctx.count('o5m-c02-result:' + (got[:2] if got.startswith('ok') else got[:40]))
        if exp is not None and got != exp:
            d = first_diff(exp, got) if got.startswith('ok') else None
            if tag == 'corpus':
                key = origin       # the stable key recorded with the regression probe
                what = 'regression probe %s: the old behaviour is back: ' % origin
            elif d and ' u0 ' in d[1] and d[1].split(' u0 ')[0] == d[2].split(' u0 ')[0]:
                key = 'o5m-anon-user-ref'
                what = ('a table reference to the anonymous user pair ("","") is decoded with a stale user name: decode_user() reads the name '
                        'behind the 2 stored bytes of the slot (%s): ' % origin)
            else:
                key = 'o5m-decode-mismatch:' + origin.replace(' ', '_')
                what = 'the reader does not deliver the objects the file describes (%s): ' % origin
            what += ('object #%d expected `%s` got `%s`' % (d[0], d[1][:160], d[2][:160])) if d else ('expected objects, got `%s`' % got[:200])
            ctx.violation(key, what, {'kind': 'counterexample', 'op': op if len(op) < 20000 else op[:20000] + '…', 'origin': origin,
                                      'expected': exp[:4000], 'impl': got[:4000], 'model': mod[:4000],
                                      'replay': 'echo "<op>" | <harness o5m_plain>   (origin: echo "<origin>" | model_o5m)'})
    dis = ctx.diff_streams('o5m-c02-model-vs-reader', lines, impl, model)
    if dis:
        i, op, a, b = dis[0]
        d = first_diff(a, b)
        ctx.violation('o5m-correspondence:' + ops[i][3].replace(' ', '_')[:80],
                      'o5m model and reader disagree on %d files; first (%s): impl `%s` model `%s`'
                      % (len(dis), ops[i][3], (d[1] if d else a)[:200], (d[2] if d else b)[:200]),
                      {'kind': 'broken-correspondence', 'stream': 'o5m-c02-model-vs-reader', 'op': op[:20000], 'impl': a[:4000], 'model': b[:4000]},
                      found_input=False)

    # ---- observations (NOT C02 violations; handed to other checks) --------------------------------
    obs = ctx.extra.setdefault('observations', [])
    # (a) entity filter: datasets of unselected types are not decoded, so their strings never enter the
    #     reference table and the shared id delta counter is not advanced (belongs to C05)
    n = dataset(0x10, svar(5) + b'\x00' + svar(1) + svar(2) + b'\x00k\x00v\x00')
    w = dataset(0x11, svar(2) + b'\x00' + b'\x00' + b'\x01')          # way 7, no refs, tag = table reference 1
    data = HEADER + n + w + b'\xfe'
    o_lines = ['dec 0 7 ' + data.hex(), 'dec 0 2 ' + data.hex()]
    rc, o_impl, _ = ctx.run_lines([hbin], '\n'.join(o_lines) + '\n')
    o_model = model_lines(ctx, o_lines)
    if rc == 0 and len(o_impl) == 2:
        want = filter_expected(o_impl[0], 2)
        obs.append({'id': 'o5m-entity-filter-desync', 'for': 'C05',
                    'what': 'Reader(o5m, entities=way) on a file whose way refers to a string first written in a node dataset (no reset between): '
                            'unselected datasets are not decoded, so the table and the shared id delta counter fall out of step',
                    'op': o_lines[1], 'reader_all': o_impl[0], 'reader_way_only': o_impl[1], 'expected_way_only': want,
                    'model_way_only': o_model[1], 'reproduced': o_impl[1] != want})
    # (b) the object version is a 31-bit field: versions in [2^31, 2^32) pass the range check and are truncated
    data = HEADER + dataset(0x10, svar(5) + uvar(2 ** 31 + 5) + svar(0) + svar(1) + svar(2)) + b'\xfe'
    o_lines = ['dec 0 7 ' + data.hex()]
    rc, o_impl, _ = ctx.run_lines([hbin], o_lines[0] + '\n')
    if rc == 0 and o_impl:
        obs.append({'id': 'o5m-version-31bit', 'for': 'note',
                    'what': 'o5m version 2^31+5 passes `version > numeric_limits<object_version_type>::max()` and is stored in the 31-bit field as 5 '
                            '(outside the C02 domain: version < 2^31)',
                    'op': o_lines[0], 'reader': o_impl[0], 'reproduced': ' v5 ' in o_impl[0]})
