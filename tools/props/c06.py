"""C06 — parse result is independent of how the input byte stream is chunked (DESIGN.md §3 C06).

1. proof stage: lean/Osmium/Props/C06.lean — for ALL chunkings (lists of non-empty chunks):
   OPL line_by_line = split of the concatenation; PBF framing, the o5m window/dataset loop and
   the XML feed depend only on the concatenation.
2. correspondence (harness/c06.cpp, built with -fno-access-control): the REAL line_by_line,
   the REAL PBFParser framing functions, the REAL O5mParser::ensure_bytes_available driven with
   the call pattern of decode_data, vs the compiled Lean model, on the same (bytes, cuts).
3. property monitor on the implementation alone: the whole Reader behind a mock Decompressor
   that hands out caller-chosen pieces; every chunking of the same bytes (valid files and every
   truncation) must give the identical header+objects digest or the identical error.
"""
import binascii
import os

import vlib


def hx(b):
    return binascii.hexlify(bytes(b)).decode() or '-'


def varint(n):
    out = bytearray()
    while n >= 0x80:
        out.append((n & 0x7f) | 0x80)
        n >>= 7
    out.append(n)
    return bytes(out)


def zz(x):
    return varint((x << 1) if x >= 0 else ((-x) << 1) - 1)


def pb_field(tag, wt, payload):
    if wt == 0:
        return varint(tag << 3) + varint(payload)
    return varint((tag << 3) | 2) + varint(len(payload)) + payload


def pbf_frame(btype, blob, indexdata=None, datasize=None, extra=b''):
    hdr = pb_field(1, 2, btype)
    if indexdata is not None:
        hdr += pb_field(2, 2, indexdata)
    hdr += pb_field(3, 0, len(blob) if datasize is None else datasize)
    hdr += extra
    return len(hdr).to_bytes(4, 'big') + hdr + blob


def o5m_file(rng, nnodes, nways, trailing=b'\xfe', big=False):
    """A small o5m file (independent encoder written from the format description) and the
    ensure/advance script decode_data performs on it."""
    out = bytearray(b'\xff\xe0\x04o5m2')
    script = ['e7', 'a7']
    last_id = 0
    lon = lat = 0

    def dataset(t, payload):
        nonlocal out, script
        ln = varint(len(payload))
        out += bytes([t]) + ln + payload
        script += ['e1', 'a1', 'e10', 'a%d' % len(ln), 'e%d' % len(payload), 'a%d' % len(payload)]

    for _ in range(nnodes):
        nid = last_id + 1 + rng.below(5)
        p = zz(nid - last_id) + b'\x00'
        last_id = nid
        nlon, nlat = rng.below(1000) - 500, rng.below(1000) - 500
        p += zz(nlon - lon) + zz(nlat - lat)
        lon, lat = nlon, nlat
        for _ in range(rng.below(3)):
            p += b'\x00' + rng.choice([b'highway', b'name', b'k']) + b'\x00' + rng.choice([b'v', b'residential', b'']) + b'\x00'
        if big and rng.chance(1, 2):
            # a dataset of >= 128 bytes: its length is a multi-byte varint that a cut can split
            p += b'\x00note\x00' + bytes(97 + rng.below(26) for _ in range(130 + rng.below(200))) + b'\x00'
        dataset(0x10, p)
        if rng.chance(1, 6):
            out += b'\xff'
            script += ['e1', 'a1']
            last_id = 0
            lon = lat = 0
    last_id = 0
    last_ref = 0
    for _ in range(nways):
        wid = last_id + 1 + rng.below(5)
        p = zz(wid - last_id) + b'\x00'
        last_id = wid
        refs = b''
        for _ in range(rng.below(4) + (70 + rng.below(60) if big and rng.chance(1, 2) else 0)):
            r = 1 + rng.below(50)
            refs += zz(r - last_ref)
            last_ref = r
        p += varint(len(refs)) + refs
        dataset(0x11, p)
    for b in trailing:
        out += bytes([b])
        script += ['e1', 'a1']
    script += ['e1']
    return bytes(out), script


def cut_sets(rng, n, quick, exhaustive_pairs_upto):
    """chunkings of an n-byte stream: none, fixed sizes, every single cut, (pairs), random"""
    cs = [[]]
    for k in (1, 2, 3, 5, 7):
        if k < n:
            cs.append(list(range(k, n, k)))
    if n <= 400:
        cs += [[i] for i in range(1, n)]
    else:
        cs += [[1 + rng.below(n - 1)] for _ in range(60)]
    if n <= exhaustive_pairs_upto:
        cs += [[i, j] for i in range(1, n) for j in range(i + 1, n)]
    for _ in range(6 if quick else 40):
        k = 1 + rng.below(6)
        cs.append(sorted({1 + rng.below(max(n - 1, 1)) for _ in range(k)}))
    return [c for c in cs if all(0 < x < n for x in c)]


def cuts_str(c):
    return ','.join(map(str, c)) if c else '-'


def run(ctx):
    rng = ctx.rng
    quick = ctx.tier == 'quick'
    ctx.rule = ('each case = (format, byte stream, chunking); streams: generated valid files in 4 formats (real Writer for OPL/XML/PBF, '
                'independent o5m encoder), every truncation of the small ones, hand-built PBF framings (indexdata, wrong/prefix types, '
                'oversize headers, zero/negative datasize), OPL line soups; chunkings: none, fixed sizes 1,2,3,5,7, every single cut, '
                'every pair of cuts for short streams, random multi-cuts. distinct = distinct op lines; a case is non-trivial if it has at least one cut')
    ctx.assumptions += ['expat: XML_Parse is chunk-invariant (the XML clause is proved for the feed loop only: same bytes, one final call)',
                        'input contract of C09: chunks arrive in order, non-empty, followed by one end marker']

    ctx.proof_stage(exes=['model_c06'])

    hbin, err = vlib.build_cpp('c06', ['c06.cpp'], flags=['-fno-access-control'])
    if hbin is None:
        ctx.violation('harness-build', 'harness does not compile against the current tree: ' + err[-600:],
                      {'kind': 'harness-build', 'stderr': err}, found_input=False)
        return
    scratch = os.path.join(vlib.BUILD, 'c06-%d' % os.getpid())
    os.makedirs(scratch, exist_ok=True)
    try:
        _run(ctx, rng, quick, hbin, scratch)
    finally:
        for f in os.listdir(scratch):
            os.remove(os.path.join(scratch, f))
        os.rmdir(scratch)


def _run(ctx, rng, quick, hbin, scratch):
    # ---------------------------------------------------------------- streams
    gen_ops = []
    for fmt in ('opl', 'xml', 'pbf'):
        for n in ((0, 1, 3, 6) if quick else (0, 1, 2, 3, 6, 12, 40)):
            gen_ops.append('gen %s %d %d' % (fmt, n, rng.below(1 << 30)))
    rc, gen_out, se = ctx.run_lines([hbin, scratch], '\n'.join(gen_ops) + '\n')
    files = {'opl': [], 'xml': [], 'pbf': [], 'o5m': []}
    for op, h in zip(gen_ops, gen_out):
        if rc != 0 or h.startswith('exception') or h == 'bad-op':
            ctx.violation('gen-failed:' + op, 'the real Writer failed to produce a test file: ' + h[:200], {'kind': 'harness', 'op': op}, found_input=False)
            return
        files[op.split()[1]].append(bytes.fromhex(h) if h != '-' else b'')
    # XML changesets with discussions (hand-written: character data inside <text> arrives through
    # expat's character callback, possibly in several pieces — seed C06-4), and an OPL changeset file
    files['xml'].append((
        "<?xml version='1.0' encoding='UTF-8'?>\n<osm version=\"0.6\" generator=\"c06\">\n"
        " <changeset id=\"15\" created_at=\"2020-01-01T00:00:00Z\" closed_at=\"2020-01-01T01:00:00Z\" open=\"false\" user=\"u &amp; v\" uid=\"1\" "
        "min_lat=\"1\" min_lon=\"2\" max_lat=\"3\" max_lon=\"4\" num_changes=\"2\" comments_count=\"2\">\n"
        "  <tag k=\"comment\" v=\"x y\"/>\n  <discussion>\n"
        "   <comment date=\"2020-01-02T00:00:00Z\" uid=\"2\" user=\"bob\">\n    <text>Did you really walk this way</text>\n   </comment>\n"
        "   <comment date=\"2020-01-03T00:00:00Z\" uid=\"3\" user=\"eve\">\n    <text>yes &amp; no</text>\n   </comment>\n"
        "  </discussion>\n </changeset>\n"
        " <changeset id=\"16\" created_at=\"2020-01-05T00:00:00Z\" open=\"true\" user=\"w\" uid=\"9\" num_changes=\"0\" comments_count=\"1\">\n"
        "  <discussion>\n   <comment date=\"2020-01-06T00:00:00Z\" uid=\"2\" user=\"bob\">\n    <text>plain single line text of some length</text>\n   </comment>\n  </discussion>\n"
        " </changeset>\n</osm>\n").encode())
    files['opl'].append(b'c15 k2 s2020-01-01T00:00:00Z e2020-01-01T01:00:00Z d2 i1 uu%20%v x2 y1 X4 Y3 Tcomment=x%20%y\nc16 k0 s2020-01-05T00:00:00Z e d1 i9 uw x y X Y T\n')
    o5m_scripts = {}
    for (nn, nw, tr) in [(0, 0, b'\xfe'), (1, 0, b'\xfe'), (1, 0, b''), (2, 1, b'\xfe'), (3, 2, b'\xfe\xfe'), (1, 0, b'\xfe' * 12), (6, 3, b'\xfe')] + \
            ([] if quick else [(20, 10, b'\xfe'), (2, 2, b''), (5, 0, b'\xfe' * 3)]):
        data, script = o5m_file(rng, nn, nw, tr)
        files['o5m'].append(data)
        o5m_scripts[data] = script
    for (nn, nw) in [(2, 0), (1, 2), (3, 2)] + ([] if quick else [(6, 4), (10, 10)]):
        data, script = o5m_file(rng, nn, nw, b'\xfe', big=True)
        files['o5m'].append(data)
        o5m_scripts[data] = script
    # the 17-byte file of DESIGN.md F6
    f6 = bytes.fromhex('ffe0046f356d32100702008080028002fe')
    files['o5m'].append(f6)
    o5m_scripts[f6] = ['e7', 'a7', 'e1', 'a1', 'e10', 'a1', 'e7', 'a7', 'e1', 'a1', 'e1']

    ops = []          # model-vs-impl ops
    mon = []          # impl-only reader ops, grouped by (fmt, data)

    # ---- OPL line_by_line
    opl_streams = list(files['opl'])
    alphabet = [b'n1', b' ', b'v2', b'\n', b'\r', b'\n', b'x', b'\r\n', b'w5 Nn1,n2', b'\n\n']
    for _ in range(40 if quick else 400):
        s = b''.join(rng.choice(alphabet) for _ in range(1 + rng.below(10)))
        opl_streams.append(s)
    opl_streams += [b'', b'\n', b'\r', b'a', b'a\n', b'\na', b'a\r\nb', b'a\n\rb\n']
    for s in opl_streams:
        for c in cut_sets(rng, len(s), quick, 24 if quick else 60):
            ops.append('opl %s %s' % (cuts_str(c), hx(s)))
    # ---- PBF framing
    pbf_streams = list(files['pbf'])
    blob = bytes(rng.below(256) for _ in range(20))
    h1 = pbf_frame(b'OSMHeader', blob)
    d1 = pbf_frame(b'OSMData', blob[:7], indexdata=b'\x01' * 150)          # header length 166 (> 127: F5 territory)
    d2 = pbf_frame(b'OSMData', blob[3:], extra=pb_field(9, 0, 77) + pb_field(10, 2, b'zz'))
    pbf_streams += [h1 + d1 + d2, h1 + d2 + d1, h1, h1 + d1[:9], h1 + d2 + b'\x00\x00', h1 + pbf_frame(b'OSMHeader', blob),
                    pbf_frame(b'OSMData', blob), h1 + pbf_frame(b'OSMD', blob), h1 + pbf_frame(b'', blob),
                    h1 + pbf_frame(b'OSMData', blob, datasize=0), h1 + pbf_frame(b'OSMData', blob, datasize=0xffffffff),
                    h1 + pbf_frame(b'OSMData', blob, datasize=33 * 1024 * 1024 + 1),
                    h1 + (70000).to_bytes(4, 'big') + b'x' * 10, h1 + pbf_frame(b'OSMDataX', blob), b'', b'\x00', b'\x00\x00\x00']
    for s in list(pbf_streams[-17:]):
        for k in range(0, len(s), max(1, len(s) // (12 if quick else 40))):
            pbf_streams.append(s[:k])
    for s in pbf_streams:
        for c in cut_sets(rng, len(s), quick, 0 if quick else 40)[:(40 if quick else 400)]:
            ops.append('pbf %s %s' % (cuts_str(c), hx(s)))
    # ---- o5m window
    for data, script in o5m_scripts.items():
        for k in sorted({len(data)} | {rng.below(len(data) + 1) for _ in range(3 if quick else 12)}):
            d = data[:k]
            for c in cut_sets(rng, len(d), quick, 20 if quick else 48):
                ops.append('o5m %s %s %s' % (cuts_str(c), ','.join(script), hx(d)))
    for _ in range(150 if quick else 2000):
        d = bytes(rng.below(256) for _ in range(rng.below(40)))
        script = ','.join(rng.choice(['e1', 'e7', 'e10', 'e3', 'e%d' % rng.below(45), 'a1', 'a2', 'a%d' % rng.below(12)]) for _ in range(1 + rng.below(12)))
        for c in cut_sets(rng, len(d), quick, 0)[:12]:
            ops.append('o5m %s %s %s' % (cuts_str(c), script, hx(d)))

    # ---- whole-Reader monitor: valid files + truncations x chunkings
    for fmt in ('opl', 'xml', 'pbf', 'o5m'):
        for data in files[fmt]:
            variants = [data]
            if len(data) <= (600 if quick else 3000):
                step = max(1, len(data) // (10 if quick else 60))
                variants += [data[:k] for k in range(0, len(data), step)]
            if fmt == 'o5m' and len(data) <= 40:
                variants += [data[:k] for k in range(len(data))]
            for v in variants:
                cs = cut_sets(rng, len(v), quick, 14 if quick else 40)
                if len(cs) > (30 if quick else 300):
                    head = cs[:8]
                    tail = cs[8:]
                    rng.shuffle(tail)
                    cs = head + tail[:(22 if quick else 292)]
                for c in cs:
                    mon.append((fmt, v, 'reader %s %s %s' % (fmt, cuts_str(c), hx(v))))
            # the same bytes through a FIFO (real NoDecompressor / PBF fd path): the writer pauses
            # between the pieces, so read(2) returns short counts in mid-stream (seed C06-3)
            fifo_variants = [data] + ([data[:len(data) * 2 // 3]] if len(data) > 30 else [])
            for v in fifo_variants:
                for _ in range(2 if quick else 6):
                    k = 1 + rng.below(6)
                    c = sorted(set(1 + rng.below(max(1, len(v) - 1)) for _ in range(k))) if len(v) > 1 else []
                    mon.append((fmt, v, 'fifo %s %s %s' % (fmt, cuts_str(c), hx(v))))

    # ---------------------------------------------------------------- run
    for o in ops:
        ctx.note_case(o, nontrivial=' - ' not in o)
        ctx.count('op:' + o.split()[0])
    for _, _, o in mon:
        ctx.note_case(o, nontrivial=' - ' not in o)
        ctx.count('op:%s-%s' % (o.split()[0], o.split()[1]))
    ctx.sample(ops[3][:300])
    ctx.sample([o for o in ops if o.startswith('pbf')][5][:300])
    ctx.sample([o for o in ops if o.startswith('o5m')][5][:300])
    ctx.sample(mon[len(mon) // 2][2][:300])

    text = '\n'.join(ops) + '\n'
    rc, impl, se = ctx.run_lines([hbin, scratch], text)
    if rc != 0:
        ctx.violation('harness-crash', 'harness exited %d: %s' % (rc, se[-500:]), {'kind': 'harness-crash', 'stderr': se[-2000:]}, found_input=False)
        return
    model = None
    if ctx.exe_build_ok:
        rc, model, se = ctx.run_lines([ctx.model_exe('model_c06')], text)
    for l in impl:
        w = l.split()
        if w and w[0] in 'LF':
            ctx.count('result:%s:%s' % (w[0], 'err' if 'err:' in l else ('0' if w[1] == '0' else 'n')))
        if 'STALE' in l:
            ctx.count('result:o5m-stale-window')

    mon_text = '\n'.join(o for _, _, o in mon) + '\n'
    rc, mon_out, se = ctx.run_lines([hbin, scratch], mon_text)
    if rc != 0 or len(mon_out) != len(mon):
        ctx.violation('harness-crash', 'harness exited %d in reader monitor: %s' % (rc, se[-500:]), {'kind': 'harness-crash', 'stderr': se[-2000:]}, found_input=False)
        return

    # ---------------------------------------------------------------- property monitor: chunking-independence of the Reader
    groups = {}
    for (fmt, data, op), out in zip(mon, mon_out):
        groups.setdefault((fmt, data), []).append((op, out))
        ctx.count('reader-result:%s:%s' % (fmt, out.split(':')[0].split()[0]))
    reported = set()
    for (fmt, data), rs in groups.items():
        ref_op, ref = rs[0]
        for op, out in rs[1:]:
            if op.startswith('fifo ') and out.startswith('err:') and ref.startswith('err:'):
                # the fd path words some errors differently: compare the exception class only
                if out.split(':')[1] == ref.split(':')[1]:
                    continue
            if out != ref:
                if fmt == 'o5m':
                    key = 'o5m-chunk-dependent'
                else:
                    key = '%s-chunk-dependent:%s' % (fmt, hx(data)[:40])
                if key in reported:
                    continue
                reported.add(key)
                ctx.violation(key, 'Reader result depends on chunking for a %d-byte %s stream: `%s` -> %s but `%s` -> %s'
                              % (len(data), fmt, ref_op[:200], ref, op[:200], out),
                              {'kind': 'counterexample', 'ops': [ref_op, op], 'results': [ref, out], 'replay': 'feed the two op lines to the c06 harness'})
                break
    # o5m: a file that is a valid o5m stream must not be rejected just because it is short (the stale-window defect F6)
    for data in files['o5m']:
        rs = groups.get(('o5m', data))
        if rs and any(out.startswith('err:') for _, out in rs):
            op, out = [(o, r) for o, r in rs if r.startswith('err:')][0]
            ctx.violation('o5m-short-file-rejected', 'a valid %d-byte o5m file is rejected: `%s` -> %s' % (len(data), op[:200], out),
                          {'kind': 'counterexample', 'ops': [op], 'results': [out]})
            break

    # ---------------------------------------------------------------- correspondence
    if model is not None:
        dis = ctx.diff_streams('c06-model-vs-impl', ops, impl, model)
        stale = [d for d in dis if 'STALE' in d[2]]
        other = [d for d in dis if 'STALE' not in d[2]]
        if stale:
            i, op, a, b = stale[0]
            ctx.violation('o5m-stale-window', 'O5mParser::ensure_bytes_available returns false leaving m_data/m_end pointing outside m_input (%d cases; first `%s`: %s)'
                          % (len(stale), op[:160], a[-80:]), {'kind': 'counterexample', 'ops': [op], 'impl': a, 'model': b})
        if other and not [v for v in ctx.violations if v.found_input and not v.key.startswith('o5m-stale')]:
            i, op, a, b = other[0]
            ctx.violation('correspondence:' + op.split()[0], 'model and implementation disagree (%d lines; first `%s`: impl=%s model=%s); no chunk-dependence of the Reader was observed'
                          % (len(other), op[:160], a[:160], b[:160]),
                          {'kind': 'broken-correspondence', 'stream': 'c06-model-vs-impl', 'first': other[:5]}, found_input=False)
    else:
        ctx.violation('model-driver-build', 'model driver does not build', {'kind': 'broken-correspondence'}, found_input=False)
