"""C06 — parse result is independent of how the input byte stream is chunked (DESIGN.md §3 C06).

1. proof stage: lean/Osmium/Props/C06.lean — for ALL chunkings (lists of non-empty chunks):
   OPL line_by_line = split of the concatenation; PBF framing, the o5m window/dataset loop and
   the XML feed depend only on the concatenation.
2. correspondence (harness/c06.cpp, built with -fno-access-control): the REAL line_by_line,
   the REAL PBFParser framing functions, the REAL O5mParser::ensure_bytes_available driven with
   the call pattern of decode_data, vs the compiled Lean model, on the same (bytes, cuts).
3. property monitor on the implementation alone: the whole Reader behind a mock Decompressor
   that hands out caller-chosen pieces; every chunking of the same bytes (valid files and every
   truncation) must give the identical header+objects digest or the identical error.
4. long records (`_long_records`): the same three things for records that are LONGER than every
   buffer / piece size / plausible limit of the code: OPL lines of 64 KiB … 4 MiB (around 2^16,
   2^20, 2^20+1, 2^21), PBF blobs, o5m datasets and XML elements of 1 … 4 MiB, delivered in one
   piece and in pieces of 7, 100, 4096, 10240, 65536, 1000000, 2^20 bytes (+ shifted grids), so
   that the record spans 1, 2, 3, … 600000 pieces; also through a FIFO (64 KiB pipe reads) and
   as a plain file (default 1 MiB reads).  Files are synthesized deterministically from a small
   spec (`python3 tools/props/c06.py regen '<spec>' <out>` rebuilds the bytes of a replay) and
   handed to harness and model by path (`@file`), results are compared as (length, FNV-64) digests.
"""
import binascii
import json
import os
import re
import sys

if __name__ == '__main__':
    sys.path.insert(0, os.path.dirname(os.path.dirname(os.path.abspath(__file__))))
import vlib


def hx(b):
    return binascii.hexlify(bytes(b)).decode() or '-'


def varint(n):
    out = bytearray()
    while n >= 0x80:
        out.append((n & 0x7f) | 0x80)
        n >>= 7
    out.append(n)
    return bytes(out)


def zz(x):
    return varint((x << 1) if x >= 0 else ((-x) << 1) - 1)


def pb_field(tag, wt, payload):
    if wt == 0:
        return varint(tag << 3) + varint(payload)
    return varint((tag << 3) | 2) + varint(len(payload)) + payload


def pbf_frame(btype, blob, indexdata=None, datasize=None, extra=b''):
    hdr = pb_field(1, 2, btype)
    if indexdata is not None:
        hdr += pb_field(2, 2, indexdata)
    hdr += pb_field(3, 0, len(blob) if datasize is None else datasize)
    hdr += extra
    return len(hdr).to_bytes(4, 'big') + hdr + blob


def o5m_file(rng, nnodes, nways, trailing=b'\xfe', big=False):
    """A small o5m file (independent encoder written from the format description) and the
    ensure/advance script decode_data performs on it."""
    out = bytearray(b'\xff\xe0\x04o5m2')
    script = ['e7', 'a7']
    last_id = 0
    lon = lat = 0

    def dataset(t, payload):
        nonlocal out, script
        ln = varint(len(payload))
        out += bytes([t]) + ln + payload
        script += ['e1', 'a1', 'e10', 'a%d' % len(ln), 'e%d' % len(payload), 'a%d' % len(payload)]

    for _ in range(nnodes):
        nid = last_id + 1 + rng.below(5)
        p = zz(nid - last_id) + b'\x00'
        last_id = nid
        nlon, nlat = rng.below(1000) - 500, rng.below(1000) - 500
        p += zz(nlon - lon) + zz(nlat - lat)
        lon, lat = nlon, nlat
        for _ in range(rng.below(3)):
            p += b'\x00' + rng.choice([b'highway', b'name', b'k']) + b'\x00' + rng.choice([b'v', b'residential', b'']) + b'\x00'
        if big and rng.chance(1, 2):
            # a dataset of >= 128 bytes: its length is a multi-byte varint that a cut can split
            p += b'\x00note\x00' + bytes(97 + rng.below(26) for _ in range(130 + rng.below(200))) + b'\x00'
        dataset(0x10, p)
        if rng.chance(1, 6):
            out += b'\xff'
            script += ['e1', 'a1']
            last_id = 0
            lon = lat = 0
    last_id = 0
    last_ref = 0
    for _ in range(nways):
        wid = last_id + 1 + rng.below(5)
        p = zz(wid - last_id) + b'\x00'
        last_id = wid
        refs = b''
        for _ in range(rng.below(4) + (70 + rng.below(60) if big and rng.chance(1, 2) else 0)):
            r = 1 + rng.below(50)
            refs += zz(r - last_ref)
            last_ref = r
        p += varint(len(refs)) + refs
        dataset(0x11, p)
    for b in trailing:
        out += bytes([b])
        script += ['e1', 'a1']
    script += ['e1']
    return bytes(out), script


def cut_sets(rng, n, quick, exhaustive_pairs_upto):
    """chunkings of an n-byte stream: none, fixed sizes, every single cut, (pairs), random"""
    cs = [[]]
    for k in (1, 2, 3, 5, 7):
        if k < n:
            cs.append(list(range(k, n, k)))
    if n <= 400:
        cs += [[i] for i in range(1, n)]
    else:
        cs += [[1 + rng.below(n - 1)] for _ in range(60)]
    if n <= exhaustive_pairs_upto:
        cs += [[i, j] for i in range(1, n) for j in range(i + 1, n)]
    for _ in range(6 if quick else 40):
        k = 1 + rng.below(6)
        cs.append(sorted({1 + rng.below(max(n - 1, 1)) for _ in range(k)}))
    return [c for c in cs if all(0 < x < n for x in c)]


def cuts_str(c):
    return ','.join(map(str, c)) if c else '-'


def run(ctx):
    rng = ctx.rng
    quick = ctx.tier == 'quick'
    ctx.rule = ('each case = (format, byte stream, chunking); streams: generated valid files in 4 formats (real Writer for OPL/XML/PBF, '
                'independent o5m encoder), every truncation of the small ones, hand-built PBF framings (indexdata, wrong/prefix types, '
                'oversize headers, zero/negative datasize), OPL line soups; chunkings: none, fixed sizes 1,2,3,5,7, every single cut, '
                'every pair of cuts for short streams, random multi-cuts. distinct = distinct op lines; a case is non-trivial if it has at least one cut. '
                'LONG RECORDS (ops long-*): synthesized files with one record of 64 KiB … 5 MiB (OPL way lines of exactly 2^16, 2^20, 2^20+1, 2^21, ~1.3 MiB, … bytes at '
                'varying offsets, terminated by LF / CR / CRLF / EOF; o5m way datasets; PBF blobs and XML elements written by the real Writer; one truncation inside the '
                'record) x segmentations: one piece, fixed pieces of 7, 100, 4096, 10240, 65536, 1000000, 2^20 bytes, shifted grids %k+o, a boundary exactly at / one byte '
                'into the record, 2-3 explicit cuts inside the record, a FIFO (64 KiB pipe reads), the plain file (default 1 MiB reads); histogram long:<fmt>:record=<length '
                'class>:pieces=<number of pieces the record spans>; results compared as (length, FNV-64) digests: real line_by_line / PBF framing / o5m window vs the '
                'linear-time twins of the model (proved equal to the specified functions), every segmentation vs the one-piece run, OPL lines vs a Python split oracle')
    ctx.assumptions += ['expat: XML_Parse is chunk-invariant (the XML clause is proved for the feed loop only: same bytes, one final call)',
                        'input contract of C09: chunks arrive in order, non-empty, followed by one end marker']

    ex = read_exits(ctx)
    if ex is not None:
        write_exits_lean(ex)
    ctx.trusted.append('the exits table of the carry-over functions (Generated/C06Exits.lean) is read off the source text by anchored '
                       'regular expressions (function signature, brace matching, `throw`, max_* identifiers, numeric literals)')
    ctx.proof_stage(exes=['model_c06'])

    hbin, err = vlib.build_cpp('c06', ['c06.cpp'], flags=['-fno-access-control'])
    if hbin is None:
        ctx.violation('harness-build', 'harness does not compile against the current tree: ' + err[-600:],
                      {'kind': 'harness-build', 'stderr': err}, found_input=False)
        return
    scratch = os.path.join(vlib.BUILD, 'c06-%d' % os.getpid())
    os.makedirs(scratch, exist_ok=True)
    try:
        if getattr(ctx, 'replay', None):
            # replay mode: re-run the op lines of a replay file on the real code (long-record replays carry the
            # spec of the file instead of its bytes: the file is rebuilt first)
            with open(ctx.replay) as f:
                rp = json.load(f)
            rops = list(rp.get('ops', []))
            if 'spec' in rp:
                path = os.path.join(scratch, 'replay.' + rp['spec']['fmt'])
                write_long(rp['spec'], path, hbin, scratch)
                rops = [o.replace('<file>', path) for o in rops]
            rc, out, se = ctx.run_lines([hbin, scratch], '\n'.join(rops) + '\n')
            for o, r in zip(rops, out):
                vlib.log('replay `%s` -> impl: %s' % (o[:200], r[:300]))
            return
        _run(ctx, rng, quick, hbin, scratch)
    finally:
        for f in os.listdir(scratch):
            os.remove(os.path.join(scratch, f))
        os.rmdir(scratch)


def _run(ctx, rng, quick, hbin, scratch):
    # ---------------------------------------------------------------- streams
    gen_ops = []
    for fmt in ('opl', 'xml', 'pbf'):
        for n in ((0, 1, 3, 6) if quick else (0, 1, 2, 3, 6, 12, 40)):
            gen_ops.append('gen %s %d %d' % (fmt, n, rng.below(1 << 30)))
    rc, gen_out, se = ctx.run_lines([hbin, scratch], '\n'.join(gen_ops) + '\n')
    files = {'opl': [], 'xml': [], 'pbf': [], 'o5m': []}
    for op, h in zip(gen_ops, gen_out):
        if rc != 0 or h.startswith('exception') or h == 'bad-op':
            ctx.violation('gen-failed:' + op, 'the real Writer failed to produce a test file: ' + h[:200], {'kind': 'harness', 'op': op}, found_input=False)
            return
        files[op.split()[1]].append(bytes.fromhex(h) if h != '-' else b'')
    # XML changesets with discussions (hand-written: character data inside <text> arrives through
    # expat's character callback, possibly in several pieces — seed C06-4), and an OPL changeset file
    files['xml'].append((
        "<?xml version='1.0' encoding='UTF-8'?>\n<osm version=\"0.6\" generator=\"c06\">\n"
        " <changeset id=\"15\" created_at=\"2020-01-01T00:00:00Z\" closed_at=\"2020-01-01T01:00:00Z\" open=\"false\" user=\"u &amp; v\" uid=\"1\" "
        "min_lat=\"1\" min_lon=\"2\" max_lat=\"3\" max_lon=\"4\" num_changes=\"2\" comments_count=\"2\">\n"
        "  <tag k=\"comment\" v=\"x y\"/>\n  <discussion>\n"
        "   <comment date=\"2020-01-02T00:00:00Z\" uid=\"2\" user=\"bob\">\n    <text>Did you really walk this way</text>\n   </comment>\n"
        "   <comment date=\"2020-01-03T00:00:00Z\" uid=\"3\" user=\"eve\">\n    <text>yes &amp; no</text>\n   </comment>\n"
        "  </discussion>\n </changeset>\n"
        " <changeset id=\"16\" created_at=\"2020-01-05T00:00:00Z\" open=\"true\" user=\"w\" uid=\"9\" num_changes=\"0\" comments_count=\"1\">\n"
        "  <discussion>\n   <comment date=\"2020-01-06T00:00:00Z\" uid=\"2\" user=\"bob\">\n    <text>plain single line text of some length</text>\n   </comment>\n  </discussion>\n"
        " </changeset>\n</osm>\n").encode())
    files['opl'].append(b'c15 k2 s2020-01-01T00:00:00Z e2020-01-01T01:00:00Z d2 i1 uu%20%v x2 y1 X4 Y3 Tcomment=x%20%y\nc16 k0 s2020-01-05T00:00:00Z e d1 i9 uw x y X Y T\n')
    o5m_scripts = {}
    for (nn, nw, tr) in [(0, 0, b'\xfe'), (1, 0, b'\xfe'), (1, 0, b''), (2, 1, b'\xfe'), (3, 2, b'\xfe\xfe'), (1, 0, b'\xfe' * 12), (6, 3, b'\xfe')] + \
            ([] if quick else [(20, 10, b'\xfe'), (2, 2, b''), (5, 0, b'\xfe' * 3)]):
        data, script = o5m_file(rng, nn, nw, tr)
        files['o5m'].append(data)
        o5m_scripts[data] = script
    for (nn, nw) in [(2, 0), (1, 2), (3, 2)] + ([] if quick else [(6, 4), (10, 10)]):
        data, script = o5m_file(rng, nn, nw, b'\xfe', big=True)
        files['o5m'].append(data)
        o5m_scripts[data] = script
    # the 17-byte file of DESIGN.md F6
    f6 = bytes.fromhex('ffe0046f356d32100702008080028002fe')
    files['o5m'].append(f6)
    o5m_scripts[f6] = ['e7', 'a7', 'e1', 'a1', 'e10', 'a1', 'e7', 'a7', 'e1', 'a1', 'e1']

    ops = []          # model-vs-impl ops
    mon = []          # impl-only reader ops, grouped by (fmt, data)

    # ---- OPL line_by_line
    opl_streams = list(files['opl'])
    alphabet = [b'n1', b' ', b'v2', b'\n', b'\r', b'\n', b'x', b'\r\n', b'w5 Nn1,n2', b'\n\n']
    for _ in range(40 if quick else 400):
        s = b''.join(rng.choice(alphabet) for _ in range(1 + rng.below(10)))
        opl_streams.append(s)
    opl_streams += [b'', b'\n', b'\r', b'a', b'a\n', b'\na', b'a\r\nb', b'a\n\rb\n']
    for s in opl_streams:
        for c in cut_sets(rng, len(s), quick, 24 if quick else 60):
            ops.append('opl %s %s' % (cuts_str(c), hx(s)))
    # ---- PBF framing
    pbf_streams = list(files['pbf'])
    blob = bytes(rng.below(256) for _ in range(20))
    h1 = pbf_frame(b'OSMHeader', blob)
    d1 = pbf_frame(b'OSMData', blob[:7], indexdata=b'\x01' * 150)          # header length 166 (> 127: F5 territory)
    d2 = pbf_frame(b'OSMData', blob[3:], extra=pb_field(9, 0, 77) + pb_field(10, 2, b'zz'))
    pbf_streams += [h1 + d1 + d2, h1 + d2 + d1, h1, h1 + d1[:9], h1 + d2 + b'\x00\x00', h1 + pbf_frame(b'OSMHeader', blob),
                    pbf_frame(b'OSMData', blob), h1 + pbf_frame(b'OSMD', blob), h1 + pbf_frame(b'', blob),
                    h1 + pbf_frame(b'OSMData', blob, datasize=0), h1 + pbf_frame(b'OSMData', blob, datasize=0xffffffff),
                    h1 + pbf_frame(b'OSMData', blob, datasize=33 * 1024 * 1024 + 1),
                    h1 + (70000).to_bytes(4, 'big') + b'x' * 10, h1 + pbf_frame(b'OSMDataX', blob), b'', b'\x00', b'\x00\x00\x00']
    for s in list(pbf_streams[-17:]):
        for k in range(0, len(s), max(1, len(s) // (12 if quick else 40))):
            pbf_streams.append(s[:k])
    for s in pbf_streams:
        for c in cut_sets(rng, len(s), quick, 0 if quick else 40)[:(40 if quick else 400)]:
            ops.append('pbf %s %s' % (cuts_str(c), hx(s)))
    # ---- o5m window
    for data, script in o5m_scripts.items():
        for k in sorted({len(data)} | {rng.below(len(data) + 1) for _ in range(3 if quick else 12)}):
            d = data[:k]
            for c in cut_sets(rng, len(d), quick, 20 if quick else 48):
                ops.append('o5m %s %s %s' % (cuts_str(c), ','.join(script), hx(d)))
    for _ in range(150 if quick else 2000):
        d = bytes(rng.below(256) for _ in range(rng.below(40)))
        script = ','.join(rng.choice(['e1', 'e7', 'e10', 'e3', 'e%d' % rng.below(45), 'a1', 'a2', 'a%d' % rng.below(12)]) for _ in range(1 + rng.below(12)))
        for c in cut_sets(rng, len(d), quick, 0)[:12]:
            ops.append('o5m %s %s %s' % (cuts_str(c), script, hx(d)))

    # ---- whole-Reader monitor: valid files + truncations x chunkings
    for fmt in ('opl', 'xml', 'pbf', 'o5m'):
        for data in files[fmt]:
            variants = [data]
            if len(data) <= (600 if quick else 3000):
                step = max(1, len(data) // (10 if quick else 60))
                variants += [data[:k] for k in range(0, len(data), step)]
            if fmt == 'o5m' and len(data) <= 40:
                variants += [data[:k] for k in range(len(data))]
            for v in variants:
                cs = cut_sets(rng, len(v), quick, 14 if quick else 40)
                if len(cs) > (30 if quick else 300):
                    head = cs[:8]
                    tail = cs[8:]
                    rng.shuffle(tail)
                    cs = head + tail[:(22 if quick else 292)]
                for c in cs:
                    mon.append((fmt, v, 'reader %s %s %s' % (fmt, cuts_str(c), hx(v))))
            # the same bytes through a FIFO (real NoDecompressor / PBF fd path): the writer pauses
            # between the pieces, so read(2) returns short counts in mid-stream (seed C06-3)
            fifo_variants = [data] + ([data[:len(data) * 2 // 3]] if len(data) > 30 else [])
            for v in fifo_variants:
                for _ in range(2 if quick else 6):
                    k = 1 + rng.below(6)
                    c = sorted(set(1 + rng.below(max(1, len(v) - 1)) for _ in range(k))) if len(v) > 1 else []
                    mon.append((fmt, v, 'fifo %s %s %s' % (fmt, cuts_str(c), hx(v))))

    # ---------------------------------------------------------------- run
    for o in ops:
        ctx.note_case(o, nontrivial=' - ' not in o)
        ctx.count('op:' + o.split()[0])
    for _, _, o in mon:
        ctx.note_case(o, nontrivial=' - ' not in o)
        ctx.count('op:%s-%s' % (o.split()[0], o.split()[1]))
    ctx.sample(ops[3][:300])
    ctx.sample([o for o in ops if o.startswith('pbf')][5][:300])
    ctx.sample([o for o in ops if o.startswith('o5m')][5][:300])
    ctx.sample(mon[len(mon) // 2][2][:300])

    text = '\n'.join(ops) + '\n'
    rc, impl, se = ctx.run_lines([hbin, scratch], text)
    if rc != 0:
        ctx.violation('harness-crash', 'harness exited %d: %s' % (rc, se[-500:]), {'kind': 'harness-crash', 'stderr': se[-2000:]}, found_input=False)
        return
    model = None
    if ctx.exe_build_ok:
        rc, model, se = ctx.run_lines([ctx.model_exe('model_c06')], text)
    for l in impl:
        w = l.split()
        if w and w[0] in 'LF':
            ctx.count('result:%s:%s' % (w[0], 'err' if 'err:' in l else ('0' if w[1] == '0' else 'n')))
        if 'STALE' in l:
            ctx.count('result:o5m-stale-window')

    mon_text = '\n'.join(o for _, _, o in mon) + '\n'
    rc, mon_out, se = ctx.run_lines([hbin, scratch], mon_text)
    if rc != 0 or len(mon_out) != len(mon):
        ctx.violation('harness-crash', 'harness exited %d in reader monitor: %s' % (rc, se[-500:]), {'kind': 'harness-crash', 'stderr': se[-2000:]}, found_input=False)
        return

    # ---------------------------------------------------------------- property monitor: chunking-independence of the Reader
    groups = {}
    for (fmt, data, op), out in zip(mon, mon_out):
        groups.setdefault((fmt, data), []).append((op, out))
        ctx.count('reader-result:%s:%s' % (fmt, out.split(':')[0].split()[0]))
    reported = set()
    for (fmt, data), rs in groups.items():
        ref_op, ref = rs[0]
        for op, out in rs[1:]:
            if op.startswith('fifo ') and out.startswith('err:') and ref.startswith('err:'):
                # the fd path words some errors differently: compare the exception class only
                if out.split(':')[1] == ref.split(':')[1]:
                    continue
            if out != ref:
                if fmt == 'o5m':
                    key = 'o5m-chunk-dependent'
                else:
                    key = '%s-chunk-dependent:%s' % (fmt, hx(data)[:40])
                if key in reported:
                    continue
                reported.add(key)
                ctx.violation(key, 'Reader result depends on chunking for a %d-byte %s stream: `%s` -> %s but `%s` -> %s'
                              % (len(data), fmt, ref_op[:200], ref, op[:200], out),
                              {'kind': 'counterexample', 'ops': [ref_op, op], 'results': [ref, out], 'replay': 'feed the two op lines to the c06 harness'})
                break
    # o5m: a file that is a valid o5m stream must not be rejected just because it is short (the stale-window defect F6)
    for data in files['o5m']:
        rs = groups.get(('o5m', data))
        if rs and any(out.startswith('err:') for _, out in rs):
            op, out = [(o, r) for o, r in rs if r.startswith('err:')][0]
            ctx.violation('o5m-short-file-rejected', 'a valid %d-byte o5m file is rejected: `%s` -> %s' % (len(data), op[:200], out),
                          {'kind': 'counterexample', 'ops': [op], 'results': [out]})
            break

    # ---------------------------------------------------------------- correspondence
    if model is not None:
        dis = ctx.diff_streams('c06-model-vs-impl', ops, impl, model)
        stale = [d for d in dis if 'STALE' in d[2]]
        other = [d for d in dis if 'STALE' not in d[2]]
        if stale:
            i, op, a, b = stale[0]
            ctx.violation('o5m-stale-window', 'O5mParser::ensure_bytes_available returns false leaving m_data/m_end pointing outside m_input (%d cases; first `%s`: %s)'
                          % (len(stale), op[:160], a[-80:]), {'kind': 'counterexample', 'ops': [op], 'impl': a, 'model': b})
        if other and not [v for v in ctx.violations if v.found_input and not v.key.startswith('o5m-stale')]:
            i, op, a, b = other[0]
            ctx.violation('correspondence:' + op.split()[0], 'model and implementation disagree (%d lines; first `%s`: impl=%s model=%s); no chunk-dependence of the Reader was observed'
                          % (len(other), op[:160], a[:160], b[:160]),
                          {'kind': 'broken-correspondence', 'stream': 'c06-model-vs-impl', 'first': other[:5]}, found_input=False)
    else:
        ctx.violation('model-driver-build', 'model driver does not build', {'kind': 'broken-correspondence'}, found_input=False)

    _long_records(ctx, rng, quick, hbin, scratch)


# ==================================================================== exits of the carry-over code, read off the source
# (-> lean/Osmium/Generated/C06Exits.lean; `carry_over_exits_modelled` in Props/C06.lean compares it with the
# outcomes the model has).  The carry-over functions are outside the subset of tools/cxx2lean.py (std::string
# locals with find_first_of / append / assign / erase, a pointer into the string, a template worker), so they are
# tied by execution (correspondence streams) — this table adds a static tie for what execution on ordinary inputs
# cannot see: a NEW way out of the function (a `throw`), a NEW named limit (`max_…`) or a NEW numeric constant
# (anything but 0 and 1) in code whose model has no length-dependent branch.
CARRY_OVER = [
    # (header, name in the table, regex of the signature up to and including the opening brace)
    ('io/detail/opl_input_format.hpp', 'line_by_line', r'void\s+line_by_line\s*\(\s*T\s*&\s*\w+\s*\)\s*\{'),
    ('io/detail/pbf_input_format.hpp', 'PBFParser::ensure_available_in_input_queue', r'void\s+ensure_available_in_input_queue\s*\(\s*(?:std::)?size_t\s+\w+\s*\)\s*\{'),
    ('io/detail/pbf_input_format.hpp', 'PBFParser::pop_from_input_queue', r'void\s+pop_from_input_queue\s*\(\s*(?:std::)?size_t\s+\w+\s*\)\s*\{'),
    ('io/detail/pbf_input_format.hpp', 'PBFParser::read_blob_header_size_from_file', r'uint32_t\s+read_blob_header_size_from_file\s*\(\s*\)\s*\{'),
    ('io/detail/pbf_input_format.hpp', 'PBFParser::check_type_and_get_blob_size', r'size_t\s+check_type_and_get_blob_size\s*\(\s*const\s+char\s*\*\s*\w+\s*\)\s*\{'),
    ('io/detail/pbf_input_format.hpp', 'PBFParser::read_from_input_queue_with_check', r'std::string\s+read_from_input_queue_with_check\s*\(\s*(?:std::)?size_t\s+\w+\s*\)\s*\{'),
    ('io/detail/o5m_input_format.hpp', 'O5mParser::ensure_bytes_available', r'bool\s+ensure_bytes_available\s*\(\s*(?:std::)?size_t\s+\w+\s*\)\s*\{'),
    ('io/detail/xml_input_format.hpp', 'XMLParser::run', r'void\s+run\s*\(\s*\)\s*(?:override|final)\s*\{'),
]


def strip_cpp_comments(text):
    text = re.sub(r'/\*.*?\*/', ' ', text, flags=re.S)
    return re.sub(r'//[^\n]*', '', text)


def func_body(text, sig_re):
    ms = list(re.finditer(sig_re, text))
    if len(ms) != 1:
        return None
    i = ms[0].end() - 1
    depth = 0
    for j in range(i, len(text)):
        if text[j] == '{':
            depth += 1
        elif text[j] == '}':
            depth -= 1
            if depth == 0:
                return text[i + 1:j]
    return None


def read_exits(ctx):
    """-> (throws, limits, constants): lists of (function, text), or None (refused)"""
    inc = os.path.join(vlib.REPO, 'include', 'osmium')
    throws, limits, consts = [], [], []
    missing = []
    for rel, name, sig in CARRY_OVER:
        try:
            with open(os.path.join(inc, rel)) as f:
                text = strip_cpp_comments(f.read())
        except OSError:
            text = ''
        body = func_body(text, sig)
        if body is None:
            missing.append('%s:%s' % (rel, name))
            continue
        nostr = re.sub(r'"(?:[^"\\]|\\.)*"', '""', body)
        nostr = re.sub(r"'(?:[^'\\]|\\.)*'", "' '", nostr)
        for m in re.finditer(r'\bthrow\b\s*([\w:]*)', nostr):
            throws.append((name, m.group(1) or '<rethrow>'))
        for m in re.finditer(r'\b(max_\w+|\w+_max|\w*limit\w*)\b', nostr):
            if (name, m.group(1)) not in limits:
                limits.append((name, m.group(1)))
        for m in re.finditer(r'(?<![\w.])(0[xX][0-9a-fA-F]+|\d+)(?:[uUlL]*)\b', nostr):
            v = int(m.group(1), 0)
            if v > 1:
                consts.append((name, str(v)))
    if missing:
        ctx.violation('translator-failed:c06-exits', 'cannot find the carry-over functions in the source: ' + ', '.join(missing),
                      {'kind': 'translator-failed', 'missing': missing}, found_input=False)
        return None
    return throws, limits, consts


def write_exits_lean(ex):
    def lst(xs):
        if not xs:
            return '[]'
        return '[\n' + ',\n'.join('  ("%s", "%s")' % x for x in xs) + ']'
    throws, limits, consts = ex
    lines = ['/- GENERATED by tools/props/c06.py from /repo/include on every run (anchored source-text extraction over the',
             '   bodies of the carry-over functions: line_by_line, the PBFParser input-buffer functions,',
             '   O5mParser::ensure_bytes_available, XMLParser::run) — do not edit.  Core-only. -/',
             'namespace Osmium.Generated.C06Exits', '',
             '/-- every `throw` in a carry-over function: (function, exception class) in source order -/',
             'def throwSites : List (String × String) := ' + lst(throws), '',
             '/-- every named limit (`max_…`, `…limit…`) a carry-over function mentions -/',
             'def limits : List (String × String) := ' + lst(limits), '',
             '/-- every numeric constant other than 0 and 1 in a carry-over function -/',
             'def constants : List (String × String) := ' + lst(consts), '',
             'end Osmium.Generated.C06Exits', '']
    vlib.write_if_changed(os.path.join(vlib.LEAN, 'Osmium', 'Generated', 'C06Exits.lean'), '\n'.join(lines))


# ==================================================================== long records
KI = 1024
MI = 1024 * 1024
FNV_OFFSET = 1469598103934665603       # the harness's constant (harness/c06.cpp `fnv`)
FNV_PRIME = 1099511628211
M64 = (1 << 64) - 1
_fnv_cache = {}


def fnv(data):
    h = _fnv_cache.get(data)
    if h is None:
        h = FNV_OFFSET
        for b in data:
            h = ((h ^ b) * FNV_PRIME) & M64
        if len(data) > 64:
            _fnv_cache[data] = h
    return h


def dig(data):
    return '%d:%d' % (len(data), fnv(data))


def opl_long_way(wid, L):
    """a legal OPL way line of exactly L bytes (no line end): ~L/9 node refs"""
    head = b'w%d v1 dV c1 t2020-01-01T00:00:00Z i1 uu Thighway=x N' % wid
    body_len = L - len(head)
    assert body_len >= 8
    k = (body_len + 1) // 9            # k refs `n1234567` joined by commas = 9k - 1 bytes
    extra = (body_len + 1) % 9         # absorbed by the last ref (more digits)
    parts = []
    per_block = 1024
    tail_block = b','.join(b'n%d' % (1000000 + (i * 7919) % 8999999) for i in range(1, per_block))
    nblocks, rem = divmod(k - 1, per_block)
    for bi in range(nblocks):
        parts.append(b'n%d,' % (2000000 + bi) + tail_block)
    if rem:
        parts.append(b','.join(b'n%d' % (3000000 + i) for i in range(rem)))
    parts.append(b'n1' + b'0' * (6 + extra))
    line = head + b','.join(parts)
    assert len(line) == L, (len(line), L)
    return line


def opl_long_file(spec):
    """spec: {'fmt':'opl','len':L,'pre':approx prefix bytes,'term':'n'|'rn'|'r'|'eof','post':number of lines after}
    -> (bytes, record start, record end (incl. terminator), list of expected lines)"""
    lines = []
    out = bytearray()
    i = 0
    while len(out) < spec['pre']:
        i += 1
        l = b'n%d v1 dV c1 t2020-01-01T00:00:00Z i1 uu Tname=p%d x1.%d y2.%d' % (i, i, i % 97, i % 89)
        lines.append(l)
        out += l + (b'\r\n' if i % 5 == 0 else b'\n')
    start = len(out)
    long_line = opl_long_way(1000000 + i, spec['len'])
    lines.append(long_line)
    out += long_line
    term = {'n': b'\n', 'rn': b'\r\n', 'r': b'\r', 'eof': b''}[spec['term']]
    out += term
    end = len(out)
    if spec['term'] != 'eof':
        for j in range(spec.get('post', 2)):
            l = b'n%d v1 dV c1 t2020-01-01T00:00:00Z i1 uu T x3 y4' % (2000000 + j)
            lines.append(l)
            out += l + b'\n'
    return bytes(out), start, end, lines


def o5m_long_file(spec):
    """independent o5m encoder: a few nodes, ONE way whose dataset has ~len payload bytes, a small way.
    -> (bytes, script, record start, record end)"""
    out = bytearray(b'\xff\xe0\x04o5m2')
    script = ['e7', 'a7']
    pos = {}

    def dataset(t, payload, mark=False):
        nonlocal out
        ln = varint(len(payload))
        if mark:
            pos['start'] = len(out)
        out += bytes([t]) + ln + payload
        if mark:
            pos['end'] = len(out)
        script.extend(['e1', 'a1', 'e10', 'a%d' % len(ln), 'e%d' % len(payload), 'a%d' % len(payload)])

    last = 0
    lon = lat = 0
    for i in range(spec.get('nodes', 3)):
        nid = last + 1 + (i * 3) % 5
        p = zz(nid - last) + b'\x00' + zz(100 * i - lon) + zz(7 * i - lat) + b'\x00k\x00v\x00'
        last, lon, lat = nid, 100 * i, 7 * i
        dataset(0x10, p)
    # refs: deltas cycle through values that need 1..5 varint bytes
    deltas = [1, -1, 300, -70000, 1 << 21, -(1 << 28), 5, 1 << 34]
    enc = [zz(d) for d in deltas]
    cyc = b''.join(enc)
    n = spec['len'] // len(cyc)
    refs = cyc * n
    refs += b''.join(enc[:(spec['len'] - len(refs)) // 2])
    p = zz(7) + b'\x00' + varint(len(refs)) + refs + b'\x00highway\x00x\x00'
    dataset(0x11, p, mark=True)
    dataset(0x11, zz(1) + b'\x00' + varint(2) + zz(1) + zz(1))
    out += b'\xfe'
    script.extend(['e1', 'a1', 'e1'])
    return bytes(out), script, pos['start'], pos['end']


def pbf_frames_py(data):
    """(start, end) of every BlobHeader+Blob frame"""
    frames = []
    p = 0
    while p + 4 <= len(data):
        hl = int.from_bytes(data[p:p + 4], 'big')
        hdr = data[p + 4:p + 4 + hl]
        # datasize = field 3 varint
        q = 0
        ds = None
        while q < len(hdr):
            key = hdr[q]
            q += 1
            if key & 7 == 2:
                ln = 0
                sh = 0
                while True:
                    b = hdr[q]
                    q += 1
                    ln |= (b & 0x7f) << sh
                    sh += 7
                    if b < 0x80:
                        break
                q += ln
            else:
                v = 0
                sh = 0
                while True:
                    b = hdr[q]
                    q += 1
                    v |= (b & 0x7f) << sh
                    sh += 7
                    if b < 0x80:
                        break
                if key >> 3 == 3:
                    ds = v
        if ds is None:
            break
        frames.append((p, p + 4 + hl + ds))
        p += 4 + hl + ds
    return frames


def cuts_in(cuts, n, s, e):
    """number of pieces the byte range [s, e) of an n-byte stream spans under the segmentation `cuts`"""
    if cuts == '-':
        return 1
    if cuts.startswith('%'):
        k, _, o = cuts[1:].partition('+')
        k = int(k)
        first = int(o) if o and int(o) > 0 else k
        # cuts c = first + i*k, s < c < min(e, n)
        hi = min(e, n)
        if hi - 1 < first:
            return 1
        upto = (hi - 1 - first) // k + 1                       # cuts <= hi - 1
        below = 0 if s < first else (s - first) // k + 1       # cuts <= s
        return 1 + max(0, upto - below)
    return 1 + sum(1 for c in map(int, cuts.split(',')) if s < c < min(e, n))


def len_class(L):
    if L < 64 * KI:
        return '<64Ki'
    if L <= 64 * KI + 1:
        return '64Ki(+1)'
    if L < MI:
        return '64Ki..1Mi'
    if L == MI:
        return '1Mi'
    if L == MI + 1:
        return '1Mi+1'
    if L < 2 * MI:
        return '1Mi..2Mi'
    if L < 4 * MI:
        return '2Mi..4Mi'
    return '>=4Mi'


def pieces_class(k):
    if k <= 3:
        return str(k)
    if k <= 16:
        return '4-16'
    if k <= 256:
        return '17-256'
    if k <= 4096:
        return '257-4096'
    return '>4096'


STD_PIECES = ['%7', '%100', '%4096', '%10240', '%65536', '%1000000', '%1048576']


def write_long(spec, path, hbin=None, scratch=None):
    """build the file of a spec; returns dict(path, size, start, end, fmt, extra...) (None if it could not be built)"""
    fmt = spec['fmt']
    info = {'fmt': fmt, 'spec': spec, 'path': path}
    if fmt == 'opl':
        data, s, e, lines = opl_long_file(spec)
        info['lines'] = lines
    elif fmt == 'o5m':
        data, script, s, e = o5m_long_file(spec)
        info['script'] = script
    else:
        # pbf / xml: the real Writer (harness op genfile)
        rc, so, se = vlib.sh([hbin, scratch], input='genfile %s %s %d %d %s\n' % (fmt, spec['kind'], spec['n'], spec.get('seed', 1), path))
        if rc != 0 or not so.startswith('ok '):
            return None
        with open(path, 'rb') as f:
            data = f.read()
        if fmt == 'pbf':
            fr = pbf_frames_py(data)
            s, e = max(fr, key=lambda t: t[1] - t[0])
        else:
            tag = b'<way id="10"' if spec['kind'] == 'way' else b'<relation id="20"'
            close = b'</way>' if spec['kind'] == 'way' else b'</relation>'
            s = data.find(tag)
            e = data.find(close, s) + len(close)
    if 'trunc' in spec:
        # cut the file inside the long record (per mille of the record)
        data = data[:s + (e - s) * spec['trunc'] // 1000]
        e = len(data)
        if fmt == 'opl':
            # lines as the spec oracle sees them
            info['lines'] = [l for l in data.replace(b'\r', b'\n').split(b'\n') if l]
    if fmt in ('opl', 'o5m') or 'trunc' in spec:
        with open(path, 'wb') as f:
            f.write(data)
    info.update(size=len(data), start=s, end=e)
    # length of the record itself (an OPL line without its line end)
    info['reclen'] = (min(spec['len'], e - s) if fmt == 'opl' else e - s)
    return info


def _long_records(ctx, rng, quick, hbin, scratch):
    # ---------------------------------------------------------------- specs
    specs = []
    if quick:
        lens = [64 * KI, MI, MI + 1, 1363149, 2 * MI]
    else:
        lens = [64 * KI - 1, 64 * KI, 64 * KI + 1, 300000, MI - 1, MI, MI + 1, MI + 2, 1200000, 1363149, 2 * MI - 1, 2 * MI, 2 * MI + 1,
                3 * MI + 17, 4 * MI, 4 * MI + 4097, 5 * MI + 3] + [MI + 2 + rng.below(3 * MI) for _ in range(4)]
    terms = ['n', 'rn', 'eof', 'r']
    for i, L in enumerate(lens):
        pre = [0, 30, 900000, 5000, 70000, 1048000][(i + rng.below(6)) % 6] if not quick or i != 0 else 0
        specs.append({'fmt': 'opl', 'len': L, 'pre': pre, 'term': terms[(i + rng.below(2)) % 4], 'post': 1 + rng.below(3)})
    specs.append({'fmt': 'opl', 'len': 1363149, 'pre': 900000, 'term': 'n', 'post': 2, 'trunc': 300 + rng.below(600)})
    if not quick:
        specs.append({'fmt': 'opl', 'len': 2 * MI + 5, 'pre': 17, 'term': 'n', 'post': 2, 'trunc': 990})
    for L in ([1200000] if quick else [70000, MI + 1, 1300000, 2 * MI + 3, 4 * MI + 100]):
        specs.append({'fmt': 'o5m', 'len': L, 'nodes': 1 + rng.below(5)})
    if not quick:
        specs.append({'fmt': 'o5m', 'len': 1100000, 'nodes': 2, 'trunc': 100 + rng.below(800)})
    for (kind, n) in ([('way', 200000)] if quick else [('way', 200000), ('rel', 200000), ('way', 400000), ('way', 720000), ('rel', 12000)]):
        specs.append({'fmt': 'pbf', 'kind': kind, 'n': n, 'seed': 1 + rng.below(1000)})
    specs.append({'fmt': 'pbf', 'kind': 'way', 'n': 190000, 'seed': 1 + rng.below(1000), 'trunc': 100 + rng.below(800)})
    for (kind, n) in ([('way', 40000)] if quick else [('way', 40000), ('way', 200000), ('rel', 60000)]):
        specs.append({'fmt': 'xml', 'kind': kind, 'n': n, 'seed': 1 + rng.below(1000)})
    if not quick:
        specs.append({'fmt': 'xml', 'kind': 'way', 'n': 38000, 'seed': 1 + rng.below(1000), 'trunc': 100 + rng.below(800)})

    # ---------------------------------------------------------------- files and ops
    ops = []      # (op, info, cuts)  model-vs-impl (oplx / pbfx / o5mx)
    mon = []      # (op, info, cuts)  Reader monitor (reader / fifo / file)
    infos = []
    for i, spec in enumerate(specs):
        path = os.path.join(scratch, 'long%d.%s' % (i, spec['fmt']))
        info = write_long(spec, path, hbin, scratch)
        if info is None:
            ctx.violation('gen-failed:long:' + spec['fmt'], 'the real Writer failed to produce the long-record file %s' % json.dumps(spec),
                          {'kind': 'harness', 'spec': spec}, found_input=False)
            continue
        infos.append(info)
        fmt, n, s, e = info['fmt'], info['size'], info['start'], info['end']
        rec = e - s
        pieces = list(STD_PIECES)
        # shifted grids: the record starts / ends at other places of a piece
        for _ in range(2 if quick else 5):
            k = rng.choice([4096, 10240, 65536, 1000000, MI, 1 + rng.below(2 * MI)])
            pieces.append('%%%d+%d' % (k, 1 + rng.below(k)))
        # a piece boundary exactly at the start / one byte into the record, then 1 MiB pieces
        if s > 0:
            pieces.append('%%%d+%d' % (MI, s))
        pieces.append('%%%d+%d' % (MI, s + 1))
        # two / three explicit cuts inside the record: record spans exactly 3 (4) pieces, the middle one(s) of any size
        if rec > 10:
            c1 = s + 1 + rng.below(rec // 2)
            c2 = c1 + 1 + rng.below(e - c1 - 1) if e - c1 > 2 else c1 + 1
            pieces.append('%d,%d' % (c1, c2))
            pieces.append(','.join(map(str, sorted({s + 1 + rng.below(rec - 1) for _ in range(3)}))))
        if quick:
            # a handful per file: one piece, three of the standard sizes (rotating, so that every size occurs on
            # some file; 7-byte pieces on one OPL file only), one shifted grid, the boundary one byte into
            # the record, two explicit cuts inside the record
            std = [STD_PIECES[(i + j) % len(STD_PIECES)] for j in (1, 3, 5)]
            if fmt == 'opl' and i == 3:
                std.append('%7')
            pieces = [p for p in pieces if (p in std) or (p not in STD_PIECES)]
            pieces = [p for p in pieces if p != '%7' or (fmt == 'opl' and i == 3)]
        xop = {'opl': 'oplx', 'pbf': 'pbfx', 'o5m': 'o5mx'}.get(fmt)
        for c in ['-'] + pieces:
            if xop == 'o5mx':
                ops.append(('o5mx %s %s @%s' % (c, ','.join(info['script']), path), info, c))
            elif xop:
                ops.append(('%s %s @%s' % (xop, c, path), info, c))
            if c == '%7' and n > 3 * MI:
                continue                                       # > 400000 queue items per run: keep for the direct ops only
            mon.append(('reader %s %s @%s' % (fmt, c, path), info, c))
        mon.append(('fifo %s - @%s' % (fmt, path), info, '%65536'))          # pipe: read(2) returns at most 64 KiB
        if not quick:
            mon.append(('fifo %s %%300000 @%s' % (fmt, path), info, '%65536'))
        mon.append(('file %s @%s' % (fmt, path), info, '%1048576'))          # plain file: default input_buffer_size reads

    for op, info, c in ops + mon:
        w = op.split()
        generic = ' '.join(x for x in w if not x.startswith('@')) + ' ' + json.dumps(info['spec'], sort_keys=True)
        ctx.note_case(generic, nontrivial=(c != '-'))
        ctx.count('op:long-%s%s' % (w[0], '-' + w[1] if w[0] in ('reader', 'fifo', 'file') else ''))
        k = cuts_in(c, info['size'], info['start'], info['end'])
        ctx.count('long:%s:record=%s:pieces=%s' % (info['fmt'], len_class(info['reclen']), pieces_class(k)))
    if ops:
        ctx.sample(ops[len(ops) // 3][0].split('@')[0] + json.dumps(ops[len(ops) // 3][1]['spec'], sort_keys=True))

    def replay_of(info, oplist):
        return {'kind': 'counterexample', 'spec': info['spec'], 'ops': [o.replace(info['path'], '<file>') for o in oplist],
                'replay': "python3 tools/props/c06.py regen '%s' /verif/.build/c06-replay.bin ; then feed the op lines (with <file> = that path) to the c06 harness"
                          % json.dumps(info['spec'], sort_keys=True)}

    def short(op, info):
        return op.replace('@' + info['path'], '@<%s>' % json.dumps(info['spec'], sort_keys=True))

    # ---------------------------------------------------------------- run
    import time
    t0 = time.time()
    text = '\n'.join(o for o, _, _ in ops) + '\n'
    rc, impl, se = ctx.run_lines([hbin, scratch], text)
    if rc != 0 or len(impl) != len(ops):
        ctx.violation('harness-crash', 'harness exited %d on the long-record ops: %s' % (rc, se[-500:]), {'kind': 'harness-crash', 'stderr': se[-2000:]}, found_input=False)
        return
    model = None
    if ctx.exe_build_ok:
        rc, model, se = ctx.run_lines([ctx.model_exe('model_c06')], text)
        if rc != 0:
            ctx.violation('model-crash', 'model driver exited %d on the long-record ops: %s' % (rc, se[-300:]), {'kind': 'broken-correspondence', 'stderr': se[-2000:]}, found_input=False)
            model = None
    t1 = time.time()
    mon_text = '\n'.join(o for o, _, _ in mon) + '\n'
    rc, mon_out, se = ctx.run_lines([hbin, scratch], mon_text)
    ctx.extra['long_records'] = {'files': len(infos), 'direct_ops': len(ops), 'reader_ops': len(mon), 'direct_ops_impl_and_model_s': round(t1 - t0, 1), 'reader_monitor_s': round(time.time() - t1, 1)}
    if rc != 0 or len(mon_out) != len(mon):
        ctx.violation('harness-crash', 'harness exited %d in the long-record reader monitor: %s' % (rc, se[-500:]), {'kind': 'harness-crash', 'stderr': se[-2000:]}, found_input=False)
        return

    # ---------------------------------------------------------------- monitor 1: the carry-over functions themselves, impl only
    found = False
    by_file = {}
    for (op, info, c), out in zip(ops, impl):
        by_file.setdefault(info['path'], []).append((op, info, c, out))
        ctx.count('result:long-%s:%s' % (op.split()[0], 'err' if 'err:' in out or out.startswith('exception') else 'ok'))
    for path, rs in by_file.items():
        ref_op, info, _, ref = rs[0]
        key = '%s-carry-over-chunk-dependent:record=%s' % (info['fmt'], len_class(info['reclen']))
        if info['fmt'] == 'o5m':
            # the window after each step depends on the pieces (what has been pulled in so far) — compare
            # the ensure results and, where the script has just ensured a payload, nothing else; the strict
            # comparison for o5m is the Reader monitor and the model equality below
            def proj(o):
                return [x.split(':')[0] for x in o.split()]
        else:
            def proj(o):
                return o
        dep = False
        for op, _, c, out in rs[1:]:
            if proj(out) != proj(ref):
                found = dep = True
                ctx.violation(key, 'the result of the real %s depends on the segmentation for a %d-byte %s stream with a %d-byte record at offset %d: `%s` -> %s but `%s` -> %s'
                              % ({'opl': 'line_by_line()', 'pbf': 'PBFParser framing', 'o5m': 'O5mParser::ensure_bytes_available'}[info['fmt']],
                                 info['size'], info['fmt'], info['end'] - info['start'], info['start'], short(ref_op, info)[:300], ref[:200], short(op, info)[:300], out[:200]),
                              replay_of(info, [ref_op, op]))
                break
        if info['fmt'] == 'opl' and not dep:
            # independent spec oracle: the non-empty lines of the byte stream
            want = ' '.join(['L', str(len(info['lines']))] + [dig(l) for l in info['lines']])
            for op, _, c, out in rs:
                if out != want:
                    found = True
                    ctx.violation('opl-lines-wrong:record=%s' % len_class(info['reclen']),
                                  'line_by_line() does not deliver the lines of the input (%d-byte line at offset %d): `%s` -> %s, expected %s'
                                  % (info['end'] - info['start'], info['start'], short(op, info)[:300], out[:200], want[:200]), replay_of(info, [op]))
                    break

    # ---------------------------------------------------------------- monitor 2: the whole Reader
    groups = {}
    for (op, info, c), out in zip(mon, mon_out):
        groups.setdefault(info['path'], []).append((op, info, out))
        ctx.count('reader-result:long-%s:%s' % (info['fmt'], out.split(':')[0].split()[0]))
    for path, rs in groups.items():
        ref_op, info, ref = rs[0]
        dep = False
        for op, _, out in rs[1:]:
            if not op.startswith('reader ') and out.startswith('err:') and ref.startswith('err:') and out.split(':')[1] == ref.split(':')[1]:
                continue                  # fd paths word some errors differently: same exception class
            if out != ref:
                found = dep = True
                ctx.violation('%s-chunk-dependent:long-record=%s' % (info['fmt'], len_class(info['reclen'])),
                              'Reader result depends on chunking for a %d-byte %s stream with a %d-byte record at offset %d: `%s` -> %s but `%s` -> %s'
                              % (info['size'], info['fmt'], info['end'] - info['start'], info['start'], short(ref_op, info)[:300], ref, short(op, info)[:300], out),
                              replay_of(info, [ref_op, op]))
                break
        if 'trunc' not in info['spec'] and not dep:
            bad = [(op, out) for op, _, out in rs if not out.startswith('ok ')]
            want_n = len(info['lines']) if info['fmt'] == 'opl' else None
            if not bad and want_n is not None:
                bad = [(op, out) for op, _, out in rs if not out.startswith('ok n=%d ' % want_n)]
            if bad:
                found = True
                ctx.violation('%s-long-record-rejected:record=%s' % (info['fmt'], len_class(info['reclen'])),
                              'a valid %s file with a %d-byte record is not read completely: `%s` -> %s'
                              % (info['fmt'], info['end'] - info['start'], short(bad[0][0], info)[:300], bad[0][1]), replay_of(info, [bad[0][0]]))

    # ---------------------------------------------------------------- correspondence
    if model is not None:
        dis = ctx.diff_streams('c06-long-model-vs-impl', [short(o, i) for o, i, _ in ops], impl, model)
        if dis and not found:
            i, op, a, b = dis[0]
            ctx.violation('correspondence:long-' + op.split()[0], 'model and implementation disagree on long records (%d lines; first `%s`: impl=%s model=%s); no chunk-dependence was observed'
                          % (len(dis), op[:300], a[:160], b[:160]),
                          {'kind': 'broken-correspondence', 'stream': 'c06-long-model-vs-impl', 'first': dis[:5]}, found_input=False)


if __name__ == '__main__':
    if len(sys.argv) == 4 and sys.argv[1] == 'regen':
        spec = json.loads(sys.argv[2])
        hb = None
        if spec['fmt'] in ('pbf', 'xml'):
            hb, err = vlib.build_cpp('c06', ['c06.cpp'], flags=['-fno-access-control'])
        r = write_long(spec, os.path.abspath(sys.argv[3]), hb, os.path.dirname(os.path.abspath(sys.argv[3])))
        print(json.dumps({k: v for k, v in r.items() if k in ('path', 'size', 'start', 'end', 'script')}))
    else:
        print("usage: c06.py regen '<spec json>' <out file>")
