"""C19 — thread-safe queue is FIFO and loss-free; the pool runs every task exactly once
(DESIGN.md §3 C19).

1. proof stage: lean/Osmium/Props/C19.lean — invariants over ALL interleavings of the monitor
   model (Model/Mon.lean, QueueSM.lean, PoolSM.lean), built + axiom-audited.
2. tie to the code: harness/c19.cpp runs the REAL Queue / Pool under real threads with the
   OSMIUM_VERIF_POINT hooks recording a lock-granular event trace (and perturbing the
   schedule); `complete()` below turns the raw trace into model events (one per critical
   section, plus the un-hooked steps: the unlocked m_in_use test, size() of the bound loop, the
   flag store of shutdown(), notify_one's choice, worker exit, joins) and the compiled model
   (lean/Driver/C19.lean) checks that EVERY event is an enabled transition with the same
   observables (queue size, element identity, future outcome).  The completion is untrusted:
   whatever it proposes is checked by the proved step function, so an accepted trace IS a run
   of the model.
3. property monitors evaluated on the implementation itself (harness MON lines + the soft
   size bound computed from the hook arguments); 20 s watchdog per scenario.
"""
import json
import os
import subprocess

import vlib

# task kinds of harness/c19.cpp (index = outcome code in submit-spec / future-get events)
KIND_LETTERS = 'vurcifs'
KIND_NAMES = {'v': 'value', 'u': 'void', 'r': 'throws-std::runtime_error', 'c': 'throws-class-derived-from-std::exception',
              'i': 'throws-int', 'f': 'throws-foreign-struct', 's': 'throws-std::string'}


def outcome_str(code, payload):
    """model outcome (lean/Driver/C19.lean parseOutcome) of harness outcome code + payload"""
    return ['v.%d', 'v.%d', 's.0.%d', 's.1.%d', 'o.0.%d', 'o.1.%d', 'o.2.%d'][code] % payload


LOCKED = {'push-full-waited', 'push-locked', 'pop-wait', 'pop-woken', 'pop-took', 'trypop-empty', 'trypop-took',
          'shutdown-locked'}
STOP_BASE = 900000000


# ------------------------------------------------------------------------------------------
# scenarios
# ------------------------------------------------------------------------------------------
def gen_scenarios(rng, quick):
    sc = []
    nq = 900 if quick else 6000
    np_ = 220 if quick else 1500
    # fixed corner grid first (all producer/consumer counts and small bounds appear in every run)
    grid = []
    for P in range(1, 9):
        for C in range(1, 9):
            grid.append((P, C))
    rng.shuffle(grid)
    for k in range(nq):
        if k < len(grid):
            P, C = grid[k]
        else:
            P, C = 1 + rng.below(8), 1 + rng.below(8)
        mx = rng.choice([0, 1, 1, 2, 2, 3, 5, 8])
        n = rng.choice([1, 2, 3, 5, 8, 13, 20]) if quick else rng.choice([1, 2, 3, 5, 8, 13, 20, 40, 80])
        mode = rng.choice(['drain', 'drain', 'sdidle', 'sdmid', 'sdmid'])
        sc.append('queue elem=%s P=%d C=%d max=%d n=%d mode=%s try=%d pl=%d ps=%d'
                  % (rng.choice(['int', 'tag']), P, C, mx, n, mode, 1 if rng.chance(1, 3) else 0, rng.choice([0, 1, 2, 2]),
                     1 + rng.below(1000000)))
    sizes = list(range(1, 33))
    rng.shuffle(sizes)
    for k in range(np_):
        N = sizes[k] if k < len(sizes) else 1 + rng.below(32)
        # task mix: the kind of task id is ((id * stride + mix) % 7) — value / void / std::runtime_error / class derived
        # from std::exception / int / foreign struct / std::string —, so every 7 consecutive tasks contain every kind and
        # mix decides which kind comes first; small scenarios (1 or 2 tasks) keep the single-task corner
        S = 1 + rng.below(4)
        n = rng.choice([1, 2, 4, 7, 8, 12])
        if k < len(sizes) and S * n < 7:
            n = 7       # the first scenario of every pool size has the full mix
        sc.append('pool N=%d max=%d S=%d n=%d mode=%s mix=%d pl=%d ps=%d'
                  % (N, rng.choice([0, 1, 2, 3, 5]), S, n,
                     rng.choice(['get-first', 'destroy-first']), rng.below(1000), rng.choice([0, 1, 2, 2]),
                     1 + rng.below(1000000)))
    return sc


def kv_of(line):
    return dict(w.split('=', 1) for w in line.split()[1:] if '=' in w)


# ------------------------------------------------------------------------------------------
# harness output -> scenario blocks
# ------------------------------------------------------------------------------------------
class Block:
    def __init__(self, line):
        self.line = line
        self.events = []   # (tid, tag, qid, arg, payload:int|None)
        self.mon = []      # (name, ok, detail)
        self.obs = {}
        self.end = None


def parse_blocks(text):
    blocks = []
    cur = None
    for l in text.split('\n'):
        if l.startswith('BEGIN '):
            cur = Block(l[6:])
            blocks.append(cur)
        elif cur is None:
            continue
        elif l.startswith('E '):
            w = l.split()
            cur.events.append((int(w[1]), w[2], int(w[3]), int(w[4]), None if w[5] == '-' else int(w[5])))
        elif l.startswith('MON '):
            w = l.split(' ', 3)
            cur.mon.append((w[1], w[2] == 'ok', w[3] if len(w) > 3 else ''))
        elif l.startswith('OBS '):
            cur.obs.update(dict(x.split('=', 1) for x in l.split()[1:]))
        elif l.startswith('END '):
            cur.end = l[4:].strip()
    return blocks


# ------------------------------------------------------------------------------------------
# raw trace -> model events (completion)
# ------------------------------------------------------------------------------------------
def complete(block):
    """Returns (model_lines, origin, anomalies): origin[i] = index of the raw event that model
    line i belongs to (for reporting), anomalies = atomicity problems seen directly."""
    ev = block.events
    kv = kv_of(block.line)
    pool = block.line.startswith('pool')
    anomalies = []
    out = []
    origin = []

    def emit(i, tid, tag, arg=0, pl='-'):
        out.append('%d %s 1 %d %s' % (tid, tag, arg, pl))
        origin.append(i)

    if pool:
        mx = int(kv.get('max', '0'))
        mx = mx if mx > 0 else 10
        workers = sorted({e[0] for e in ev if e[0] >= 200})
        out.append('new pool %d %s' % (mx, ','.join(map(str, workers)) if workers else ','))
        origin.append(-1)
    else:
        out.append('new queue')
        origin.append(-1)
        mx = int(kv.get('max', '0'))

    n = len(ev)
    by_thread = {}
    for i, e in enumerate(ev):
        by_thread.setdefault(e[0], []).append(i)
    pos_in_thread = {}
    for t, idx in by_thread.items():
        for k, i in enumerate(idx):
            pos_in_thread[i] = k
    locked_idx = [i for i, e in enumerate(ev) if e[1] in LOCKED]
    next_locked = {}
    for a, b in zip(locked_idx, locked_idx[1:]):
        next_locked[a] = b

    def thread_after(i):
        t = ev[i][0]
        idx = by_thread[t]
        return [j for j in idx[pos_in_thread[i] + 1:]]

    # ---- push calls: outcome of the unlocked m_in_use test, by look-ahead
    push_info = {}    # index of push-enter -> dict(outcome=True/False/None, end=index of first event after the call)
    for i, e in enumerate(ev):
        if e[1] != 'push-enter':
            continue
        outcome = None
        end = None
        for j in thread_after(i):
            tag = ev[j][1]
            if tag in ('push-full-waited', 'push-locked'):
                outcome = True
                break
            end = j
            outcome = False   # the thread went on without enqueuing: the test read false
            break
        push_info[i] = {'outcome': outcome, 'end': end}

    # ---- wait_and_pop: did the call block?
    blocks_at = {}    # index of pop-wait -> True if contiguous pop-woken follows
    for i, e in enumerate(ev):
        if e[1] == 'pop-wait':
            j = next_locked.get(i)
            blocks_at[i] = not (j is not None and ev[j][0] == e[0] and ev[j][1] == 'pop-woken')

    # ---- where is the (unlocked) flag store of each shutdown()?
    stores = []   # [enter_index, marker_index or n, position (store is emitted BEFORE raw event `position`)]
    for i, e in enumerate(ev):
        if e[1] == 'shutdown-enter':
            marker = n
            for j in thread_after(i):
                if ev[j][1] in ('shutdown-flag', 'shutdown-locked'):
                    marker = j
                    break
            if marker == n and not any(True for _ in thread_after(i)):
                # trace prefix: the call has not got anywhere; we cannot know whether the store happened
                marker = n
            stores.append([i, marker, marker])
    uppers = []   # raw indices of events that observed in_use == false
    for i, info in push_info.items():
        if info['outcome'] is False:
            uppers.append(info['end'])
    for i, e in enumerate(ev):
        if e[1] == 'pop-woken' and e[3] == 0:
            uppers.append(i)
    if uppers and stores:
        U = min(uppers)
        if not any(s[2] <= U for s in stores):
            cands = [s for s in stores if s[0] < U]
            if cands:
                cands[0][2] = U
    store_at = {}
    for s in stores:
        store_at.setdefault(s[2], []).append(ev[s[0]][0])

    # ---- emission with a mirror of the shared state
    size = 0
    items = []            # payload strings, front first
    in_use = True
    waiters = []          # [tid, notified]
    producer_of = {}      # payload -> producer tid
    pending_size = {}     # tid -> want_full (True: must read >= max, False: must read < max)
    spec = {}             # job id -> 'v.n' / 'e.n'
    sd_flagged = set()
    dtor_tid = None
    exited = []
    dtor_pushed = False
    max_size_seen = 0

    def elem_str(payload):
        if payload is None:
            return None
        if pool:
            if payload >= STOP_BASE:
                return 'stop'
            return 'j.%d.%s' % (payload, spec.get(payload, 'v.0'))
        return str(payload)

    def want_of(i):
        """after raw event i of a pushing thread: what does its next size() read have to be?"""
        for j in thread_after(i):
            tag = ev[j][1]
            if tag == 'push-full-waited':
                return True
            if tag == 'push-locked':
                return False
            return None
        return None

    def flush_size_reads(i, only=None, force=False):
        for t in sorted(pending_size):
            if only is not None and t != only:
                continue
            want_full = pending_size[t]
            if force or (size >= mx) == want_full:
                emit(i, t, 'push-size', size)
                del pending_size[t]

    def item_for_take(i, t):
        """identity of the element consumer t received for the take at raw event i, as observed
        by the harness (pop-return / trypop-return) or by the task itself (task-run):
        model item `producer:elem`, '-' if the consumer observed "no element", None if the
        identity is not observable (stop task, trace prefix)"""
        for j in thread_after(i):
            tag = ev[j][1]
            if tag in ('pop-took', 'trypop-took', 'pop-woken', 'worker-got'):
                continue
            if tag in ('pop-return', 'trypop-return', 'task-run'):
                payload = ev[j][4]
                if payload is None:
                    return '-'
                return '%d:%s' % (producer_of.get(payload, 0), elem_str(payload))
            break
        return None

    def do_take(i, t, tag, n_before):
        nonlocal size
        it = item_for_take(i, t)
        if n_before == 0:
            it = '-' if it is None else it
        elif it is None:
            it = items[0] if items else '-'
        emit(i, t, tag, n_before, it)
        if items and n_before > 0:
            items.pop(0)
        size = n_before - 1 if n_before > 0 else 0

    dropped_at = {}
    for pi, info in push_info.items():
        if info['outcome'] is False:
            dropped_at.setdefault(info['end'], []).append(pi)

    i = 0
    while i < n:
        t, tag, qid, arg, payload = ev[i]
        # the flag store(s) placed before this raw event
        for st in store_at.get(i, []):
            emit(i, st, 'sd-flag')
            sd_flagged.add(st)
            in_use = False
        # dropped pushes: the test is placed right before the thread's next event
        for pi in dropped_at.get(i, []):
            emit(i, ev[pi][0], 'push-test', 0)
            push_info[pi]['emitted'] = True
        if tag == 'q-new':
            emit(i, t, 'q-new', arg)
        elif tag == 'submit-spec':
            spec[payload // 1000000] = outcome_str(arg, payload % 1000000)
        elif tag == 'push-enter':
            producer_of[payload] = t
            emit(i, t, 'push-enter', 0, elem_str(payload) if payload is not None else '0')
            info = push_info[i]
            if info['outcome'] is True:
                emit(i, t, 'push-test', 1)
                info['emitted'] = True
                if mx > 0:
                    w = want_of(i)
                    if w is not None:
                        pending_size[t] = w
                        flush_size_reads(i, only=t)
        elif tag == 'push-full-waited':
            if t in pending_size:
                flush_size_reads(i, only=t, force=True)
            emit(i, t, 'push-full-waited', arg)
            w = want_of(i)
            if w is not None:
                pending_size[t] = w
                flush_size_reads(i, only=t)
        elif tag == 'push-locked':
            if t in pending_size:
                flush_size_reads(i, only=t, force=True)
            woke = '-'
            for w in waiters:
                if not w[1]:
                    w[1] = True
                    woke = str(w[0])
                    break
            emit(i, t, 'push-locked', arg, woke)
            items.append('%d:%s' % (t, elem_str(payload)))
            size = arg
            max_size_seen = max(max_size_seen, arg)
        elif tag == 'pop-wait':
            size = arg
            if blocks_at[i] or (arg == 0 and in_use):
                emit(i, t, 'pop-block')
                waiters.append([t, False])
            else:
                # predicate true at once: pop-wait, pop-woken[, pop-took] are one critical section
                j = next_locked[i]
                if ev[j][3] != arg:
                    anomalies.append((j, 'queue size changed inside one critical section of wait_and_pop (pop-wait %d, pop-woken %d)' % (arg, ev[j][3])))
                if arg > 0:
                    k = next_locked.get(j)
                    if k is None or ev[k][0] != t or ev[k][1] != 'pop-took':
                        if k is not None:
                            anomalies.append((k, 'another critical section ran between pop-woken and pop-took of thread %d' % t))
                    elif ev[k][3] != arg - 1:
                        anomalies.append((k, 'pop-took reports size %d after taking from a queue of size %d' % (ev[k][3], arg)))
                do_take(i, t, 'pop-now', arg)
        elif tag == 'pop-woken':
            if any(w[0] == t for w in waiters):
                waiters[:] = [w for w in waiters if w[0] != t]
                if arg > 0:
                    k = next_locked.get(i)
                    if k is None or ev[k][0] != t or ev[k][1] != 'pop-took':
                        if k is not None:
                            anomalies.append((k, 'another critical section ran between pop-woken and pop-took of thread %d' % t))
                    elif ev[k][3] != arg - 1:
                        anomalies.append((k, 'pop-took reports size %d after taking from a queue of size %d' % (ev[k][3], arg)))
                do_take(i, t, 'pop-wake', arg)
            # else: part of a pop-now already emitted
        elif tag == 'pop-took':
            pass
        elif tag == 'trypop-empty':
            emit(i, t, 'trypop', 0, '-')
        elif tag == 'trypop-took':
            do_take(i, t, 'trypop', arg + 1)
        elif tag == 'shutdown-enter':
            emit(i, t, 'sd-enter')
        elif tag == 'shutdown-flag':
            if t not in sd_flagged:
                emit(i, t, 'sd-flag')
                sd_flagged.add(t)
                in_use = False
        elif tag == 'shutdown-locked':
            if t not in sd_flagged:
                emit(i, t, 'sd-flag')
                in_use = False
            sd_flagged.discard(t)
            emit(i, t, 'sd-locked')
            items.clear()
            size = 0
            for w in waiters:
                w[1] = True
        elif tag == 'worker-got':
            emit(i, t, 'worker-got', arg)
            nxt = thread_after(i)
            if arg == 1 and (not nxt or ev[nxt[0]][1] != 'task-run'):
                # function_wrapper{0}: task() returned true, the worker thread function returns
                if not nxt:
                    emit(i, t, 'worker-exit')
                    exited.append(t)
        elif tag == 'task-run':
            emit(i, t, 'task-run', 0, str(payload))
        elif tag == 'future-get':
            emit(i, t, 'future-get', 0, '%d.%s' % (payload // 1000000, outcome_str(arg, payload % 1000000)))
        elif tag == 'dtor-start':
            dtor_tid = t
            emit(i, t, 'dtor-start')
        elif tag == 'dtor-done':
            emit(i, t, 'dtor-pushed')
            for w in exited:
                emit(i, t, 'dtor-join', 0, str(w))
            emit(i, t, 'dtor-done')
        elif tag in ('push-return', 'pop-return', 'trypop-return', 'shutdown-return'):
            pass
        else:
            anomalies.append((i, 'unknown trace tag ' + tag))
        # size reads of other threads that became satisfiable
        if tag in LOCKED and pending_size:
            flush_size_reads(i)
        i += 1
    # dropped pushes whose thread ended right after
    for pi, info in push_info.items():
        if info['outcome'] is False and info.get('emitted') is None:
            emit(n - 1, ev[pi][0], 'push-test', 0)
    out.append('end')
    origin.append(-1)
    return out, origin, anomalies, max_size_seen


# ------------------------------------------------------------------------------------------
def run_harness(ctx, hbin, scenarios):
    """Runs all scenarios; a watchdog exit (code 3) ends the process, the rest is re-run.
    Returns list of Blocks (one per scenario actually started)."""
    blocks = []
    todo = list(scenarios)
    while todo:
        p = subprocess.run([hbin], input='\n'.join(todo) + '\n', stdout=subprocess.PIPE, stderr=subprocess.PIPE, text=True)
        got = parse_blocks(p.stdout)
        blocks.extend(got)
        if p.returncode == 0:
            break
        # crashed or watchdog: the last block is the offender
        if got and got[-1].end is None:
            got[-1].end = 'crash rc=%d %s' % (p.returncode, p.stderr[-300:].replace('\n', ' '))
        if not got:
            b = Block(todo[0])
            b.end = 'crash rc=%d %s' % (p.returncode, p.stderr[-300:].replace('\n', ' '))
            blocks.append(b)
            got = [b]
        todo = todo[len(got):]
        if sum(1 for b in blocks if b.end != 'ok') >= 1:
            break   # enough evidence; every further timeout costs 20 s
    return blocks


def validate(ctx, blocks):
    """Feeds the completed traces to the model driver.  Returns per block
    (verdict, detail, raw_index, model_lines)."""
    all_lines = []
    spans = []
    metas = []
    for b in blocks:
        lines, origin, anomalies, mxs = complete(b)
        spans.append((len(all_lines), len(lines)))
        all_lines.extend(lines)
        metas.append((lines, origin, anomalies, mxs))
    rc, outl, se = ctx.run_lines([ctx.model_exe('model_c19')], '\n'.join(all_lines) + '\n')
    res = []
    for (start, ln), (lines, origin, anomalies, mxs), b in zip(spans, metas, blocks):
        o = outl[start:start + ln]
        verdict, detail, raw = 'ok', '', None
        if len(o) != ln:
            verdict, detail = 'driver-error', 'model driver produced %d lines for %d (%s)' % (len(o), ln, se[-200:])
        else:
            for k, r in enumerate(o):
                if r.startswith('reject'):
                    verdict, detail, raw = 'reject', '`%s` %s' % (lines[k], r), origin[k]
                    break
            final = o[-1] if o else ''
            if verdict == 'ok':
                res_final = dict(x.split('=', 1) for x in final.split() if '=' in x)
                b.model_final = res_final
        res.append((verdict, detail, raw, lines, anomalies, mxs))
    return res


def run(ctx):
    rng = ctx.rng
    quick = ctx.tier == 'quick'
    ctx.rule = ('one case = one scenario line (queue: element type x producers 1..8 x consumers 1..8 x bound x elements x '
                'shutdown mode x try_pop mix x perturbation level/seed; pool: workers 1..32 x queue bound x submitters x tasks x '
                'get-before/after-destruction x task mix (every task is one of: value, void, throws std::runtime_error, throws a class '
                'derived from std::exception, throws int, throws a struct not derived from std::exception, throws std::string; slow/fast) '
                'x perturbation); every scenario runs real threads, every future is read after the run (same value or the same exception '
                'type and payload), a std::terminate() in the process is reported as monitor no-terminate, '
                'its whole event trace is validated against the model; all scenarios are non-trivial (>= 2 threads on one monitor)')
    ctx.assumptions += [
        'the OS scheduler is not enumerated: the theorems cover all interleavings of the MODEL; the runs validate that the '
        'behaviours observed from the implementation (under seeded schedule perturbation) are behaviours of the model',
        'std::mutex / std::condition_variable / std::atomic / std::future behave as the monitor semantics of Model/Mon.lean',
        'events emitted outside the queue mutex (push-enter, shutdown-flag, harness call/return markers) are ordered per '
        'thread only; the validator places the corresponding unlocked model steps anywhere in their window',
    ]
    ctx.trusted.append('trace completion in tools/props/c19.py is NOT trusted: every event it proposes is checked by the proved step function')

    proof_ok = ctx.proof_stage(exes=['model_c19'])

    hbin, err = vlib.build_cpp('c19', ['c19.cpp'])
    if hbin is None:
        ctx.violation('harness-build', 'harness does not compile against the current tree: ' + err[-600:],
                      {'kind': 'harness-build', 'stderr': err}, found_input=False)
        return
    if not ctx.exe_build_ok:
        if proof_ok:
            ctx.violation('model-driver-build', 'model driver does not build', {'kind': 'broken-correspondence'}, found_input=False)
        return

    if ctx.replay:
        with open(ctx.replay) as f:
            rep = json.load(f)
        scenarios = [rep['scenario']] * 20
    else:
        scenarios = []
        cdir = os.path.join(vlib.ROOT, 'corpus', 'C19')
        if os.path.isdir(cdir):
            for fn in sorted(os.listdir(cdir)):
                if fn.endswith('.ops'):
                    with open(os.path.join(cdir, fn)) as f:
                        scenarios += [l.strip() for l in f if l.strip() and not l.startswith('#')]
        scenarios += gen_scenarios(rng, quick)

    blocks = run_harness(ctx, hbin, scenarios)
    results = validate(ctx, blocks)

    nev = 0
    for b, (verdict, detail, raw, lines, anomalies, mxs) in zip(blocks, results):
        if len(ctx.violations) >= 6:
            ctx.count('scenarios-not-reported-after-6-violations')
            continue
        kv = kv_of(b.line)
        kind = b.line.split()[0]
        ctx.note_case(b.line)
        ctx.count('scenario:' + kind)
        ctx.count('%s-mode:%s' % (kind, kv.get('mode', '?')))
        nev += len(b.events)
        for e in b.events:
            ctx.count('event:' + e[1])
        for l in lines:
            w = l.split()
            if len(w) == 5 and w[1] in ('push-test', 'push-size', 'pop-now', 'pop-block', 'pop-wake', 'trypop', 'sd-flag'):
                ctx.count('model-step:' + w[1] + (':' + ('1' if w[3] != '0' else '0') if w[1] == 'push-test' else ''))
        if kind == 'queue':
            ctx.count('queue-bound:%s' % kv.get('max'))
            ctx.count('producers:%s' % kv.get('P'))
            ctx.count('consumers:%s' % kv.get('C'))
        else:
            ctx.count('pool-size:%s' % kv.get('N'))
            kinds = b.obs.get('kinds', '')
            S_, n_ = int(kv.get('S', '1')), int(kv.get('n', '1'))
            Nw = int(kv.get('N', '1'))
            nb = next(lbl for lim, lbl in ((1, '1'), (2, '2'), (4, '3-4'), (8, '5-8'), (16, '9-16'), (32, '17-32'), (10**9, '>32')) if Nw <= lim)
            for idx, kl in enumerate(kinds):
                i_ = idx % n_ if n_ else 0
                pos = 'only' if n_ == 1 else 'first' if i_ == 0 else 'last' if i_ == n_ - 1 else 'middle'
                name = KIND_NAMES.get(kl, kl)
                ctx.count('task-kind:%s' % name)
                ctx.count('task-kind-x-pool-size:%s:N=%d' % (name, Nw))
                ctx.count('task-kind-x-pool-size-x-position:%s:N=%s:%s:%s' % (name, nb, pos, kv.get('mode')))
            if kinds:
                ctx.count('pool-scenario-kinds:%s' % ('all-7' if len(set(kinds)) == 7 else '%d-of-7' % len(set(kinds))))
        key = ' '.join(w for w in b.line.split() if not w.startswith('ps='))[:150]
        trace_txt = ['%d %s %d %d %s' % (e[0], e[1], e[2], e[3], '-' if e[4] is None else e[4]) for e in b.events]
        rep = {'kind': 'counterexample', 'scenario': b.line, 'perturbation_seed': kv.get('ps'), 'trace': trace_txt,
               'replay': 'echo "<scenario>" | <harness c19>  (the schedule is the recorded trace; re-running with the same '
                         'perturbation seed reproduces it with high probability)'}
        # (a) monitors on the implementation
        hit = False
        for name, ok, d in b.mon:
            ctx.count('monitor:%s:%s' % (name, 'ok' if ok else 'FAIL'))
            if not ok:
                hit = True
                ctx.violation('monitor:%s:%s' % (name, key), 'monitor `%s` failed on the implementation (%s) in scenario `%s`%s'
                              % (name, d, b.line, ' — trace prefix of %d events recorded' % len(b.events) if b.end != 'ok' else ''),
                              dict(rep, monitor=name, detail=d))
        if b.end != 'ok' and not hit:
            hit = True
            ctx.violation('harness-abort:' + key, 'scenario `%s` ended with %s' % (b.line, b.end), dict(rep, end=b.end))
        # soft size bound, evaluated on the hook arguments (the property as the code states it)
        if kind == 'queue' and int(kv.get('max', '0')) > 0:
            P = int(kv['P'])
            bound = int(kv['max']) + P - 1
            if mxs > bound:
                hit = True
                ctx.violation('monitor:size-bound:' + key, 'queue grew to %d elements with bound %d and %d producer(s) (allowed: max + producers - 1 = %d) in `%s`'
                              % (mxs, int(kv['max']), P, bound, b.line), dict(rep, monitor='size-bound', seen=mxs, allowed=bound))
            ctx.count('size-bound:%s' % ('at-bound' if mxs == int(kv['max']) else 'overshoot' if mxs > int(kv['max']) else 'below'))
        for (ri, what) in anomalies:
            hit = True
            ctx.violation('atomicity:' + key, '%s at trace event %d in `%s`' % (what, ri, b.line), dict(rep, event_index=ri))
        # (b) model validation of the trace
        if verdict == 'reject':
            ctx.count('trace:rejected')
            ctx.violation('trace-rejected:' + key,
                          'the event trace of `%s` is not a run of the model: %s (raw trace event %s: %s)'
                          % (b.line, detail, raw, trace_txt[raw] if raw is not None and 0 <= raw < len(trace_txt) else '-'),
                          dict(rep, kind='counterexample' if hit else 'broken-correspondence', model_events=lines, rejected=detail, event_index=raw),
                          found_input=True)
        elif verdict != 'ok':
            ctx.violation('model-driver:' + key, detail, dict(rep, kind='broken-correspondence'), found_input=False)
        else:
            ctx.count('trace:accepted')
            if b.end == 'ok':
                mf = getattr(b, 'model_final', {})
                if kind == 'queue' and 'final_size' in b.obs and mf.get('size') != b.obs['final_size']:
                    ctx.violation('final-state:' + key, 'final queue size %s differs from the model (%s) in `%s`' % (b.obs['final_size'], mf.get('size'), b.line),
                                  dict(rep, kind='broken-correspondence'), found_input=False)
                if kind == 'pool' and not (mf.get('dtor') == 'done' and mf.get('size') == '0' and mf.get('joined') == kv.get('N')):
                    ctx.violation('final-state:' + key, 'pool scenario ended but the model is not in its final state: %s' % mf,
                                  dict(rep, kind='broken-correspondence'), found_input=False)
    st = ctx.streams.setdefault('c19-trace-vs-model', {'lines': 0, 'disagreements': 0})
    st['lines'] += nev
    st['disagreements'] += sum(1 for r in results if r[0] != 'ok')
    ctx.extra['trace_events_validated'] = nev
    ctx.extra['scenarios_run'] = len(blocks)
    for b in blocks[:3]:
        ctx.sample(b.line)
    if blocks:
        ctx.sample(blocks[-1].line)
    if len(blocks) < len(scenarios) and not ctx.violations:
        ctx.violation('harness-incomplete', 'only %d of %d scenarios ran' % (len(blocks), len(scenarios)), {'kind': 'check-error'}, found_input=False)
