"""C07 — Reader pipeline always terminates and reports the first error to the caller
(DESIGN.md §3 C07).

1. proof stage: lean/Osmium/Props/C07.lean over the pipeline machine of Model/Pipeline.lean
   (faults, consumer abandonment, header promise, shutdown): safety theorems + no stuck state
   + ranking-function progress; fairness / timed waits / leaks are named assumptions.
2. fault grid on the REAL Reader (harness/c05.cpp, shared with C05): mock decompressor / mock
   parser registered through the factories, corrupt and truncated files, for every (format,
   stop point k, with/without header(), close vs destructor, fault point, queue sizes, pool
   size), 20 s watchdog per scenario, seeded schedule perturbation.  Observed: which API call
   threw what, nothing delivered after an error, delivered objects are a prefix of the
   fault-free decode, thread count and open fds before/after, decompressor.read calls after
   close() returned, decompressor destroyed.
3. trace validation against the compiled model (scheduling validator lean/Driver/C05.lean), as in C05.
4. TRUNCATION SWEEP ("the input ends early", at EVERY byte position; harness/c07t.cpp = the real Reader with the
   real gzip/bzip2 decompressors): small valid files of each format (PBF: header + zlib, raw, zlib data blobs and a
   13-blob file; o5m; XML; OPL), each input path (file name -> fd [uncompressed PBF: the parser's DIRECT-FD path],
   memory buffer, FIFO fed in 7-byte writes = short read(2) counts), every prefix length 0..n (quick: all lengths
   of the small files, all lengths inside every framing region of the larger ones), with and without header(),
   also as a complete gzip/bzip2 stream of the cut content and as a cut gzip/bzip2 file.  Monitor = the property:
   the read raises from header()/read()/close(), or the prefix is a VALID shorter file (PBF: ends exactly behind a
   complete blob, not before the header blob; OPL: every prefix is a file — an unterminated last line is a line —,
   so the law is read(p) = read(p + "\n") and the objects of the complete lines; XML: only with the closing root
   tag; o5m: at a dataset boundary behind the header — the reader ignores the 0xfe end marker, recorded as an
   assumption) and then exactly the objects of the complete records are delivered.  Correspondence: the PBF
   framing model (lean/Osmium/Model/PbfFd.lean: input-queue reader and direct-fd reader with short reads, through
   lean/Driver/C07.lean `trunc`) is run on the SAME cuts and the outcome classes (ok after n data blobs / exception
   before the header / exception after n data blobs) are compared with the real parser on both paths
   (Props/C07.lean `pbf_truncation_reported`, `truncated_input_reported`).
   Regression probe with a stable key (found by this sweep, fixed in /repo): `truncation-accepted:pbf:length-prefix`
   (input ending 1..3 bytes into the 4-byte BlobHeader length was read as a clean end of file).

Regression probes with stable keys (found by this check, fixed in /repo, KNOWN_FINDINGS.txt `fixed:`
ba026d4, e0f0db9; verified to fire again on a copy with the fix reverted):
`pbf-file-fd-leak-on-parse-error` (corrupt/truncated PBF FILES read directly through the fd by the
parser thread: fd count before/after), `pbf-file-read-continues-after-close` (many-block PBF file,
close() after 0..2 reads with a slowed-down parser: file offset of a dup'ed fd at close() vs at the end).
"""
import os

import vlib
from props import c05, c07_trunc


def corrupt_pbf_block(data, n):
    """flip bytes inside the n-th data blob (0-based; blob 0 of the file is the header blob)"""
    bl = c05.pbf_blobs(data)
    if n + 1 >= len(bl):
        return None
    s, e = bl[n + 1]
    b = bytearray(data)
    blob = s + 4 + int.from_bytes(data[s:s + 4], 'big')    # first byte of the Blob message
    if data[blob] == 0x0a and blob + 6 <= e:
        # uncompressed blob (field 1 `raw`): a raw PrimitiveBlock has no checksum, so flipped bytes in its middle can
        # leave a VALID block with other content (no error is due then).  Make the damage one that every decoder
        # must reject: the length of the `raw` field (0xffffffff) points far behind the end of the blob.
        b[blob + 1:blob + 6] = b'\xff\xff\xff\xff\x0f'
        return bytes(b)
    # zlib blob: corrupt the second half of the record (deflate stream / Adler-32)
    for p in range(s + (e - s) // 2, min(e, s + (e - s) // 2 + 6)):
        b[p] ^= 0xff
    return bytes(b)


def fault_files(rng, files, quick):
    """adds corrupt / truncated variants; each with 'base' = the fault-free file it was made from"""
    out = {}
    for name, f in list(files.items()):
        data = f['bytes']
        fmt = f['fmt']
        if fmt == 'pbf':
            nb = len(c05.pbf_blobs(data)) - 1
            for n in sorted({0, nb // 2, nb - 1}):
                c = corrupt_pbf_block(data, n)
                if c:
                    out['%s_cb%d' % (name, n)] = {'fmt': fmt, 'kind': 'corrupt-block-%d-of-%d' % (n, nb), 'bytes': c, 'base': name, 'fault': 'corrupt'}
            hdr_end = c05.pbf_blobs(data)[0][1]
            c = bytearray(data)
            c[6] ^= 0xff     # inside the BlobHeader of the header blob ("OSMHeader" type string)
            out[name + '_ch'] = {'fmt': fmt, 'kind': 'corrupt-header-blob', 'bytes': bytes(c), 'base': name, 'fault': 'corrupt-header'}
            for cut in sorted({hdr_end - 3, hdr_end + 2, len(data) // 2, len(data) - 5}):
                out['%s_t%d' % (name, cut)] = {'fmt': fmt, 'kind': 'truncated', 'bytes': data[:cut], 'base': name, 'fault': 'truncated', 'cut': cut}
        elif name in ('opl1', 'xml1', 'o5mB'):
            mid = len(data) // 2
            c = bytearray(data)
            if fmt == 'opl':
                # a line that cannot be parsed
                nl = data.index(b'\n', mid)
                c[nl + 1:nl + 1] = b'n12x v1 broken line\n'
            elif fmt == 'xml':
                lt = data.index(b'<', mid)
                c[lt + 1:lt + 1] = b'<<'
            else:
                ends = f.get('ends', [])
                e = ends[len(ends) // 2] if ends else mid
                c[e:e] = b'\x10\x03\xff\xff\xff'   # node dataset with a non-terminated varint
            out[name + '_cm'] = {'fmt': fmt, 'kind': 'corrupt-middle', 'bytes': bytes(c), 'base': name, 'fault': 'corrupt'}
            out[name + '_tr'] = {'fmt': fmt, 'kind': 'truncated', 'bytes': data[:mid], 'base': name, 'fault': 'truncated', 'cut': mid}
    return out


MOCK_SCRIPTS = [
    # (script, throws?, header set before the throw?)
    ('x', True, False), ('ix', True, False), ('ex', True, False), ('hx', True, True), ('hb1x', True, True), ('hb2n2b1x', True, True),
    ('hib1ib1ex', True, True), ('he', False, True), ('hb1b2n3zb1e', False, True), ('ehb3', False, True), ('hn4n4n4e', False, True),
    ('e', False, False), ('b1b1', False, False), ('hb1b1b1b1b1b1b1b1b1b1b1b1b1b1b1b1b1b1b1b1b1b1b1b1b1b1b1b1x', True, True),
]


def truncation_region(f, base):
    """(must the read of this truncated file raise?, region of the cut) by the format oracles of c07_trunc"""
    fmt, cut = f['fmt'], f.get('cut')
    if cut is None or fmt == 'opl':
        return False, '-'          # every prefix of an OPL file is an OPL file
    if fmt == 'pbf':
        L = c07_trunc.PbfLayout(base['bytes'], base.get('blob_counts') or [0] * len(c05.pbf_blobs(base['bytes'])))
    elif fmt == 'o5m':
        L = c07_trunc.O5mLayout(base['bytes'])
    else:
        L = c07_trunc.XmlLayout(base['bytes'], len(base.get('ref') or []))
    reg = L.region(cut)[0]
    valid = (reg == 'boundary' and (fmt != 'pbf' or L.region(cut)[1] >= 1) and (fmt != 'o5m' or cut >= 7)) or reg == 'complete'
    return not valid, reg


def mock_expect(script):
    """objects (as counts per buffer incl. nested unwinding) the mock parser sends before it throws/ends"""
    n = 0
    i = 0
    while i < len(script):
        c = script[i]
        i += 1
        num = ''
        while i < len(script) and script[i].isdigit():
            num += script[i]
            i += 1
        if c == 'b':
            n += int(num)
        elif c == 'n':
            n += int(num) + 1
        elif c == 'x':
            break
    return n


def grid(rng, files, ffiles, quick):
    sc = []

    def add(**kw):
        kw.setdefault('pl', rng.choice([0, 1, 2, 2, 3]))
        kw.setdefault('ps', 1 + rng.below(1000000))
        kw.setdefault('wd', 20000)
        if kw.get('src') == 'mem' and kw.get('data') not in ('pbfLong',) and '_' not in str(kw.get('data')):
            kw.setdefault('trace', rng.choice([0, 1, 1]))
        sc.append(c05.scen(**kw))

    names = [n for n in files if n in ('opl1', 'xml1', 'o5mB', 'pbfA', 'pbfB')] + ([n for n in files if n in ('opl3', 'xml2', 'pbfC')] if not quick else [])
    for name in names:
        f = files[name]
        fmt = f['fmt']
        n = len(f['bytes'])
        cuts = c05.cuts_for(rng, n, 'fixed')
        pieces = 1 if cuts == '-' else cuts.count(',') + 2
        blocks = max(len(f['ref']) // 2, 3)
        # (1) abandonment without faults: every stop point k <= blocks + 2
        for k in range(0, blocks + 3):
            for hdr in (0, 1):
                for stop in ('close', 'dtor'):
                    if quick and not rng.chance(1, 3):
                        continue
                    add(fmt=fmt, data=name, src=rng.choice(['mem', 'mem', 'file']), cuts=cuts, mask=15, meta=1, pool=rng.choice([1, 4]), hdr=hdr, k=k, stop=stop)
        # (2) the j-th decompressor read throws / close throws, for every j, with every kind of consumer
        for j in range(1, pieces + 2):
            for k in ([-1, 0, 1, 3] if quick else [-1, 0, 1, 2, 3, 5, 8]):
                for hdr in (0, 1):
                    if quick and not rng.chance(1, 2):
                        continue
                    add(fmt=fmt, data=name, src='mem', cuts=cuts, mask=15, meta=1, pool=rng.choice([1, 4]), hdr=hdr, k=k, stop=rng.choice(['close', 'dtor']), fread=j)
        for k in (-1, 0, 2):
            add(fmt=fmt, data=name, src='mem', cuts=cuts, mask=15, meta=1, pool=rng.choice([1, 4]), hdr=rng.choice([0, 1]), k=k, stop=rng.choice(['close', 'dtor']), fclose=1)
        add(fmt=fmt, data=name, src='mem', mask=15, pool=1, hdr=1, k=-1, stop='close', fctor=1)
    # (3) corrupt / truncated files, memory and real files
    for name, f in ffiles.items():
        for src in ('mem', 'file'):
            for k in ([-1, 1] if quick else [-1, 0, 1, 2, 4]):
                for hdr in (0, 1):
                    if quick and not rng.chance(2, 3):
                        continue
                    add(fmt=f['fmt'], data=name, src=src, cuts=c05.cuts_for(rng, len(f['bytes']), rng.choice(['none', 'fixed'])) if src == 'mem' else '-',
                        mask=rng.choice([15, 15, 3]), meta=1, pool=rng.choice([1, 4]), hdr=hdr, k=k, stop=rng.choice(['close', 'dtor']))
    # (4) mock parser: throws before / after the header, nested buffers, empty buffers, parser that ignores its input
    for script, throws, hdr_set in MOCK_SCRIPTS:
        for k in ([-1, 0, 2] if quick else [-1, 0, 1, 2, 3, 6]):
            for hdr in (0, 1, 3):
                if quick and not rng.chance(2, 3):
                    continue
                if not throws and not hdr_set and hdr != 0:
                    # a parser that returns normally without ever setting the header breaks the Parser contract (all four real
                    # parsers set it on every normal path); header() on such a Reader is outside the property's domain
                    continue
                add(fmt='mock', data='opl1', src='mem', cuts=c05.cuts_for(rng, len(files['opl1']['bytes']), 'fixed'), mp=script, mask=15, pool=1, hdr=hdr, k=k,
                    stop=rng.choice(['close', 'dtor']))
    # (5) early close of a many-block PBF file read from disk: does the closed Reader go on reading?
    for _ in range(2 if quick else 10):
        add(fmt='pbf', data='pbfLong', src='file', mask=15, pool=rng.choice([1, 4]), hdr=1, k=rng.choice([0, 1, 2]), stop='close', pl=3, ps=2 + 4 * rng.below(1000), linger=30)
    return sc


def check_block(ctx, b, files, ffiles, report):
    kv = b.kv
    fmt = kv.get('fmt')
    name = kv.get('data')
    f = files.get(name) or ffiles.get(name)
    es = c05.env_str(b.env)
    fault = ('fread' if 'fread' in kv else 'fclose' if 'fclose' in kv else 'fctor' if 'fctor' in kv else
             'mock:' + kv['mp'] if fmt == 'mock' else (f or {}).get('fault', 'none'))
    ctx.count('fault:' + fault.split(':')[0])
    if b.end != 'ok':
        blocked = [d for n, ok, d in b.mon if n == 'watchdog']
        report('pipeline-stuck:%s:%s:stop=%s' % (fmt, fault.split(':')[0], kv.get('stop')) if b.end == 'timeout' else 'harness-abort:%s:%s' % (fmt, fault),
               'scenario `%s` [%s] ended with %s %s' % (b.line, es, b.end, blocked[:1]), {})
        return True
    hit = False
    for mn, ok, d in b.mon:
        ctx.count('monitor:%s:%s' % (mn, 'ok' if ok else 'FAIL'))
        if not ok:
            hit = True
            key = 'monitor:%s:%s:%s' % (mn, fmt, fault.split(':')[0])
            if mn == 'fds-closed' and fmt == 'pbf' and kv.get('src') == 'file':
                key = 'pbf-file-fd-leak-on-parse-error'
            report(key, 'monitor `%s` failed (%s) in `%s` [%s]' % (mn, d, b.line, es), {'monitor': mn})
    calls = b.api
    full = kv.get('k', '-1') == '-1'
    first_error = b.obs.get('first_error', '-:-')
    ctx.count('first-error-at:' + first_error.split(':')[0])
    # every call after the first throwing call throws as well (header/read), nothing is delivered
    seen_throw = False
    for c, r in calls:
        if c in ('read', 'header') and seen_throw and r[:1] != ['throw']:
            hit = True
            report('call-succeeds-after-error:%s:%s' % (fmt, fault.split(':')[0]), '%s() returned %s after an earlier call had thrown in `%s` [%s]: %s'
                   % (c, r[:2], b.line, es, calls), {})
            break
        if c in ('read', 'header') and r[:1] == ['throw']:
            seen_throw = True
    # delivered objects are a prefix of the fault-free decode
    if fmt != 'mock' and f is not None:
        base = files.get(f.get('base', name))
        mask = int(kv.get('mask', '15'))
        want = c05.expected(base, mask)
        got = b.objects()
        cmp_got = got[:-1] if (f.get('fault') == 'truncated' and fmt != 'pbf' and got) else got   # the object the cut runs through may come out shortened
        if cmp_got != want[:len(cmp_got)]:
            hit = True
            report('wrong-prefix:%s:%s' % (fmt, fault.split(':')[0]), 'objects delivered before the error/stop are not a prefix of the fault-free decode in `%s` [%s]: got %d objects'
                   % (b.line, es, len(got)), {'got': got[:20]})
        if full and fault == 'none' and (b.obs.get('error') != '0' or got != want):
            hit = True
            report('fault-free-run-failed:%s' % fmt, 'fault-free complete read reported %s / %d of %d objects in `%s` [%s]' % (first_error, len(got), len(want), b.line, es), {})
    else:
        want_n = mock_expect(kv.get('mp', ''))
        got_n = len(b.objects())
        if got_n > want_n or (full and got_n != want_n and b.obs.get('error') == '0'):
            hit = True
            report('mock-count:%s' % kv.get('mp'), 'mock parser sent %d objects, consumer received %d in `%s` [%s]' % (want_n, got_n, b.line, es), {})
    # the first error is reported, by the expected call, as the injected exception
    must = None
    trunc_region = None
    if full and b.obs.get('ctor') == 'ok':
        if fault == 'fread':
            must = 'InjectedError.1'
        elif fault == 'fclose':
            must = 'InjectedError.2'
        elif fault.startswith('mock:') and 'x' in fault:
            must = 'InjectedError.3'
        elif fault in ('corrupt', 'corrupt-header'):
            # a PBF block whose entities are all masked out is skipped undecoded: its corruption may go unnoticed
            if fmt != 'pbf' or fault == 'corrupt-header' or int(kv.get('mask', '15')) == 15:
                must = 'any'
        elif fault == 'truncated' and f is not None:
            # the input ends early: under every schedule / queue size / pool size of the grid the read must raise, unless the
            # prefix is a valid shorter file (format oracles of the truncation sweep)
            raises, region = truncation_region(f, files.get(f.get('base', name)))
            if raises:
                must = 'any'
                trunc_region = region
    if fault == 'fctor':
        if not (b.obs.get('ctor', '').startswith('InjectedError')):
            hit = True
            report('ctor-fault-not-reported', 'decompressor constructor threw but the Reader constructor reported %s in `%s`' % (b.obs.get('ctor'), b.line), {})
    elif must is not None:
        call, _, what = first_error.partition(':')
        ok = call in ('header', 'read', 'close') and (must == 'any' or what == must)
        if not ok:
            hit = True
            report('truncation-accepted:%s:%s' % (fmt, trunc_region) if trunc_region else 'error-not-reported:%s:%s' % (fmt, fault.split(':')[0]),
                   'fault `%s` was injected and the consumer read to the end, but the first error reported was `%s` (expected %s from header()/read()/close()) in `%s` [%s]: %s'
                   % (fault, first_error, must, b.line, es, calls), {})
        # header() called first must be the one that reports a failure that happens before the header is known
        if ok and kv.get('hdr') == '1' and fault.startswith('mock:') and not dict((s, h) for s, t, h in MOCK_SCRIPTS).get(kv.get('mp'), True) and call != 'header':
            hit = True
            report('header-did-not-report:%s' % kv.get('mp'), 'parser failed before the header was set, header() was the first call, but the error came from %s() in `%s`' % (call, b.line), {})
    if not full and b.obs.get('error') == '1':
        ctx.count('partial-consumer-saw-error')
    # a closed Reader that reads a PBF file directly must not go on reading
    if fmt == 'pbf' and kv.get('src') == 'file' and kv.get('stop') == 'close' and b.obs.get('pos_at_close', '-1') != '-1':
        a, z, size = int(b.obs['pos_at_close']), int(b.obs['pos_final']), int(b.obs['size'])
        ctx.count('pbf-file-pos-after-close:%s' % ('same' if a == z else 'advanced'))
        bl = c05.pbf_blobs((files.get(name) or ffiles.get(name))['bytes']) if f and f.get('fault') in (None, 'none') else None
        maxblob = max((e - s for s, e in bl), default=0) if bl else size
        if z - a > 2 * maxblob + 64:
            hit = True
            report('pbf-file-read-continues-after-close',
                   'after close() returned at file offset %d the parser thread went on reading the PBF file to offset %d (file size %d, largest blob %d bytes) in `%s` [%s]: '
                   'a closed Reader keeps reading (and decoding) its input until the end of the file; the destructor waits for that'
                   % (a, z, size, maxblob, b.line, es), {'pos_at_close': a, 'pos_final': z})
    return hit


def env_grid(rng, quick):
    qs = ['1', '2', None]
    out = []
    combos = [(a, c) for a in qs for c in qs]
    rng.shuffle(combos)
    for i, (iq, oq) in enumerate(combos if not quick else combos[:5]):
        e = {'OSMIUM_POOL_THREADS': rng.choice(['1', '4'])}
        if iq:
            e['OSMIUM_MAX_INPUT_QUEUE_SIZE'] = iq
        if oq:
            e['OSMIUM_MAX_OSMDATA_QUEUE_SIZE'] = oq
        wq = qs[i % 3]
        if wq:
            e['OSMIUM_MAX_WORK_QUEUE_SIZE'] = wq
        if i % 3 == 2:
            e['OSMIUM_USE_POOL_THREADS_FOR_PBF_PARSING'] = 'off'
        out.append(e)
    return out


def run(ctx):
    rng = ctx.rng
    quick = ctx.tier == 'quick'
    ctx.rule = ('one case = (environment: input/osmdata/work queue sizes 1/2/default, PBF pool parsing on/off; one process each) x '
                '(format opl/xml/o5m/pbf/mock-parser, memory input through a mock decompressor or a real file) x stop point k (0..blocks+2, or '
                'read to the end) x header() first / not at all / at the end x close() vs destructor only x fault (none, j-th decompressor read throws '
                'for every j, decompressor close throws, decompressor constructor throws, corrupt n-th PBF block / header blob / text line / o5m '
                'dataset, truncation, mock parser throwing before/after the header with nested and empty buffers) x pool size 1/4 x perturbation; '
                '20 s watchdog per scenario; PLUS the truncation sweep: (format pbf/o5m/xml/opl, plain or gzip/bzip2: complete stream of the cut content or the '
                'compressed file cut) x (input path: file name = fd [PBF: direct-fd parser path], memory buffer, FIFO with short reads) x EVERY prefix length '
                '0..n (quick: all lengths of the small files, all framing regions + a seeded sample of the larger ones) x header() called or not')
    ctx.assumptions += [
        'the OS scheduler is not enumerated (see C05); the progress theorems assume weak fairness of the scheduler and that the 10 ms timed '
        'wait of Queue::push returns; thread/fd leaks are observed on the runs (threads in /proc/self/task, fds in /proc/self/fd), not proved',
        'std::future/promise/packaged_task, std::mutex, std::condition_variable, std::thread::join behave as the monitor semantics of Model/Mon.lean',
    ]
    ctx.assumptions.append('o5m: the reader does not look at the 0xfe end marker, so an o5m input that ends at a dataset boundary (behind the 7-byte header) '
                           'is a valid shorter file for it; the sweep treats it so (histogram bucket trunc:o5m:boundary-no-end-marker-accepted); OPL: every '
                           'prefix is an OPL file (an unterminated last line is a line), the sweep checks read(p) = read(p + LF) and the objects of the complete lines')
    ctx.trusted.append('trace completion in tools/props/c05.py is NOT trusted: every event it proposes is checked by the proved step function')

    proof_ok = ctx.proof_stage(exes=['model_c05', 'model_c07'])   # model_c05 = the scheduling trace validator

    hbin = c05.build_harness(ctx, 'c07rd')
    if hbin is None:
        return
    scratch = os.path.join(vlib.BUILD, 'c07-%d' % os.getpid())
    os.makedirs(scratch, exist_ok=True)
    try:
        _run(ctx, rng, quick, hbin, scratch, proof_ok)
    finally:
        for fn in os.listdir(scratch):
            os.remove(os.path.join(scratch, fn))
        os.rmdir(scratch)


def _run(ctx, rng, quick, hbin, scratch, proof_ok):
    files = c05.gen_files(ctx, hbin, scratch, rng, quick)
    if files is None:
        return
    # a PBF file with many blocks (the blobs of pbfC repeated)
    parts = files['pbfC']['bytes']
    bl = c05.pbf_blobs(parts)
    files['pbfLong'] = {'fmt': 'pbf', 'kind': 'many-blocks', 'bytes': parts[:bl[0][1]] + parts[bl[0][1]:] * (40 if quick else 120)}
    if not c05.reference_decode(ctx, hbin, scratch, files):
        return
    ffiles = fault_files(rng, files, quick)
    alld = dict(files)
    alld.update(ffiles)
    defs = ['def %s %s' % (n, c05.hx(f['bytes'])) for n, f in alld.items()]

    def report(key, what, extra, block, found_input=True):
        rep = {'kind': 'counterexample', 'scenario': block.line, 'env': block.env,
               'file_hex': c05.hx(alld[block.kv['data']]['bytes'])[:20000] if block.kv.get('data') in alld else '',
               'trace': ['%d %s %d %d %s' % (e[0], e[1], e[2], e[3], '-' if e[4] is None else e[4]) for e in block.events][-400:],
               'replay': 'feed the `def` line of the file and the scenario line to the c07rd harness (harness/c05.cpp) under the given environment'}
        rep.update(extra)
        ctx.violation(key, what, rep, found_input=found_input)

    nblocks = 0
    nvalid = 0
    for env in env_grid(rng, quick):
        sc = grid(rng, files, ffiles, quick)
        if quick:
            fixed = [s for s in sc if 'pbfLong' in s]
            rest = [s for s in sc if 'pbfLong' not in s]
            rng.shuffle(rest)
            sc = fixed + rest[:200]
        blocks = c05.run_process(hbin, scratch, env, defs, sc, max_failures=2)
        nblocks += len(blocks)
        ctx.count('env:' + c05.env_str(env))
        for b in blocks:
            ctx.note_case(c05.env_str(env) + ' ' + b.line)
            ctx.count('scenario:%s:%s' % (b.kv.get('fmt'), b.kv.get('src')))
            ctx.count('stop:%s' % b.kv.get('stop'))
            b.monitor_hit = check_block(ctx, b, files, ffiles, lambda k, w, e, b=b: report(k, w, e, b))
        if ctx.exe_build_ok:
            nvalid += c05.validate_traces(ctx, [b for b in blocks if b.events and not b.monitor_hit], alld, report)
        if len(blocks) < len(sc) and not ctx.violations:
            ctx.violation('harness-incomplete', 'only %d of %d scenarios ran under [%s]' % (len(blocks), len(sc), c05.env_str(env)), {'kind': 'check-error'}, found_input=False)
        if len(ctx.violations) >= 8:
            break
    ctx.extra['scenarios_run'] = nblocks
    ctx.extra['traces_validated'] = nvalid
    # (6) truncation sweep: the input ends early at every byte position (after the grid, so that the grid's rng stream is unchanged)
    if len(ctx.violations) < 8:
        ctx.extra['truncation_cuts'] = c07_trunc.truncation_pass(ctx, rng, quick, files, hbin, scratch,
                                                                 ctx.model_exe('model_c07') if ctx.exe_build_ok else None)
    if ctx.exe_build_ok and nvalid == 0 and not ctx.violations:
        ctx.violation('no-trace-validated', 'no trace could be validated against the model', {'kind': 'check-error'}, found_input=False)
