"""C09 — compressed input is decompressed completely, truncation is detected (DESIGN.md §3 C09).

1. proof stage: lean/Osmium/Props/C09.lean over lean/Osmium/Model/Decomp.lean (wrappers transcribed,
   zlib/libbz2 as library oracles with written-down contracts).  The five full theorems are about the code
   as it is (`Fixes.all`: after /repo commits 20beb73, 0ac7ff4, d74b2ae); `Fixes.none` (the code before
   them) is kept with its refutation witnesses: the seven finding keys below are regression probes.
2. correspondence (harness/c09.cpp, two binaries: Decompressor::input_buffer_size = 64 via the
   OSMIUM_VERIF_INPUT_BUFFER_SIZE hook, and the real 1 MiB): the REAL decompressors created through
   CompressionFactory and driven by the ReadThreadManager loop, vs the compiled Lean model that gets the
   per-stream (compressed size, payload size) computed with Python's gzip/bz2 at generation time.
   Compared: status, sequence of chunk lengths, offsets after every read().
   Which repairs the tree under test has is probed on six tiny files first, so that after a regression the
   model still follows the tree and the report consists of the concrete failing files found by the monitors
   (which do not depend on the probe) rather than of a flood of correspondence lines.
3. property monitors on the implementation alone: bytes == reference decompression (Python) of the file;
   offset() <= file size at every read; every truncation inside a stream must raise; output of the
   library's own compressors is reference-readable and is read back identically; the real
   ReadThreadManager + queue gives what the in-thread loop gives.
4. corruption sweep BY STRUCTURE (section G): {gzip, bzip2} x {fd decompressor, buffer decompressor, whole
   Reader from a file name / from a buffer} x files of 1..4 members (tiny, empty-payload, payload = k*ibs,
   member boundary at / next to the libbz2 5000-byte read-ahead edge and zlib's 8192-byte input buffer edge):
   EVERY byte of every member header (all members, not only the first) and trailer, the bzip2 block header,
   a sample (quick) / all (thorough) body positions, several replacement values.  Monitor = the property:
   the outcome is an error, or the delivered bytes are identical to the ORIGINAL payload (harmless damage in
   a don't-care field) — never "the reference accepts it too" (Python's bz2/gzip ignore trailing garbage).
   The same cases go through the model with an oracle line computed by scanning the damaged file with the
   reference libraries (per stream: compressed size, bytes decoded before the library reports, and whether
   it reports end / out-of-input / data error / no header), so the model's error branches — a bad header of
   a LATER stream included — are tied to the code.
"""
import bz2
import gzip
import os
import random
import zlib

import vlib

RA = 5000          # BZ_MAX_UNUSED
OSTEP = 10240      # buffer_size in the buffer decompressors
MIB = 1024 * 1024

WHAT = {
    'gzip-buffer-multistream-dropped': '[regression of fix 20beb73] GzipBufferDecompressor stops at the first Z_STREAM_END: members after the first in a memory buffer are dropped silently (gzip_compression.hpp:309-313; DESIGN.md F11a)',
    'bzip2-buffer-multistream-dropped': '[regression of fix 0ac7ff4] Bzip2BufferDecompressor stops at the first BZ_STREAM_END: streams after the first in a memory buffer are dropped silently (bzip2_compression.hpp:393-398; F11a)',
    'bzip2-fd-multistream-tail-in-readahead': '[regression of fix d74b2ae] Bzip2Decompressor tests !feof before BZ2_bzReadGetUnused: when the rest of the file is already in the 5000-byte read-ahead the following streams are dropped (bzip2_compression.hpp:296-320; F11b)',
    'bzip2-fd-multistream-at-readahead-boundary': '[regression of fix d74b2ae] Bzip2Decompressor: a stream that ends exactly at a read-ahead boundary has num_unused == 0 -> m_stream_end, the following streams are dropped (bzip2_compression.hpp:304-317; F11c)',
    'bzip2-fd-empty-chunk-midfile': '[regression of fix d74b2ae] Bzip2Decompressor::read returns an empty string in the middle of the file (stream with empty payload / payload a multiple of input_buffer_size): the read thread takes it for the end of the data (bzip2_compression.hpp:322; read_thread.hpp:76; F11d)',
    'gzip-buffer-truncation-accepted': '[regression of fix 20beb73] GzipBufferDecompressor: a buffer that ends inside a gzip member is accepted when an inflate() call consumes input without producing output (cut inside the header / first block, or right after an exact 10240-byte step): Z_OK with an empty chunk ends the reading (gzip_compression.hpp:309-327; F11e)',
    'corruption-accepted:gzip-fd:magic-of-first-member': '[regression of the gzdirect() check] GzipDecompressor (fd): a file whose first two bytes are not the gzip magic (damaged ID1/ID2 of the first member, a one-byte file) is copied verbatim by gzread ("transparent" reading): the raw compressed bytes are delivered as if they were the payload, no error (gzip_compression.hpp GzipDecompressor::read)',
    'corruption-accepted:gzip-fd:magic-of-later-member': 'GzipDecompressor (fd, also Reader on a file name): damaged ID1/ID2 (1f 8b) of a gzip member other than the first: zlib gzread takes the rest of the file for trailing garbage (gz_look) and reports nothing; the members from the damaged one on are dropped silently, close() succeeds',
    'bzip2-buffer-truncation-accepted': '[regression of fix 0ac7ff4] Bzip2BufferDecompressor never detects input that ends inside a stream: BZ2_bzDecompress returns BZ_OK without progress, the empty chunk ends the reading (bzip2_compression.hpp:393-404)',
}


def rle(xs):
    out = []
    cur, n = None, 0
    for x in xs:
        if n and x == cur:
            n += 1
        else:
            if n:
                out.append('%d' % cur if n == 1 else '%dx%d' % (cur, n))
            cur, n = x, 1
    if n:
        out.append('%d' % cur if n == 1 else '%dx%d' % (cur, n))
    return ','.join(out) or '-'


def unrle(s):
    if s == '-':
        return []
    out = []
    for it in s.split(','):
        if 'x' in it:
            v, n = it.split('x')
            out += [int(v)] * int(n)
        else:
            out.append(int(it))
    return out


def compress(kind, p, level=None):
    if kind == 'gzip':
        return gzip.compress(p, 6 if level is None else level, mtime=0)
    if kind == 'bzip2':
        return bz2.compress(p, 9 if level is None else level)
    return p


def reference(kind, data):
    """the reference decompressor: ('ok', bytes) | ('err', class name)"""
    try:
        if kind == 'gzip':
            return 'ok', gzip.decompress(data)
        if kind == 'bzip2':
            return 'ok', bz2.decompress(data)
        return 'ok', data
    except Exception as e:  # noqa: BLE001
        return 'err', type(e).__name__


class Gen:
    """payloads and files; everything random derives from ctx.rng"""

    def __init__(self, ctx, scratch):
        self.ctx = ctx
        self.scratch = scratch
        self.nfiles = 0
        self.rnd = random.Random(ctx.rng.next())

    def payload(self, n, compressible=False):
        if n == 0:
            return b''
        if compressible:
            unit = bytes(self.rnd.getrandbits(8) for _ in range(37))
            return (unit * (n // 37 + 1))[:n]
        return self.rnd.randbytes(n)

    def write(self, data):
        path = os.path.join(self.scratch, 'f%d' % self.nfiles)
        self.nfiles += 1
        with open(path, 'wb') as f:
            f.write(data)
        return path

    def bz_sized(self, target, mult=None, notmult=None):
        """a payload whose bz2 stream is exactly `target` bytes long (payload length a multiple of `mult` /
        not a multiple of `notmult`), or None.  Payload = r random bytes + a run of one byte; r is searched."""
        s = int(target * 0.93)
        if mult:
            s -= s % mult
        elif notmult and s % notmult == 0:
            s += 1 + self.rnd.randrange(notmult - 1)
        for _ in range(4):
            base = self.rnd.randbytes(s)
            fill = bytes([self.rnd.randrange(256)])

            def build(r):
                return base[:r] + fill * (s - r)
            lo, hi = 0, s
            while hi - lo > 8:
                mid = (lo + hi) // 2
                if len(bz2.compress(build(mid), 9)) < target:
                    lo = mid
                else:
                    hi = mid
            for r in range(max(0, lo - 12), min(s, hi + 12) + 1):
                p = build(r)
                if len(bz2.compress(p, 9)) == target:
                    return p
        return None


def trunc_oracle(kind, part):
    """what the library can decode from the first bytes `part` of a stream: (decodable, slack)"""
    if kind == 'gzip':
        d = zlib.decompressobj(31)
        try:
            out = d.decompress(part)
        except zlib.error:
            return None
        n = len(out)
        slack = False
        if n > 0 and n % OSTEP == 0:
            d2 = zlib.decompressobj(31)
            d2.decompress(part, n)
            slack = len(d2.unconsumed_tail) > 0
        return n, slack
    d = bz2.BZ2Decompressor()
    try:
        out = d.decompress(part)
    except (OSError, ValueError):
        return None
    return len(out), False


def ends_inside_stream(kind, data):
    """the reference library consumes the whole input without an error and without reaching the end of a stream"""
    try:
        if kind == 'gzip':
            d = zlib.decompressobj(31)
            d.decompress(data)
            return not d.eof
        d = bz2.BZ2Decompressor()
        d.decompress(data)
        return not d.eof
    except Exception:  # noqa: BLE001
        return False


Z_OUT = 16384      # gzread's internal output buffer (2 * default gzbuffer size 8192)


def lib_decode(kind, rest, room):
    """What the decompression library (inflate with header auto-detection as in GzipBufferDecompressor /
    BZ2_bzDecompress) makes of the bytes `rest` taken as ONE stream when it is driven the way the wrapper
    drives it — one call per `room` bytes of output space:
       ('end', n, csize)  complete valid stream of csize bytes with n payload bytes
       ('trunc', n)       all input consumed, no error, no end of stream
       ('bad', n)         data error; n = bytes handed out by the calls before the one that reports it (each of
                          them fills its `room` bytes; whether the call that produces the last decodable byte
                          already notices the damage depends on the decoder state at that byte, so the calls are
                          made with the real output size)"""
    def mk():
        return zlib.decompressobj(47) if kind == 'gzip' else bz2.BZ2Decompressor()
    d = mk()
    try:
        out = d.decompress(rest)
        if d.eof:
            return ('end', len(out), len(rest) - len(d.unused_data))
        return ('trunc', len(out))
    except (zlib.error, OSError, ValueError):
        pass
    d = mk()
    n = 0
    try:
        if kind == 'gzip':
            buf = rest
            while True:
                o = d.decompress(buf, room)
                buf = d.unconsumed_tail
                if len(o) < room:
                    break           # (not reached: the damage is reported by an exception)
                n += len(o)
        else:
            o = d.decompress(rest, room)
            while len(o) == room:
                n += len(o)
                o = d.decompress(b'', room)
    except (zlib.error, OSError, ValueError):
        pass
    return ('bad', n)


def bz_fd_calls_before_error(data, pos, room):
    """BZ2_bzRead(len = room) on the stream that starts at file offset `pos`, with the input arriving the way
    bzlib.c feeds it: whenever avail_in == 0, the next block of the FILE up to the next multiple of 5000.
    Returns the bytes handed out by the calls before the failing one.  (With all input at hand libbz2 notices
    damage in the end-of-stream marker / combined CRC in the call that produces the last payload byte; when
    those bytes are still in the FILE it returns BZ_OK first.)"""
    d = bz2.BZ2Decompressor()
    fp = pos
    n = 0
    try:
        while True:
            got = 0
            while True:
                chunk = b''
                if d.needs_input:
                    if fp >= len(data):
                        return n
                    end = min(len(data), (fp // RA + 1) * RA)
                    chunk = data[fp:end]
                    fp = end
                got += len(d.decompress(chunk, room - got))
                if d.eof:
                    return n
                if got == room:
                    break
            n += room
    except (OSError, ValueError):
        return n


def bz_header_bad(rest):
    """libbz2 compares the first four bytes with 'B','Z','h','1'..'9' one by one (BZ_DATA_ERROR_MAGIC)"""
    for i, b in enumerate(rest[:4]):
        if i < 3 and b != b'BZh'[i]:
            return True
        if i == 3 and not (0x31 <= b <= 0x39):
            return True
    return False


def scan_layout(kind, data, mode, ibs=64):
    """oracle fields for the model for ANY file (damaged ones included): the file as the library sees it,
    stream by stream, up to the first stream that is cut or damaged"""
    out = []
    pos = 0
    # output space per library call: gzread decodes into its 16 KiB buffer (all of a failing fill is lost),
    # BZ2_bzRead gets the wrapper's input_buffer_size, the buffer decompressors 10240 bytes
    room = OSTEP if mode == 'buf' else (Z_OUT if kind == 'gzip' else ibs)
    while pos < len(data):
        rest = data[pos:]
        first = pos == 0
        if kind == 'gzip' and mode == 'fd' and rest[:2] != b'\x1f\x8b':
            # gzlib gz_look: no magic -> the whole file is copied verbatim (first) / trailing garbage, ignored (later)
            out.append('%d:%d:m' % (len(rest), len(rest) if first else 0))
            break
        r = lib_decode(kind, rest, room)
        if r[0] == 'end':
            out.append('%d:%d' % (r[2], r[1]))
            pos += r[2]
            continue
        if r[0] == 'trunc':
            o = trunc_oracle(kind, rest)
            if o is None:
                return None
            out.append('%d:%d:%s' % (len(rest), o[0], 'ts' if o[1] else 't'))
            break
        n = r[1]
        if kind == 'bzip2' and mode == 'fd':
            n = bz_fd_calls_before_error(data, pos, room)
        magic = n == 0 and (bz_header_bad(rest) if kind == 'bzip2' else rest[:2] != b'\x1f\x8b')
        out.append('%d:%d:%s' % (len(rest), n, 'm' if magic else 'd'))
        break
    return out


def repl_values(b, rnd, full):
    """replacement values for one byte: flip the lowest / the highest / a random bit, flip case, 0x00, 0xff, digit -> '0'"""
    vals = [b ^ 1, b ^ 0x20, 0x00, 0xff, b ^ (1 << rnd.randrange(8))]
    if full:
        vals += [b ^ 0x80]
    if 0x31 <= b <= 0x39:
        vals.append(0x30)
    out = []
    for v in vals:
        if v != b and v not in out:
            out.append(v)
    return out


def member_regions(kind, members):
    """[(file position, member index, region, offset in member)] for every byte of the file;
    region: hdr (gzip: the 10 header bytes; bzip2: 'BZh9') | blk (bzip2 block magic + block CRC) | body | trl
    (gzip: CRC32 + ISIZE; bzip2: end-of-stream magic + combined CRC, bit-aligned: the last 10 bytes)"""
    out = []
    pos = 0
    for mi, m in enumerate(members):
        n = len(m)
        hl = 10 if kind == 'gzip' else 4
        tl = 8 if kind == 'gzip' else 10
        for off in range(n):
            if off < hl:
                reg = 'hdr'
            elif off >= n - tl:
                reg = 'trl'
            elif kind == 'bzip2' and off < 14:
                reg = 'blk'
            else:
                reg = 'body'
            out.append((pos + off, mi, reg, off))
        pos += n
    return out


class Case:
    """one file + how it is read"""
    __slots__ = ('kind', 'mode', 'ibs', 'members', 'payloads', 'cut', 'path', 'data', 'streams', 'tag', 'exact_offs', 'zlib_dilemma')


def streams_field(c):
    return ','.join(c.streams) if c.streams else '-'


def layout(c):
    """oracle fields for the model: per stream csize:payload[:t|:ts]; None if the oracle is not available"""
    kind = c.kind
    if kind == 'none':
        n = len(c.data)
        return ['%d:%d' % (n, n)] if n else []
    out = []
    pos = 0
    T = len(c.data)
    c.zlib_dilemma = False
    for m, p in zip(c.members, c.payloads):
        if pos >= T:
            break
        if pos + len(m) <= T:
            out.append('%d:%d' % (len(m), len(p)))
        else:
            part = c.data[pos:T]
            o = trunc_oracle(kind, part)
            if o is None:
                return None
            if kind == 'gzip' and len(part) == 1:
                # a lone first byte of a member: zlib documents that it cannot tell (gz_look needs two bytes to see
                # the magic): gzread copies it (start of the file) / ignores it as trailing garbage (after a member)
                c.zlib_dilemma = True
                if c.mode == 'fd':
                    out.append('1:%d:m' % (1 if pos == 0 else 0))
                    pos += len(m)
                    continue
            out.append('%d:%d:%s' % (len(part), o[0], 'ts' if o[1] else 't'))
        pos += len(m)
    return out


def run(ctx):
    ctx.rule = ('each case = (compression, fd|buffer, input_buffer_size, file); files: every splitting of payload sizes '
                '{0,1,ibs-1,ibs,ibs+1,2ibs,...} into 1..4 separately compressed streams (Python gzip/bz2 = reference), bzip2 streams whose '
                'compressed end falls at every offset around the 5000-byte read-ahead boundary (4990..5012, 10000) with a short / long tail and '
                'payload a multiple / not a multiple of ibs, payloads around the 10240-byte output step, (thorough) the real 1 MiB boundary +-1 and '
                'several-MiB payloads; every truncation length and single-byte corruptions of small files; output of the real compressors for every '
                'write-piece size. distinct = distinct (op, layout) lines; non-trivial = more than one stream, or truncated/corrupted, or payload >= one buffer')
    ctx.assumptions += [
        'zlib: gzread delivers min(n, remaining payload of all members) bytes, records Z_BUF_ERROR when the file ends inside a member (reported by gzclose_r); '
        'inflate/BZ2_bzDecompress on a whole buffer stop at the end of the first stream and return STREAM_END in the call that produces its last byte',
        'libbz2: BZ2_bzRead as in bzlib.c 1.0.8 (5000-byte fread blocks, myfeof probe, BZ_UNEXPECTED_EOF); streams in the correspondence are single-block for the '
        'offset comparison (payload <= 800 kB), chunk lengths are compared for all sizes',
        'glibc stdio: feof() is true after an fread that came back short or an fgetc at the end of the file',
        'gzread (gzlib gz_look): bytes that do not start with 1f 8b are copied verbatim at the start of the file (gzdirect(): refused by the wrapper since '
        '/repo d0f1d5d) and ignored as trailing garbage after at least one member (known finding corruption-accepted:gzip-fd:magic-of-later-member); '
        'a single byte after complete members is the same case for zlib (it needs two bytes to see the magic): counted as excluded:zlib-lone-byte-after-members; '
        'a damaged member makes the gzread call that needs the 16 KiB internal output buffer in which the damage is decoded return -1',
        'damaged streams: the reference libraries (Python zlib with header auto-detection / bz2) driven with the output size the wrapper uses (input_buffer_size / '
        '10240 / gzread\'s 16 KiB; BZ2_bzRead: input fed in its 5000-byte FILE blocks) give the number of bytes a library hands out before the call that reports the data error; offsets reported while reading a '
        'damaged file are only checked against the file size, not against the model',
        'bytes after the last stream that are not a complete valid stream (trailing garbage) are a damaged / cut last stream']
    ctx.trusted.append('Python 3 gzip/bz2/zlib modules as reference compressor/decompressor and as the source of the per-stream sizes given to the model')

    ctx.proof_stage(exes=['model_c09'])

    h64, err = vlib.build_cpp('c09s', ['c09.cpp'], flags=['-DOSMIUM_VERIF_INPUT_BUFFER_SIZE=64'])
    hbig, err2 = (None, None)
    if h64 is not None:
        hbig, err2 = vlib.build_cpp('c09', ['c09.cpp'])
    if h64 is None or hbig is None:
        e = err or err2
        ctx.violation('harness-build', 'harness does not compile against the current tree: ' + e[-600:],
                      {'kind': 'harness-build', 'stderr': e}, found_input=False)
        return
    scratch = os.path.join(vlib.BUILD, 'c09-%d' % os.getpid())
    os.makedirs(scratch, exist_ok=True)
    try:
        _run(ctx, {64: h64, MIB: hbig}, scratch)
    finally:
        for f in os.listdir(scratch):
            os.remove(os.path.join(scratch, f))
        os.rmdir(scratch)


def classify_drop(c, delivered):
    """a stable key for 'streams after the j-th are missing' from the layout of the file alone"""
    if c.mode == 'buf':
        return '%s-buffer-multistream-dropped' % c.kind
    if c.kind != 'bzip2':
        return None
    tot = 0
    e = 0
    for m, p in zip(c.members, c.payloads):
        e += len(m)
        tot += len(p)
        if tot >= delivered and e <= len(c.data):
            break
    F = len(c.data)
    if e >= F:
        return None
    if e % RA == 0:
        return 'bzip2-fd-multistream-at-readahead-boundary'
    if F <= ((e + RA - 1) // RA) * RA:
        return 'bzip2-fd-multistream-tail-in-readahead'
    return 'bzip2-fd-empty-chunk-midfile'


def parse_out(line):
    """harness/model line -> dict"""
    d = {'raw': line, 'status': line.split(' ', 1)[0]}
    for tok in line.replace('|', ' ').split()[1:]:
        if '=' in tok:
            k, v = tok.split('=', 1)
            d[k] = v
    return d


def _run(ctx, hbin, scratch):
    rng = ctx.rng
    quick = ctx.tier == 'quick'
    g = Gen(ctx, scratch)

    def mk(kind, mode, ibs, payloads, cut=None, tag='', level=None, data=None):
        c = Case()
        c.kind, c.mode, c.ibs, c.payloads, c.cut, c.tag = kind, mode, ibs, payloads, cut, tag
        c.members = [compress(kind, p, level) for p in payloads]
        c.data = b''.join(c.members) if data is None else data
        if cut is not None:
            c.data = c.data[:cut]
        c.path = None
        c.zlib_dilemma = False
        c.exact_offs = not (kind == 'gzip' and mode == 'fd') and max([len(p) for p in payloads] + [0]) <= 800000
        return c

    # ------------------------------------------------------------------ which repairs does the tree have?
    probes = [mk('gzip', 'buf', 64, [b'abcde', b'fghijkl']), mk('bzip2', 'buf', 64, [b'abcde', b'fghijkl']),
              mk('bzip2', 'fd', 64, [b'abcde', b'fghijkl']), mk('bzip2', 'fd', 64, [b'', b'fghijkl']),
              mk('gzip', 'buf', 64, [b'abcde' * 9], cut=5), mk('bzip2', 'buf', 64, [b'abcde' * 9], cut=30),
              mk('gzip', 'fd', 64, [b'abcde' * 9], data=b'\x00' + compress('gzip', b'abcde' * 9)[1:])]
    for c in probes:
        c.path = g.write(c.data)
    rc, pout, se = ctx.run_lines([hbin[64]], ''.join('rd %s %s 64 %s\n' % (c.kind, c.mode, c.path) for c in probes))
    if rc != 0 or len(pout) != len(probes):
        ctx.violation('harness-crash', 'harness exited %d on the probe files: %s' % (rc, se[-500:]), {'kind': 'harness-crash', 'stderr': se[-2000:]}, found_input=False)
        return
    pr = [parse_out(l) for l in pout]
    fx_buf_multi = pr[0].get('total') == '12' and pr[1].get('total') == '12'
    fx_bz = pr[2].get('total') == '12' and pr[3].get('total') == '7'
    fx_buf_trunc = pr[4]['status'].startswith('err') and pr[5]['status'].startswith('err')
    fx_gzdirect = pr[6]['status'].startswith('err')
    fx = '%d%d%d%d' % (fx_buf_multi, fx_bz, fx_buf_trunc, fx_gzdirect)
    ctx.extra['repairs_detected_in_tree'] = {'bufMulti': fx_buf_multi, 'bzUnused': fx_bz, 'bufTrunc': fx_buf_trunc, 'gzDirect': fx_gzdirect}
    ctx.count('tree-fixes:' + fx)
    if fx != '1111':
        ctx.count('regression-probe:repair-missing')

    cases = []

    def add(kind, payloads, ibs=64, modes=('fd', 'buf'), **kw):
        for mode in modes:
            cases.append(mk(kind, mode, ibs, payloads, **kw))

    # ------------------------------------------------------------------ A. small payload sizes x splittings (ibs = 64)
    S = [0, 1, 63, 64, 65, 127, 128, 129, 200]
    S2 = [0, 1, 64, 65, 128]
    pl = {n: g.payload(n) for n in set(S + S2 + [5, 10, 100, 192, 300])}
    for kind in ('gzip', 'bzip2'):
        for a in S:
            add(kind, [pl[a]], tag='single')
        for a in S2:
            for b in S2:
                add(kind, [pl[a], pl[b]], tag='two')
        trip = [(a, b, c) for a in (0, 1, 64) for b in (0, 64, 65) for c in (0, 1, 128)]
        if quick:
            rng.shuffle(trip)
            trip = trip[:10]
        for t in trip:
            add(kind, [pl[x] for x in t], tag='three')
        for _ in range(6 if quick else 60):
            t = [rng.choice(S2) for _ in range(4)]
            add(kind, [pl[x] for x in t], tag='four')
    for n in (0, 1, 63, 64, 65, 128, 300):
        add('none', [pl.get(n, g.payload(n))], tag='none')

    # ------------------------------------------------------------------ B. bzip2: stream ends around the read-ahead boundary
    tail_small = g.payload(10)
    tail_big = g.payload(6000)
    bz_aligned = {}
    ends = list(range(4988, 5013)) + [9999, 10000, 10001]
    if quick:
        keep = {4989, 4990, 4999, 5000, 5001, 5009, 5010, 5011, 10000}
        ends = [e for e in ends if e in keep or rng.chance(1, 4)]
    for e in ends:
        for mult in (True, False):
            p1 = g.bz_sized(e, mult=64 if mult else None, notmult=None if mult else 64)
            if p1 is None:
                ctx.count('bz-sized-miss')
                continue
            bz_aligned[(e, mult)] = p1
            add('bzip2', [p1], tag='align-single', modes=('fd',))
            add('bzip2', [p1, tail_small], tag='align-short-tail', modes=('fd',))
            add('bzip2', [p1, tail_big], tag='align-long-tail', modes=('fd',))
            if not quick or rng.chance(1, 3):
                add('bzip2', [p1, b'', tail_big], tag='align-empty-mid', modes=('fd',))
                add('bzip2', [tail_small, p1, tail_big, tail_small], tag='align-4', modes=('fd', 'buf'))
    # the whole file a multiple of the read-ahead: feof is only set by a probe
    for e in (5000, 10000):
        p1 = g.bz_sized(e - 14)
        if p1 is not None:
            add('bzip2', [p1, b''], tag='align-file-multiple', modes=('fd',))
            add('bzip2', [b'', p1], tag='align-file-multiple', modes=('fd',))
    add('bzip2', [b'', tail_big], tag='empty-first', modes=('fd',))
    add('bzip2', [pl[64], tail_big], tag='ibs-first', modes=('fd',))
    add('bzip2', [pl[128], tail_big, pl[5]], tag='ibs-first', modes=('fd',))
    add('gzip', [pl[64], tail_big, b'', pl[5]], tag='gzip-long')

    # ------------------------------------------------------------------ C. the 10240-byte output step (buffer decompressors), zlib's 8192/16384 buffers
    steps = [10239, 10240, 10241, 20480] if quick else [10239, 10240, 10241, 20479, 20480, 20481, 8191, 8192, 8193, 16384, 16385, 30720]
    for kind in ('gzip', 'bzip2'):
        for n in steps:
            p = g.payload(n, compressible=rng.chance(1, 2))
            add(kind, [p], tag='ostep-single')
            add(kind, [p, pl[5]], tag='ostep-two')
            if not quick or rng.chance(1, 2):
                add(kind, [pl[1], p, b'', p[:OSTEP]], tag='ostep-four')

    # ------------------------------------------------------------------ D. the real input_buffer_size (1 MiB)
    bigsizes = [MIB] if quick else [MIB - 1, MIB, MIB + 1, 2 * MIB, 3 * MIB + 17, 5 * MIB]
    for kind in ('gzip', 'bzip2'):
        for n in bigsizes:
            p = g.payload(n, compressible=True)
            add(kind, [p], ibs=MIB, tag='mib-single')
            add(kind, [p, pl[5]], ibs=MIB, tag='mib-two')
            if not quick:
                add(kind, [pl[5], p, b'', p[:MIB]], ibs=MIB, tag='mib-four')
        add(kind, [pl[5], pl[100]], ibs=MIB, tag='mib-small')
        add(kind, [b'', pl[100]], ibs=MIB, tag='mib-small')
    if not quick:
        for kind in ('gzip', 'bzip2'):
            p = g.payload(2 * MIB + 3)           # incompressible: multi-block bzip2, long compressed tail
            add(kind, [p, pl[5]], ibs=MIB, tag='mib-random')
            add(kind, [g.payload(MIB), p], ibs=MIB, tag='mib-random')
    add('none', [g.payload(MIB + 5, compressible=True)], ibs=MIB, tag='none')

    # ------------------------------------------------------------------ E. truncations: every length of small files
    tcases = []
    tfiles = [[pl[0]], [pl[5]], [pl[100]], [pl[64], pl[10]], [g.payload(300, compressible=True)],
              [pl[5], pl[0], pl[5]], [pl[1], pl[0], pl[10], pl[5]]]
    if not quick:
        tfiles += [[pl[0], pl[5]], [pl[128], pl[0], pl[65]], [pl[0], pl[0]], [pl[64], pl[64], pl[1], pl[0]]]
    for kind in ('gzip', 'bzip2'):
        for ps in tfiles:
            full = b''.join(compress(kind, p) for p in ps)
            for t in range(1, len(full)):
                for mode in ('fd', 'buf'):
                    tcases.append(mk(kind, mode, 64, ps, cut=t, tag='trunc'))
        # cuts around an exact 10240-byte step of decodable output (gzip buffer: slack), and a long file
        p = g.payload(OSTEP + 300)
        full = compress('gzip', p)
        lo = hi = None
        for t in range(OSTEP - 200, len(full)):
            o = trunc_oracle('gzip', full[:t])
            if o and o[0] >= OSTEP - 2 and lo is None:
                lo = t
            if o and o[0] > OSTEP + 2:
                hi = t
                break
        if kind == 'gzip' and lo is not None:
            for t in range(lo, hi or lo + 6):
                for mode in ('fd', 'buf'):
                    tcases.append(mk('gzip', mode, 64, [p], cut=t, tag='trunc-step'))
        for t in sorted({rng.below(len(compress(kind, p)) - 1) + 1 for _ in range(6 if quick else 60)}):
            for mode in ('fd', 'buf'):
                tcases.append(mk(kind, mode, 64, [p], cut=t, tag='trunc-long'))
                tcases.append(mk(kind, mode, 64, [pl[5], p], cut=len(compress(kind, pl[5])) + t, tag='trunc-long2'))
    cases += tcases

    # ------------------------------------------------------------------ write files, build op lines
    by_data = {}
    ops = []
    good = []
    for c in cases:
        c.streams = layout(c)
        if c.streams is None:
            ctx.count('oracle-unavailable')
            continue
        key = (c.kind, c.data)
        if key not in by_data:
            by_data[key] = g.write(c.data)
        c.path = by_data[key]
        good.append(c)
        ops.append('rd %s %s %d %s %s %s' % (c.kind, c.mode, c.ibs, c.path, fx, streams_field(c)))
    cases = good

    def nontrivial(c):
        return len(c.payloads) > 1 or c.cut is not None or sum(len(p) for p in c.payloads) >= c.ibs

    for c, o in zip(cases, ops):
        w = o.split()
        ctx.note_case(' '.join(w[:4] + w[5:]) + ' ' + c.tag, nontrivial=nontrivial(c))
        ctx.count('case:%s:%s:%s' % (c.kind, c.mode, c.tag))
    for i in (3, len(ops) // 3, len(ops) // 2, len(ops) - 5):
        ctx.sample(ops[i][:300])

    # ------------------------------------------------------------------ run implementation and model
    impl = [None] * len(ops)
    model = [None] * len(ops)
    for ibs in (64, MIB):
        idx = [i for i, c in enumerate(cases) if c.ibs == ibs]
        if not idx:
            continue
        text = ''.join(ops[i] + '\n' for i in idx)
        rc, out, se = ctx.run_lines([hbin[ibs]], text, env={'VERIF_OP_TIMEOUT': os.environ.get('VERIF_OP_TIMEOUT', '60')})
        if rc == -14 and len(out) < len(idx):
            # the per-op watchdog of the harness fired: this op never came back
            hop = ops[idx[len(out)]]
            ctx.violation('decompressor-hangs:' + ' '.join(hop.split()[:3]),
                          'the real decompressor does not come back on `%s` (ibs=%d; harness op watchdog, %s s): a read()/close() call loops for ever'
                          % (hop[:300], ibs, os.environ.get('VERIF_OP_TIMEOUT', '60')),
                          {'kind': 'counterexample', 'op': hop, 'replay': 'echo "<op>" | <c09 harness>'})
            return
        if rc != 0 or len(out) != len(idx):
            ctx.violation('harness-crash', 'harness (ibs=%d) exited %d after %d of %d lines: %s' % (ibs, rc, len(out), len(idx), se[-500:]),
                          {'kind': 'harness-crash', 'stderr': se[-2000:], 'next_op': ops[idx[min(len(out), len(idx) - 1)]]}, found_input=False)
            return
        for i, l in zip(idx, out):
            impl[i] = l
        if ctx.exe_build_ok:
            rc, out, se = ctx.run_lines([ctx.model_exe('model_c09')], text)
            if rc == 0 and len(out) == len(idx):
                for i, l in zip(idx, out):
                    model[i] = l
            else:
                ctx.violation('model-driver-crash', 'model driver exited %d (%d of %d lines): %s' % (rc, len(out), len(idx), se[-300:]),
                              {'kind': 'broken-correspondence'}, found_input=False)
                return

    # ------------------------------------------------------------------ property monitors (implementation vs reference)
    def viol(key, c, op, got, extra=''):
        what = WHAT.get(key, key)
        ctx.violation(key, '%s — e.g. %s %s, streams (compressed:payload) [%s]%s: `%s` -> %s'
                      % (what, c.kind, c.mode, ' '.join(c.streams), extra, op, got),
                      {'kind': 'counterexample', 'op': op, 'impl': got, 'compression': c.kind, 'mode': c.mode, 'input_buffer_size': c.ibs,
                       'payload_sizes': [len(p) for p in c.payloads], 'compressed_sizes': [len(m) for m in c.members], 'cut': c.cut,
                       'file_hex': c.data.hex() if len(c.data) <= 32768 else '<%d bytes: streams compressed with Python %s, see payload_sizes>' % (len(c.data), c.kind),
                       'replay': 'write file_hex to <path>; echo "rd %s %s %d <path>" | <harness c09 built with -DOSMIUM_VERIF_INPUT_BUFFER_SIZE=%d>' % (c.kind, c.mode, c.ibs, c.ibs)})

    for c, op, line in zip(cases, ops, impl):
        r = parse_out(line)
        ctx.count('result:%s:%s:%s' % (c.kind, c.mode, r['status']))
        offs = unrle(r.get('offs', '-'))
        fsize = len(c.data)
        if offs and max(offs) > fsize:
            viol('offset-exceeds-file-size:%s-%s' % (c.kind, c.mode), c, op, line, ' (offset %d > size %d)' % (max(offs), fsize))
        if any(a > b for a, b in zip(offs, offs[1:])):
            ctx.count('offset-not-monotone')
        if r['status'].startswith('hang'):
            # the harness watchdog cut a read loop that did not end (or produced > 4 GiB from a small file)
            viol('read-loop-does-not-end:%s-%s' % (c.kind, c.mode), c, op, line, ' (Decompressor::read() never returns the empty string)')
            continue
        ref_status, ref = reference(c.kind, c.data)
        want_total, want_crc = (len(ref), '%08x' % zlib.crc32(ref)) if ref_status == 'ok' else (None, None)
        truncated_stream = any(s.endswith(':t') or s.endswith(':ts') for s in c.streams)
        if c.zlib_dilemma and c.mode == 'fd':
            if len(c.data) > 1:
                # one byte after complete members: zlib's documented dilemma (same rule as trailing garbage)
                ctx.count('excluded:zlib-lone-byte-after-members')
                continue
            if r['status'] == 'ok':
                viol('corruption-accepted:gzip-fd:magic-of-first-member', c, op, line,
                     ' (a one-byte file: gzread copies it verbatim, gzdirect() is not checked)')
            continue
        if truncated_stream:
            # the file ends inside a stream: must be an error
            if r['status'] == 'ok':
                delivered = int(r['total'])
                intact_total = sum(int(s.split(':')[1]) for s in c.streams if s.count(':') == 1)
                nint = sum(1 for s in c.streams if s.count(':') == 1)
                if nint >= 1 and delivered < intact_total or (nint >= 1 and delivered == intact_total and classify_drop(c, delivered) and c.mode == 'fd'):
                    key = classify_drop(c, delivered) or 'truncation-accepted:%s-%s' % (c.kind, c.mode)
                elif c.mode == 'buf' and nint >= 1:
                    key = '%s-buffer-multistream-dropped' % c.kind
                elif c.mode == 'buf':
                    key = '%s-buffer-truncation-accepted' % c.kind
                else:
                    key = 'truncation-accepted:%s-%s' % (c.kind, c.mode)
                viol(key, c, op, line, ' cut at %d of %d' % (len(c.data), sum(len(m) for m in c.members)))
            continue
        if ref_status != 'ok':
            continue
        if r['status'] != 'ok':
            if len(c.data) == 0:
                ctx.count('empty-file-rejected:%s-%s' % (c.kind, c.mode))
                continue
            viol('valid-file-rejected:%s-%s' % (c.kind, c.mode), c, op, line)
        elif int(r['total']) != want_total or r['crc'] != want_crc:
            key = None
            if int(r['total']) < want_total and want_crc is not None and len(c.streams) > 1:
                key = classify_drop(c, int(r['total']))
            viol(key or 'wrong-bytes:%s-%s' % (c.kind, c.mode), c, op, line, ' (reference: %d bytes crc %s)' % (want_total, want_crc))

    # ------------------------------------------------------------------ correspondence: model vs implementation
    def canon(line, c):
        r = parse_out(line)
        head = '%s lens=%s total=%s' % (r['status'], r.get('lens'), r.get('total'))
        offs = unrle(r.get('offs', '-'))
        if not c.exact_offs:
            offs = offs[-1:]
        return '%s | offs=%s fsize=%s' % (head, rle(offs), r.get('fsize'))

    if all(m is not None for m in model):
        idx = list(range(len(cases)))
        a = [canon(impl[i], cases[i]) for i in idx]
        b = [canon(model[i], cases[i]) for i in idx]
        dis = ctx.diff_streams('c09-model-vs-impl', [ops[i] for i in idx], a, b)
        for m in model:
            ctx.count('model-status:' + m.split()[0])
        if dis:
            i, op, x, y = dis[0]
            ctx.violation('correspondence:' + ' '.join(op.split()[:4]),
                          'model and implementation disagree (%d lines; first `%s`: impl=%s model=%s)' % (len(dis), op[:200], x[:200], y[:200]),
                          {'kind': 'broken-correspondence', 'stream': 'c09-model-vs-impl', 'first': dis[:5]}, found_input=False)
    else:
        ctx.violation('model-driver-build', 'model driver does not build', {'kind': 'broken-correspondence'}, found_input=False)

    # ------------------------------------------------------------------ F. the real ReadThreadManager + queue gives the same as the in-thread loop
    sub = [i for i, c in enumerate(cases) if c.ibs == 64 and (c.tag in ('two', 'three', 'align-long-tail', 'ostep-two', 'none') or (c.tag == 'trunc' and rng.chance(1, 6)))]
    if quick:
        rng.shuffle(sub)
        sub = sub[:150]
    rops = ['rtm ' + ops[i][3:] for i in sub]
    rc, rout, se = ctx.run_lines([hbin[64]], ''.join(o + '\n' for o in rops))
    if rc != 0 or len(rout) != len(rops):
        ctx.violation('harness-crash', 'harness exited %d in rtm ops: %s' % (rc, se[-500:]), {'kind': 'harness-crash', 'stderr': se[-2000:]}, found_input=False)
        return
    for i, o, l in zip(sub, rops, rout):
        ctx.note_case(' '.join(o.split()[:4] + o.split()[5:]), nontrivial=nontrivial(cases[i]))
        ctx.count('op:rtm')
        a, b = parse_out(impl[i]), parse_out(l)
        same = (a['status'].split('@')[0] == b['status'].split('@')[0]) and a.get('lens') == b.get('lens') and a.get('crc') == b.get('crc')
        if not same:
            ctx.violation('read-thread-differs:%s-%s' % (cases[i].kind, cases[i].mode),
                          'the real ReadThreadManager + queue delivers something else than the in-thread loop: `%s` -> %s but `%s` -> %s' % (ops[i], impl[i], o, l),
                          {'kind': 'counterexample', 'ops': [ops[i], o], 'results': [impl[i], l]})
            break

    # ------------------------------------------------------------------ G. corruption sweep by structure
    def opl(first, n):
        return ''.join('n%d v1 dV c0 t i0 u T x1.0 y2.0\n' % (first + i) for i in range(n)).encode()

    def idcrc(parts):
        ids = []
        for p_ in parts:
            for ln in p_.split(b'\n'):
                if ln:
                    ids.append(ln.split(b' ')[0].decode() + ';')
        return len(ids), '%08x' % zlib.crc32(''.join(ids).encode())

    def gz_sized(target):
        """an incompressible payload whose gzip member is exactly `target` bytes long"""
        n = target - 23
        for _ in range(40):
            p_ = g.payload(max(n, 0))
            d_ = len(compress('gzip', p_)) - target
            if d_ == 0:
                return p_
            n -= d_
        return None

    # (codec, parts, is OPL, which regions get ALL their positions, body positions sampled per member)
    sweep_files = []
    body_n = 6 if quick else None        # None = every body byte
    for kind in ('gzip', 'bzip2'):
        sweep_files += [(kind, [opl(1, 3)], True, body_n), (kind, [opl(1, 3), opl(10, 2)], True, body_n),
                        (kind, [opl(1, 2), b'', opl(5, 2)], True, body_n), (kind, [opl(1, 1), b'', opl(5, 2), opl(9, 1)], True, body_n),
                        (kind, [b'', opl(1, 2)], True, body_n),
                        (kind, [pl[64], pl[10]], False, body_n), (kind, [pl[128], b'', pl[65]], False, body_n), (kind, [b'', b''], False, body_n)]
        if not quick:
            sweep_files += [(kind, [opl(1, 40), opl(100, 1), opl(200, 3)], True, None), (kind, [pl[1], pl[0], pl[64], pl[1]], False, None)]
    # member boundary at / next to the edge of the library's read-ahead: libbz2 5000 bytes, zlib 8192 bytes
    edge = [4999, 5000, 5001] if quick else [4997, 4998, 4999, 5000, 5001, 5002, 5003]
    for e in edge:
        p1 = bz_aligned.get((e, False)) or bz_aligned.get((e, True)) or g.bz_sized(e)
        if p1 is None:
            ctx.count('bz-sized-miss')
            continue
        sweep_files.append(('bzip2', [p1, tail_small], False, 2 if quick else 40))
        if e == 5000 or not quick:
            sweep_files.append(('bzip2', [tail_small, p1, b'', tail_small], False, 2 if quick else 40))
    for e in ([8191, 8192, 8193] if quick else [8190, 8191, 8192, 8193, 8194, 16384]):
        p1 = gz_sized(e)
        if p1 is None:
            ctx.count('gz-sized-miss')
            continue
        sweep_files.append(('gzip', [p1, tail_small], False, 2 if quick else 40))
        if e == 8192 or not quick:
            sweep_files.append(('gzip', [tail_small, p1, b'', tail_small], False, 2 if quick else 40))

    REG = {'hdr': 'header', 'blk': 'body', 'body': 'body', 'trl': 'trailer'}
    sops, smeta = [], []        # rd ops (go through the model too)
    rops2, rmeta2 = [], []      # reader ops
    for kind, parts, is_opl, nbody in sweep_files:
        members = [compress(kind, p_) for p_ in parts]
        full = b''.join(members)
        whole = b''.join(parts)
        big = len(full) > 2000
        regs = member_regions(kind, members)
        chosen = [x for x in regs if x[2] != 'body']
        for mi in range(len(members)):
            body = [x for x in regs if x[1] == mi and x[2] == 'body']
            if nbody is not None and len(body) > nbody:
                rng.shuffle(body)
                body = body[:nbody]
            chosen += body
        nobj, icrc = idcrc(parts) if is_opl else (None, None)
        for pos, mi, reg, off in chosen:
            vals = repl_values(full[pos], g.rnd, not quick)
            if reg == 'body' and quick:
                vals = vals[-2:]
            if big and quick and reg != 'hdr':
                vals = vals[:3]
            for v in vals:
                data = full[:pos] + bytes([v]) + full[pos + 1:]
                path = g.write(data)
                region = ('header-of-first-stream' if mi == 0 else 'header-of-later-stream') if reg == 'hdr' else REG[reg]
                info = {'kind': kind, 'sizes': [len(p_) for p_ in parts], 'csizes': [len(m) for m in members], 'member': mi, 'off': off, 'pos': pos,
                        'val': v, 'region': region, 'data': data, 'whole': whole, 'nstreams': len(parts), 'before': sum(len(p_) for p_ in parts[:mi])}
                for mode in ('fd', 'buf'):
                    lay = scan_layout(kind, data, mode)
                    sops.append('rd %s %s 64 %s %s %s' % (kind, mode, path, fx, ','.join(lay) if lay else '-'))
                    smeta.append((mode, info, lay))
                if is_opl:
                    for mode in ('fd', 'buf'):
                        rops2.append('reader %s %s 64 %s' % (kind, mode, path))
                        rmeta2.append((mode, info, nobj, icrc, sum(p_.count(b'\n') for p_ in parts[:mi])))
        # bytes after the last stream that are not a complete valid stream
        magic = b'\x1f\x8b\x08\x00' if kind == 'gzip' else b'BZh9'
        garbage = [b'\x00', b'\x00' * 16, b'garbage!', magic[:1], magic[:2], magic[:3], members[-1][:10 if kind == 'gzip' else 4],
                   members[-1][:-1], bytes([members[-1][0] ^ 0x20]) + members[-1][1:]]
        if big and quick:
            garbage = garbage[:5]
        for gi, gb in enumerate(garbage):
            data = full + gb
            path = g.write(data)
            info = {'kind': kind, 'sizes': [len(p_) for p_ in parts], 'csizes': [len(m) for m in members], 'member': len(members), 'off': 0 if gi != 3 else 2,
                    'pos': len(full), 'val': gb[0], 'region': 'trailing-garbage', 'data': data, 'whole': whole, 'nstreams': len(parts), 'before': len(whole)}
            for mode in ('fd', 'buf'):
                lay = scan_layout(kind, data, mode)
                sops.append('rd %s %s 64 %s %s %s' % (kind, mode, path, fx, ','.join(lay) if lay else '-'))
                smeta.append((mode, info, lay))
            if is_opl:
                for mode in ('fd', 'buf'):
                    rops2.append('reader %s %s 64 %s' % (kind, mode, path))
                    rmeta2.append((mode, info, nobj, icrc, nobj))

    def accepted(kind, path, info, o, l, got_desc, is_prefix):
        """a damaged file was accepted with something else than the original payload"""
        fd_like = path in ('fd', 'reader-fd')
        if kind == 'gzip' and fd_like and info['off'] in (0, 1):
            if info['member'] == 0:
                key = 'corruption-accepted:gzip-fd:magic-of-first-member'
            elif is_prefix:
                key = 'corruption-accepted:gzip-fd:magic-of-later-member'
            else:
                key = 'corruption-accepted:gzip-%s:%s' % (path, info['region'])
        else:
            key = 'corruption-accepted:%s-%s:%s' % (kind, path, info['region'])
        ctx.violation(key, '%s — e.g. %s file of %d stream(s) (payload sizes %s, compressed sizes %s), byte %d (offset %d of stream %d: %s) set to 0x%02x: `%s` -> %s (%s; '
                      'the intact file gives %d bytes crc %08x)'
                      % (WHAT.get(key, 'a damaged %s file is accepted as a %s file (%s path): no error although the bytes delivered are not the payload of the intact file'
                                  % (kind, 'shorter' if is_prefix else 'different', path)),
                         kind, info['nstreams'], info['sizes'], info['csizes'], info['pos'], info['off'], info['member'] + 1, info['region'], info['val'],
                         ' '.join(o.split()[:5]), l, got_desc, len(info['whole']), zlib.crc32(info['whole'])),
                      {'kind': 'counterexample', 'op': ' '.join(o.split()[:5]), 'impl': l, 'compression': kind, 'path': path, 'input_buffer_size': 64,
                       'payload_sizes': info['sizes'], 'compressed_sizes': info['csizes'], 'damaged_byte': info['pos'], 'value': info['val'],
                       'region': info['region'],
                       'file_hex': info['data'].hex() if len(info['data']) <= 32768 else '<%d bytes>' % len(info['data']),
                       'replay': 'write file_hex to <path>; echo "<op with that path>" | <harness c09 built with -DOSMIUM_VERIF_INPUT_BUFFER_SIZE=64>'})
        return key

    rc, sout, se = ctx.run_lines([hbin[64]], ''.join(o + '\n' for o in sops), env={'VERIF_OP_TIMEOUT': os.environ.get('VERIF_OP_TIMEOUT', '60')})
    if rc != 0 or len(sout) != len(sops):
        ctx.violation('harness-crash', 'harness exited %d in corruption ops after %d of %d lines: %s' % (rc, len(sout), len(sops), se[-500:]),
                      {'kind': 'harness-crash', 'stderr': se[-2000:], 'next_op': sops[min(len(sout), len(sops) - 1)]}, found_input=False)
        return
    for (mode, info, lay), o, l in zip(smeta, sops, sout):
        kind = info['kind']
        ctx.note_case('corrupt %s %s %s %d %d' % (kind, mode, info['sizes'], info['pos'], info['val']))
        ctx.count('op:corrupt')
        r = parse_out(l)
        offs = unrle(r.get('offs', '-'))
        if offs and max(offs) > len(info['data']):
            ctx.violation('offset-exceeds-file-size:%s-%s' % (kind, mode), 'offset %d > file size %d on a damaged file: `%s` -> %s' % (max(offs), len(info['data']), o, l),
                          {'kind': 'counterexample', 'op': o, 'impl': l, 'file_hex': info['data'].hex()[:65536]})
        if r['status'].startswith('hang'):
            ctx.violation('read-loop-does-not-end:%s-%s' % (kind, mode), 'Decompressor::read() never returns the empty string on a damaged file: `%s` -> %s' % (o, l),
                          {'kind': 'counterexample', 'op': o, 'impl': l, 'file_hex': info['data'].hex()[:65536]})
            outcome = 'HANG'
        elif r['status'] != 'ok':
            outcome = 'error'
        elif int(r['total']) == len(info['whole']) and r['crc'] == '%08x' % zlib.crc32(info['whole']):
            outcome = 'harmless-same-bytes'
        else:
            tot = int(r['total'])
            is_prefix = tot < len(info['whole']) and r['crc'] == '%08x' % zlib.crc32(info['whole'][:tot])
            key = accepted(kind, mode, info, o, l, 'a prefix of the payload: %d bytes' % tot if is_prefix else 'other bytes', is_prefix)
            outcome = 'KNOWN-accepted-shorter' if key.endswith('magic-of-later-member') else ('ACCEPTED-shorter' if is_prefix else 'ACCEPTED-different')
        ctx.count('sweep:%s:%s:streams=%d:%s:%s' % (kind, mode, info['nstreams'], info['region'], outcome))
        ctx.count('sweep-oracle:%s:%s:%s' % (kind, mode, 'intact' if lay and all(x.count(':') == 1 for x in lay) else (lay[-1].split(':')[2] if lay else 'empty')
                                             + ('-later' if lay and len(lay) > 1 else '-first')))
    # the model on the same damaged files (status, chunk lengths; offsets of damaged files are not part of the oracle)
    if ctx.exe_build_ok:
        okidx = [i for i, (_, _, lay) in enumerate(smeta) if lay is not None]
        rc, mout, se = ctx.run_lines([ctx.model_exe('model_c09')], ''.join(sops[i] + '\n' for i in okidx))
        if rc != 0 or len(mout) != len(okidx):
            ctx.violation('model-driver-crash', 'model driver exited %d on the corruption ops (%d of %d lines): %s' % (rc, len(mout), len(okidx), se[-300:]),
                          {'kind': 'broken-correspondence'}, found_input=False)
        else:
            def canon2(line):
                r = parse_out(line)
                return '%s lens=%s total=%s' % (r['status'], r.get('lens'), r.get('total'))
            dis = ctx.diff_streams('c09-corrupt-model-vs-impl', [sops[i] for i in okidx], [canon2(sout[i]) for i in okidx], [canon2(x) for x in mout])
            for x in mout:
                ctx.count('model-status-corrupt:' + x.split()[0])
            if dis:
                i, op, x, y = dis[0]
                ctx.violation('correspondence:corrupt ' + ' '.join(op.split()[1:3]),
                              'model and implementation disagree on a damaged file (%d lines; first `%s`: impl=%s model=%s)' % (len(dis), op[:300], x[:200], y[:200]),
                              {'kind': 'broken-correspondence', 'stream': 'c09-corrupt-model-vs-impl', 'first': dis[:5],
                               'file_hex': smeta[okidx[i]][1]['data'].hex()[:65536]}, found_input=False)
    # the whole Reader on the damaged OPL files
    rc, rout2, se = ctx.run_lines([hbin[64]], ''.join(o + '\n' for o in rops2))
    if rc != 0 or len(rout2) != len(rops2):
        ctx.violation('harness-crash', 'harness exited %d in reader corruption ops after %d of %d lines: %s' % (rc, len(rout2), len(rops2), se[-500:]),
                      {'kind': 'harness-crash', 'stderr': se[-2000:], 'next_op': rops2[min(len(rout2), len(rops2) - 1)]}, found_input=False)
        return
    for (mode, info, nobj, icrc, nbefore), o, l in zip(rmeta2, rops2, rout2):
        kind = info['kind']
        ctx.note_case('corrupt-reader %s %s %s %d %d' % (kind, mode, info['sizes'], info['pos'], info['val']))
        ctx.count('op:corrupt-reader')
        r = parse_out(l)
        if r['status'] != 'ok':
            outcome = 'error'
        elif int(r['objects']) == nobj and r.get('ids') == icrc:
            outcome = 'harmless-same-objects'
        else:
            is_prefix = int(r['objects']) == nbefore
            key = accepted(kind, 'reader-' + mode, info, o, l, '%s of %d objects' % (r['objects'], nobj), is_prefix)
            outcome = 'KNOWN-accepted-shorter' if key.endswith('magic-of-later-member') else ('ACCEPTED-shorter' if int(r['objects']) < nobj else 'ACCEPTED-different')
        if r.get('offbad') == '1':
            ctx.violation('offset-exceeds-file-size:%s-reader-%s' % (kind, mode), 'Reader::offset() > file size on a damaged file: `%s` -> %s' % (o, l),
                          {'kind': 'counterexample', 'op': o, 'impl': l, 'file_hex': info['data'].hex()[:65536]})
        ctx.count('sweep:%s:reader-%s:streams=%d:%s:%s' % (kind, mode, info['nstreams'], info['region'], outcome))

    # ------------------------------------------------------------------ H. the library's own compressors: reference-readable and read back
    wsizes = [0, 1, 100, 10240, 70000] if quick else [0, 1, 63, 64, 65, 100, 10239, 10240, 10241, 70000, MIB - 1, MIB, MIB + 1, 3 * MIB + 5]
    wops = []
    wmeta = []
    for kind in ('gzip', 'bzip2', 'none'):
        for n in wsizes:
            p = g.payload(n, compressible=n > 100000 or rng.chance(1, 2))
            inpath = g.write(p)
            for piece in ([0, 7, 10240] if quick else [0, 1, 7, 64, 10240, MIB]):
                if piece == 1 and n > 20000:
                    continue
                outpath = os.path.join(scratch, 'w%d' % len(wops))
                wops.append('wr %s 64 %s %s %d' % (kind, outpath, inpath, piece))
                wmeta.append((kind, p, outpath, piece))
    rc, wout, se = ctx.run_lines([hbin[64]], ''.join(o + '\n' for o in wops))
    if rc != 0 or len(wout) != len(wops):
        ctx.violation('harness-crash', 'harness exited %d in wr ops: %s' % (rc, se[-500:]), {'kind': 'harness-crash', 'stderr': se[-2000:]}, found_input=False)
        return
    rops, rmeta = [], []
    for (kind, p, outpath, piece), o, l in zip(wmeta, wops, wout):
        ctx.note_case('wr %s %d %d' % (kind, len(p), piece), nontrivial=len(p) > 0)
        ctx.count('op:wr')
        if not l.startswith('ok'):
            ctx.violation('compressor-failed:' + kind, 'the real %s compressor failed: `%s` -> %s' % (kind, o, l), {'kind': 'counterexample', 'op': o, 'impl': l})
            continue
        with open(outpath, 'rb') as f:
            data = f.read()
        csize = int(parse_out(l)['csize'])
        if csize != len(data):
            ctx.violation('compressor-file-size:' + kind, 'Compressor::file_size() = %d but the file has %d bytes: `%s`' % (csize, len(data), o),
                          {'kind': 'counterexample', 'op': o, 'impl': l})
        rs, ref = reference(kind, data)
        if rs != 'ok' or ref != p:
            ctx.violation('own-output-not-reference-readable:' + kind, 'the reference decompressor does not give back what the %s compressor was given (%d bytes, pieces of %d): %s'
                          % (kind, len(p), piece, rs), {'kind': 'counterexample', 'op': o, 'impl': l})
            continue
        for mode in ('fd', 'buf'):
            for ibs in (64, MIB):
                if ibs == 64 and len(p) > 200000:
                    continue
                streams = '%d:%d' % (len(data), len(p)) if len(data) else '-'
                rops.append((ibs, 'rd %s %s %d %s %s %s' % (kind, mode, ibs, outpath, fx, streams)))
                rmeta.append((kind, mode, p, o))
    for ibs in (64, MIB):
        idx = [i for i, (b, _) in enumerate(rops) if b == ibs]
        text = ''.join(rops[i][1] + '\n' for i in idx)
        rc, out, se = ctx.run_lines([hbin[ibs]], text)
        mout = None
        if ctx.exe_build_ok:
            _, mout, _ = ctx.run_lines([ctx.model_exe('model_c09')], text)
        if rc != 0 or len(out) != len(idx):
            ctx.violation('harness-crash', 'harness exited %d reading back compressor output: %s' % (rc, se[-500:]), {'kind': 'harness-crash', 'stderr': se[-2000:]}, found_input=False)
            return
        a, b, oo = [], [], []
        for j, (i, l) in enumerate(zip(idx, out)):
            kind, mode, p, wop = rmeta[i]
            ctx.note_case('roundtrip %s %s %d %d %s' % (kind, mode, ibs, len(p), wop.split()[-1]), nontrivial=len(p) > 0)
            ctx.count('op:roundtrip')
            r = parse_out(l)
            if r['status'] != 'ok' or int(r['total']) != len(p) or r['crc'] != '%08x' % zlib.crc32(p):
                ctx.violation('own-output-roundtrip:%s-%s' % (kind, mode), 'what the %s compressor wrote (`%s`) is not read back identically: `%s` -> %s (payload %d bytes crc %08x)'
                              % (kind, wop, rops[i][1], l, len(p), zlib.crc32(p)), {'kind': 'counterexample', 'ops': [wop, rops[i][1]], 'impl': l})
            offs = unrle(r.get('offs', '-'))
            if offs and max(offs) > int(r['fsize']):
                ctx.violation('offset-exceeds-file-size:%s-%s' % (kind, mode), 'offset %d > file size %s: `%s` -> %s' % (max(offs), r['fsize'], rops[i][1], l),
                              {'kind': 'counterexample', 'op': rops[i][1], 'impl': l})
            if mout is not None and j < len(mout):
                c = Case()
                c.exact_offs = not (kind == 'gzip' and mode == 'fd') and len(p) <= 800000
                a.append(canon(l, c))
                b.append(canon(mout[j], c))
                oo.append(rops[i][1])
        if a:
            dis = ctx.diff_streams('c09-roundtrip-model-vs-impl', oo, a, b)
            if dis:
                i, op, x, y = dis[0]
                ctx.violation('correspondence:roundtrip', 'model and implementation disagree on compressor output (%d lines; first `%s`: impl=%s model=%s)'
                              % (len(dis), op[:200], x[:200], y[:200]), {'kind': 'broken-correspondence', 'first': dis[:5]}, found_input=False)

    # ------------------------------------------------------------------ I. the whole Reader (OPL inside gzip/bzip2): user-visible effect, offset() <= file_size()
    def opl(first, n):
        return ''.join('n%d v1 dV c0 t i0 u T x1.0 y2.0\n' % (first + i) for i in range(n)).encode()
    rdops, rdmeta = [], []
    for kind in ('gzip', 'bzip2'):
        for parts in ([opl(1, 3)], [opl(1, 3), opl(10, 4)], [b'', opl(1, 5)], [opl(1, 2), b'', opl(5, 2), opl(9, 1)]):
            c = mk(kind, 'fd', 64, parts)
            c.streams = ['%d:%d' % (len(m), len(p)) for m, p in zip(c.members, c.payloads)]
            path = g.write(c.data)
            nobj = sum(p.count(b'\n') for p in parts)
            for mode in ('fd', 'buf'):
                c2 = mk(kind, mode, 64, parts)
                c2.streams = c.streams
                rdops.append('reader %s %s 64 %s' % (kind, mode, path))
                rdmeta.append((c2, nobj, len(parts[0].split(b'\n')) - 1))
    rc, rdout, se = ctx.run_lines([hbin[64]], ''.join(o + '\n' for o in rdops))
    if rc != 0 or len(rdout) != len(rdops):
        ctx.violation('harness-crash', 'harness exited %d in reader ops: %s' % (rc, se[-500:]), {'kind': 'harness-crash', 'stderr': se[-2000:]}, found_input=False)
        return
    for (c, nobj, nfirst), o, l in zip(rdmeta, rdops, rdout):
        ctx.note_case(o.rsplit(' ', 1)[0] + ' %s' % [len(p) for p in c.payloads])
        ctx.count('op:reader')
        r = parse_out(l)
        if r['status'] != 'ok':
            viol('reader-rejects-valid-file:%s-%s' % (c.kind, c.mode), c, o, l)
        elif int(r['objects']) != nobj:
            key = classify_drop(c, sum(len(p) for p in c.payloads[:1])) if int(r['objects']) < nobj else None
            viol(key or 'reader-wrong-object-count:%s-%s' % (c.kind, c.mode), c, o, l, ' (osmium::io::Reader: %s of %d objects)' % (r['objects'], nobj))
        if r.get('offbad') == '1':
            viol('offset-exceeds-file-size:%s-%s' % (c.kind, c.mode), c, o, l, ' (Reader::offset() > file_size())')

    # truncation of a 4-member OPL file at EVERY length through the whole Reader: a cut at a member boundary is a valid
    # shorter file (exactly the objects of the complete members), every other cut must raise
    tops, tmeta = [], []
    for kind in ('gzip', 'bzip2'):
        parts = [opl(1, 2), b'', opl(5, 1), opl(9, 2)]
        members = [compress(kind, p_) for p_ in parts]
        full = b''.join(members)
        bounds, acc, nacc = {}, 0, 0
        for m_, p_ in zip(members, parts):
            acc += len(m_)
            nacc += p_.count(b'\n')
            bounds[acc] = nacc
        for t in range(1, len(full)):
            path = g.write(full[:t])
            for mode in ('fd', 'buf'):
                tops.append('reader %s %s 64 %s' % (kind, mode, path))
                tmeta.append((kind, mode, t, bounds, [len(m_) for m_ in members], full[:t]))
    rc, tout, se = ctx.run_lines([hbin[64]], ''.join(o + '\n' for o in tops))
    if rc != 0 or len(tout) != len(tops):
        ctx.violation('harness-crash', 'harness exited %d in reader truncation ops: %s' % (rc, se[-500:]), {'kind': 'harness-crash', 'stderr': se[-2000:]}, found_input=False)
        return
    for (kind, mode, t, bounds, csizes, data), o, l in zip(tmeta, tops, tout):
        ctx.note_case('trunc-reader %s %s %d' % (kind, mode, t))
        ctx.count('op:trunc-reader')
        r = parse_out(l)
        if t in bounds:
            if r['status'] != 'ok' or int(r['objects']) != bounds[t]:
                ctx.violation('reader-rejects-valid-file:%s-%s' % (kind, mode), 'a file of complete members (compressed sizes %s, first %d bytes) is not read as its %d objects: `%s` -> %s'
                              % (csizes, t, bounds[t], o, l), {'kind': 'counterexample', 'op': o, 'impl': l, 'file_hex': data.hex()})
            ctx.count('trunc-reader:%s:%s:at-member-boundary' % (kind, mode))
        elif r['status'] == 'ok':
            if kind == 'gzip' and mode == 'fd' and (t - 1) in bounds:
                ctx.count('excluded:zlib-lone-byte-after-members')
                continue
            ctx.violation('truncation-accepted:%s-reader-%s' % (kind, mode), 'a %s file (members of %s compressed bytes) cut after %d bytes — inside a member — is accepted by '
                          'osmium::io::Reader (%s objects): `%s` -> %s' % (kind, csizes, t, r.get('objects'), o, l),
                          {'kind': 'counterexample', 'op': o, 'impl': l, 'file_hex': data.hex()})
        else:
            ctx.count('trunc-reader:%s:%s:error' % (kind, mode))
