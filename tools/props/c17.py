"""C17 — geometry exports encode exactly the object's coordinates (DESIGN.md §3 C17).

1. proof stage: lean/Osmium/Props/C17.lean (all geometries / objects / options) + axiom audit.
2. correspondence: the REAL factories (harness/c17.cpp: WKB/EWKB/hex, WKT/EWKT, GeoJSON ×
   unique/all × forward/backward × identity/Mercator × precision 0..17, objects built with the
   real builders) vs the compiled Lean factory model (lean/Driver/C17.lean) — byte-exact.
   The model's main line is the FIXED code (variant `r`; fix commits 5a3ae5e, e768562, d672e4f).
   Three regression probes (F10, short ring, precision-0 zero stripping) are run first; if the
   tree shows the old behaviour they raise VIOLATION under the stable finding keys and the
   correspondence then follows the old variant `c`, so that only the regression is reported.
3. monitors on the implementation alone: every output is decoded by the independent Lean
   decoders and compared with a Python oracle of the specification (structure; WKB doubles as
   bit patterns against the harness's own fixed-point conversion; text numbers as exact
   rationals against the correctly rounded decimal of the double); degenerate inputs must be
   rejected; double2string vs exact rounding; the buffer clause under ASan.
"""
import struct
from fractions import Fraction

UNDEF = (2147483647, 2147483647)
INVALID = [UNDEF, (1800000001, 0), (0, -900000001), (2147483647, 0), (-1800000001, 900000001)]
VALID_ID = [(0, 0), (10000000, 20000000), (-1791234567, 10), (1800000000, 900000000), (-1800000000, -900000000),
            (1, -1), (1234567, -7654321), (100000000, 50000000), (-5, 899999999), (999999999, -100000000)]
MERC_MAXLAT = 850511287
FMTS_WKB = ['wkb', 'ewkb', 'wkbhex', 'ewkbhex']
FMTS_TXT = ['wkt', 'ewkt', 'geojson']

K_F10 = 'factory-unique-leading-undefined-skipped'
K_F9 = 'double2string-buffer-overread'
K_P0 = 'double2string-precision0-zeros-stripped'
K_P0U = 'double2string-precision0-zero-underread'
K_RING = 'multipolygon-short-ring-accepted'


def valid(l):
    return -1800000000 <= l[0] <= 1800000000 and -900000000 <= l[1] <= 900000000


def hexs(s):
    return s.encode('latin-1').hex() if s else '-'


def unhexs(h):
    return '' if h == '-' else bytes.fromhex(h).decode('latin-1')


def dbl(bits_hex):
    return struct.unpack('<d', bytes.fromhex(bits_hex))[0]


def fullfmt(v, p):
    """what a correct `%.*f` prints: Python formats the exact binary value, round-half-even"""
    return format(v, '.%df' % p)


def d2s_class(full, p):
    """safe | len20 | overread | underread  (today's 20-byte buffer / zero-trimming loop)"""
    if len(full) > 20:
        return 'overread'
    if len(full) == 20:
        return 'len20'
    if p == 0 and full.strip('0') == '':
        return 'underread'
    return 'safe'


def dedup(seq):
    out = []
    for l in seq:
        if not out or out[-1] != l:
            out.append(l)
    return out


def oracle(kind, un, dr, items):
    """independent statement of the specification: ('err', None) or ('ok', geometry)"""
    def pts(seq, unique, minimum):
        if unique:
            seq = dedup(seq)
        if any(not valid(l) for l in seq):
            return None
        if len(seq) < minimum:
            return None
        return seq
    if kind == 'point':
        return ('ok', ('point', items[0])) if valid(items[0]) else ('err', None)
    if kind in ('line', 'poly'):
        seq = list(reversed(items)) if dr == 'b' else list(items)
        r = pts(seq, un == 'u', 2 if kind == 'line' else 4)
        if r is None:
            return ('err', None)
        return ('ok', ('linestring', r)) if kind == 'line' else ('ok', ('polygon', [r]))
    rings = []
    cur = None
    for it in items:
        if it in ('O', 'I'):
            cur = [it, []]
            rings.append(cur)
        else:
            cur[1].append(it)
    if not rings:
        return ('err', None)
    polys = []
    for tag, r in rings:
        q = pts(r, True, 4)
        if q is None:
            return ('err', None)
        if tag == 'O':
            polys.append([q])
        else:
            polys[-1].append(q)
    return ('ok', ('multipolygon', polys))


def dump(g, f):
    def ring(r):
        return ','.join(f(p) for p in r) if r else '~'
    k = g[0]
    if k == 'point':
        return 'point ' + f(g[1])
    if k == 'linestring':
        return 'linestring ' + ring(g[1])
    if k == 'polygon':
        return 'polygon ' + ';'.join(ring(r) for r in g[1])
    return 'multipolygon ' + '|'.join(';'.join(ring(r) for r in p) for p in g[1])


def item_str(it, table=None):
    if it in ('O', 'I'):
        return it
    s = '%d:%d' % it
    if table is not None:
        s += ':' + table.get(it, '-:-:-:-')
    return s


def lead_undef(c):
    if c['kind'] == 'area':
        prev = None
        for it in c['items']:
            if prev in ('O', 'I') and it == UNDEF:
                return True
            prev = it
        return False
    if c['kind'] == 'point' or c['un'] != 'u' or not c['items']:
        return False
    return (c['items'][-1] if c['dr'] == 'b' else c['items'][0]) == UNDEF


def short_ring(c):
    if c['kind'] != 'area':
        return False
    rings, cur = [], None
    for it in c['items']:
        if it in ('O', 'I'):
            cur = []
            rings.append(cur)
        else:
            cur.append(it)
    return any(len(dedup(r)) < 4 for r in rings)


def run(ctx):
    import vlib
    rng = ctx.rng
    quick = ctx.tier == 'quick'
    ctx.rule = ('emit: node lists of length 0..N with duplicate runs at start/middle/end and undefined/invalid locations at every '
                'position, areas with 1..3 outer rings x 0..2 inner rings (plus ring-less, short-ring and leading-undefined ones) '
                'x 7 formats x unique/all x forward/backward x identity/Mercator x precision 0..17; d2s: every (double, precision) '
                'that occurs plus a magnitude grid; distinct = distinct op lines (all non-trivial)')
    ctx.assumptions += ['little-endian host (WKB byte-order marker NDR)', 'counts < 2^32 (set_size throws above)',
                        'areas start with an outer ring (Obj.wf)', 'Mercator only for |lat| <= 85.0511287 (documented precondition)',
                        'digits printed by snprintf("%.*f") are libc\'s: checked here against exact rational rounding, not proved']
    ctx.trusted += ['lexers for WKT/GeoJSON text in lean/Driver/C17.lean (checked at run time: render(lex s) = s)',
                    'Python float formatting (correctly rounded) as the reference for %.*f']

    proof_ok = ctx.proof_stage(exes=['model_c17'])

    hbin, err = vlib.build_cpp('c17', ['c17.cpp'])
    if hbin is None:
        ctx.violation('harness-build', 'harness does not compile against the current tree: ' + err[-600:],
                      {'kind': 'harness-build', 'stderr': err}, found_input=False)
        return
    abin, aerr = vlib.build_cpp('c17asan', ['c17.cpp'], asan=True)
    if abin is None:
        ctx.violation('harness-build-asan', 'ASan harness does not compile: ' + aerr[-600:], {'kind': 'harness-build'}, found_input=False)
        return
    model = ctx.model_exe('model_c17') if ctx.exe_build_ok else None

    def H(lines):
        rc, out, se = ctx.run_lines([hbin], '\n'.join(lines) + '\n')
        if rc != 0 or len(out) != len(lines):
            raise RuntimeError('harness exited %d after %d/%d lines: %s' % (rc, len(out), len(lines), se[-400:]))
        return out

    def M(lines):
        rc, out, se = ctx.run_lines([model], '\n'.join(lines) + '\n')
        if rc != 0 or len(out) != len(lines):
            raise RuntimeError('model driver exited %d after %d/%d lines: %s' % (rc, len(out), len(lines), se[-400:]))
        return out

    def A(lines):
        """ASan harness, flushing: returns (outputs so far, crashed?, stderr tail)"""
        rc, out, se = ctx.run_lines([abin], '\n'.join(lines) + '\n', env={'C17_FLUSH': '1', 'ASAN_OPTIONS': 'detect_leaks=0'})
        return out, rc != 0, se

    # ---- probes: which variant does the tree implement? -------------------------------------
    a, b, c3, d4 = (10000000, 20000000), (30000000, 40000000), (30000000, 10000000), (10000000, 20000000)
    pr = H(['emit c wkt line u f 4326 7 %d:%d %d:%d %d:%d' % (UNDEF + a + b),
            'emit c wkt area u f 4326 7 O %d:%d %d:%d' % (a + b),
            'd2s c %s 0 %s' % (struct.pack('<d', 10.0).hex(), hexs('10'))])
    v_line = 'c' if pr[0].startswith('ok') else 'r'
    v_area = 'c' if pr[1].startswith('ok') else 'r'
    v_d2s = 'c' if pr[2] == 'ok ' + hexs('1') else 'r'
    ctx.extra['model_variant'] = {'unique-fill': v_line, 'ring-check': v_area, 'double2string': v_d2s}
    if v_line == 'c':
        ctx.violation(K_F10, 'way [undefined, (1,2), (3,4)] with use_nodes::unique gives %s instead of an invalid_location error '
                      '(last_location starts as the undefined location, factory.hpp fill_*_unique/add_points)' % unhexs(pr[0][3:]),
                      {'kind': 'counterexample', 'op': 'emit c wkt line u f 4326 7 %d:%d %d:%d %d:%d' % (UNDEF + a + b), 'impl': pr[0],
                       'expected': 'err location', 'replay': 'echo "<op>" | <harness c17>'})
    if v_area == 'c':
        ctx.violation(K_RING, 'area with a 2-point outer ring gives %s instead of a geometry_error (create_multipolygon never checks '
                      'ring point counts)' % unhexs(pr[1][3:]),
                      {'kind': 'counterexample', 'op': 'emit c wkt area u f 4326 7 O %d:%d %d:%d' % (a + b), 'impl': pr[1], 'expected': 'err geometry'})
    if v_d2s == 'c':
        ctx.violation(K_P0, 'double2string(10.0, precision 0) = "1": trailing zeros of the INTEGER part are stripped when there is no '
                      'decimal point (WKTFactory{0}: POINT(10 20) is written as POINT(1 2))',
                      {'kind': 'counterexample', 'op': 'd2s c %s 0 %s' % (struct.pack('<d', 10.0).hex(), hexs('10')), 'impl': pr[2], 'expected': 'ok ' + hexs('10')})

    # ---- generators ------------------------------------------------------------------------------
    def rloc(srid):
        if rng.chance(1, 2):
            l = rng.choice(VALID_ID)
        else:
            l = (rng.below(3600000001) - 1800000000, rng.below(1800000001) - 900000000)
        if srid == 3857 and abs(l[1]) > MERC_MAXLAT:
            l = (l[0], l[1] % MERC_MAXLAT)
        return l

    def node_list(srid, n):
        base = [rloc(srid) for _ in range(max(1, n))]
        seq = []
        while len(seq) < n:
            l = rng.choice(base)
            run = 1 + (rng.below(3) if rng.chance(1, 2) else 0)
            seq += [l] * run
        seq = seq[:n]
        mode = rng.below(6)
        if n and mode == 0:
            seq[rng.below(n)] = rng.choice(INVALID)
        elif n and mode == 1:
            seq[0] = UNDEF
        elif n and mode == 2:
            seq[-1] = UNDEF
        elif n > 1 and mode == 3:
            seq[-1] = seq[-2]
            seq[0] = seq[1] if n > 2 else seq[0]
        return seq

    def ring(srid, kind):
        n = 3 + rng.below(4)
        pts = []
        while len(pts) < n:
            l = rloc(srid)
            if not pts or pts[-1] != l:
                pts.append(l)
        pts.append(pts[0])
        if kind == 'dup':
            i = rng.below(len(pts))
            pts.insert(i, pts[i])
        elif kind == 'short':
            pts = pts[:rng.below(4)]
        elif kind == 'undef':
            pts[rng.below(len(pts))] = rng.choice(INVALID)
        elif kind == 'leadundef':
            pts.insert(0, UNDEF)
        return pts

    def area(srid):
        items = []
        mode = rng.below(10)
        if mode == 0:
            return items
        for _ in range(1 + rng.below(3)):
            for j in range(1 + rng.below(3)):
                items.append('O' if j == 0 else 'I')
                k = 'ok'
                if mode == 1 and rng.chance(1, 3):
                    k = 'short'
                elif mode == 2 and rng.chance(1, 3):
                    k = 'undef'
                elif mode == 3 and rng.chance(1, 3):
                    k = 'leadundef'
                elif rng.chance(1, 4):
                    k = 'dup'
                items += ring(srid, k)
        return items

    cases = []
    nobj = 700 if quick else 12000
    maxlen = 8 if quick else 14
    for i in range(nobj):
        srid = 4326 if rng.chance(1, 2) else 3857
        kind = ['point', 'line', 'line', 'poly', 'area', 'area'][rng.below(6)]
        if kind == 'point':
            items = [rloc(srid) if rng.chance(4, 5) else rng.choice(INVALID)]
        elif kind in ('line', 'poly'):
            items = node_list(srid, i % (maxlen + 1))
        else:
            items = area(srid)
        un, dr = rng.choice('ua'), rng.choice('fb')
        fmts = [rng.choice(FMTS_WKB), rng.choice(FMTS_TXT), rng.choice(FMTS_TXT)]
        for fmt in fmts:
            prec = rng.below(18) if fmt in FMTS_TXT else 0
            if fmt in FMTS_TXT and rng.chance(1, 3):
                prec = rng.choice([7, 2, 0, 14, 9])
            cases.append({'fmt': fmt, 'kind': kind, 'un': un, 'dr': dr, 'srid': srid, 'prec': prec, 'items': items})
    # every option combination on one fixed way (all 7 formats x u/a x f/b x srid)
    fixed = [a, a, b, c3, c3, d4]
    for fmt in FMTS_WKB + FMTS_TXT:
        for un in 'ua':
            for dr in 'fb':
                for srid in (4326, 3857):
                    for kind in ('line', 'poly'):
                        cases.append({'fmt': fmt, 'kind': kind, 'un': un, 'dr': dr, 'srid': srid, 'prec': 7, 'items': fixed})

    # ---- conversions: the harness's own fixed-point -> double ------------------------------------
    locs = {}
    for c in cases:
        for it in c['items']:
            if it not in ('O', 'I'):
                locs.setdefault((c['srid'], it), None)
    keys = sorted(locs)
    lines = []
    for i in range(0, len(keys), 50):
        ch = keys[i:i + 50]
        if ch:
            lines.append((ch, 'conv %d ' % ch[0][0] + ' '.join('%d:%d' % k[1] for k in ch if k[0] == ch[0][0])))
    conv_lines = []
    for srid in (4326, 3857):
        ks = [k for k in keys if k[0] == srid]
        for i in range(0, len(ks), 50):
            conv_lines.append((ks[i:i + 50], 'conv %d ' % srid + ' '.join('%d:%d' % k[1] for k in ks[i:i + 50])))
    outs = H([l for _, l in conv_lines]) if conv_lines else []
    for (ks, _), o in zip(conv_lines, outs):
        for k, f in zip(ks, o.split()):
            locs[k] = None if f == '-:-' else tuple(f.split(':'))
    # independent check of the identity conversion (bit pattern of x / 1e7)
    for (srid, l), bits in locs.items():
        if srid == 4326 and bits is not None:
            want = (struct.pack('<d', l[0] / 10000000.0).hex(), struct.pack('<d', l[1] / 10000000.0).hex())
            if bits != want:
                ctx.violation('conv:%d:%d' % l, 'harness conversion of %r differs from x/1e7' % (l,), {'kind': 'check-error'}, found_input=False)

    # ---- double2string: every (double, precision) in use + a magnitude grid ---------------------------
    d2s = {}
    for c in cases:
        if c['fmt'] in FMTS_TXT:
            for it in c['items']:
                if it not in ('O', 'I') and locs.get((c['srid'], it)):
                    for bh in locs[(c['srid'], it)]:
                        d2s.setdefault((bh, c['prec']), None)
    grid = [0.0, -0.0, 0.4, -0.4, 0.5, 1.0, 9.5, 10.0, 100.0, 180.0, -180.0, -179.1234567, 90.0, 20037508.342789244, -20037508.342789244,
            1e-7, -1e-7, 123456.789, 0.05, 99.99999995]
    for v in grid:
        for p in range(18):
            d2s.setdefault((struct.pack('<d', v).hex(), p), None)
    safe_ops, risky_ops = [], []
    info = {}
    for (bh, p) in sorted(d2s):
        full = fullfmt(dbl(bh), p)
        cls = d2s_class(full, p) if v_d2s == 'c' else 'safe'
        info[(bh, p)] = (full, cls)
        op = 'd2s %s %s %d %s' % (v_d2s, bh, p, hexs(full))
        (safe_ops if cls == 'safe' else risky_ops).append(((bh, p), op))
        ctx.count('d2s-class:' + cls)
    res = H([o for _, o in safe_ops])
    mres = M([o for _, o in safe_ops]) if model else None
    for (k, op), r in zip(safe_ops, res):
        ctx.note_case(op)
        full = info[k][0]
        if r.startswith('libc-mismatch'):
            ctx.violation('libc-printf:' + op[:60], 'libc prints %s for %s but exact rounding gives %s' % (unhexs(r.split()[1]), op, full),
                          {'kind': 'counterexample', 'op': op}, found_input=True)
            continue
        txt = unhexs(r[3:])
        d2s[k] = txt
        try:
            same = Fraction(txt) == Fraction(full)
        except (ValueError, ZeroDivisionError):
            same = False
        if not same:
            key = K_P0 if k[1] == 0 else 'double2string-inexact:' + op[:60]
            ctx.violation(key, 'double2string(%r, %d) = %r but the value rounded to %d digits is %s' % (dbl(k[0]), k[1], txt, k[1], full),
                          {'kind': 'counterexample', 'op': op, 'impl': r})
    if mres is not None:
        dis = ctx.diff_streams('c17-d2s-model-vs-impl', [o for _, o in safe_ops], res, mres)
        if dis:
            ctx.violation('correspondence:' + dis[0][1][:80], 'double2string model and implementation disagree: %r' % (dis[0],),
                          {'kind': 'broken-correspondence', 'first': dis[:5]}, found_input=False)
    # buffer clause on the fixed code: everything the 20-byte buffer / zero loop could not take
    # (len >= 20, all-zero output at precision 0) is run again under ASan and must give the same text
    if v_d2s == 'r':
        hard = [(k, op) for (k, op) in safe_ops if d2s_class(info[k][0], k[1]) != 'safe']
        if not quick or len(hard) <= 3000:
            sel = hard
        else:
            sel = [hard[i] for i in range(0, len(hard), max(1, len(hard) // 3000))]
        ctx.count('d2s-asan-rerun', len(sel))
        for c0 in ('len20', 'overread', 'underread'):
            ctx.count('d2s-asan-rerun:' + c0, sum(1 for k, _ in sel if d2s_class(info[k][0], k[1]) == c0))
        if sel:
            out, crashed, se = A([o for _, o in sel])
            if crashed:
                k, op = sel[len(out)] if len(out) < len(sel) else sel[-1]
                under = d2s_class(info[k][0], k[1]) == 'underread'
                ctx.violation(K_P0U if under else K_F9, 'double2string(%r, %d) aborts under ASan: %s' % (dbl(k[0]), k[1], asan_line(se)),
                              {'kind': 'counterexample', 'op': op, 'asan': se[-1500:], 'replay': 'echo "<op>" | <asan harness c17>'})
            else:
                for (k, op), r in zip(sel, out):
                    if d2s.get(k) is not None and r != 'ok ' + hexs(d2s[k]):
                        ctx.violation('double2string-asan-differs:' + op[:60], 'ASan and plain build disagree on %s: %s vs %r' % (op, r, d2s[k]),
                                      {'kind': 'counterexample', 'op': op})
                        break
    # before the fixes: the risky ones only under ASan, where they abort (F9 / precision-0 under-read)
    asan_clean = True
    if risky_ops:
        order = sorted(risky_ops, key=lambda t: ({'underread': 0, 'overread': 1, 'len20': 2}[info[t[0]][1]], t[1]))
        for cls, key, what in (('underread', K_P0U, 'reads buffer[-1] (stack-buffer-underflow): the zero-trimming loop runs off the front'),
                               ('overread', K_F9, 'reads buffer[len-1] with len > 20 (stack-buffer-overflow): snprintf returned more than the 20-byte buffer holds')):
            ops = [t for t in order if info[t[0]][1] == cls][:40]
            if not ops:
                continue
            out, crashed, se = A([o for _, o in ops])
            for (k, op), r in zip(ops, out):
                ctx.note_case(op)
            if crashed:
                asan_clean = False
                k, op = ops[len(out)] if len(out) < len(ops) else ops[-1]
                ctx.count('asan-abort:' + cls)
                ctx.violation(key, 'double2string(%r, %d) %s; ASan: %s' % (dbl(k[0]), k[1], what, asan_line(se)),
                              {'kind': 'counterexample', 'op': op, 'asan': se[-1500:], 'replay': 'echo "<op>" | <asan harness c17>'})
        l20 = [t for t in order if info[t[0]][1] == 'len20'][:40]
        if l20:
            out, crashed, se = A([o for _, o in l20])
            for (k, op), r in zip(l20, out):
                ctx.note_case(op)
                txt = unhexs(r[3:]) if r.startswith('ok') else r
                if txt != info[k][0].rstrip('0').rstrip('.') and '.' in info[k][0]:
                    ctx.violation(K_F9, 'double2string(%r, %d) = %r (19 characters + NUL): the 20-byte buffer truncates the %d-character output %s'
                                  % (dbl(k[0]), k[1], txt, len(info[k][0]), info[k][0]), {'kind': 'counterexample', 'op': op, 'impl': r})
                    break
    ctx.extra['asan_clean'] = asan_clean

    # ---- emit ops ----------------------------------------------------------------------------------------
    def case_line(c, v):
        table = {}
        risky = False
        for it in c['items']:
            if it in ('O', 'I') or it in table:
                continue
            bits = locs.get((c['srid'], it))
            if not bits:
                continue
            if c['fmt'] in FMTS_TXT:
                tx, ty = d2s.get((bits[0], c['prec'])), d2s.get((bits[1], c['prec']))
                if tx is None or ty is None:
                    risky = True
                    tx, ty = tx or '', ty or ''
                table[it] = '%s:%s:%s:%s' % (bits[0], bits[1], hexs(tx), hexs(ty))
            else:
                table[it] = '%s:%s:-:-' % bits
        line = 'emit %s %s %s %s %s %d %d %s' % (v, c['fmt'], c['kind'], c['un'], c['dr'], c['srid'], c['prec'],
                                                  ' '.join(item_str(it, table) for it in c['items']))
        return line.rstrip(), risky

    bulk, skipped_ub, demo = [], 0, []
    for c in cases:
        v = v_area if c['kind'] == 'area' else v_line
        if c['kind'] == 'area' and v_area != v_line and lead_undef(c):
            ctx.count('skipped:mixed-variants')
            continue
        line, risky = case_line(c, v)
        if risky:
            skipped_ub += 1
            if len(demo) < 3 and oracle(c['kind'], c['un'], c['dr'], c['items'])[0] == 'ok':
                demo.append((c, line))
            continue
        bulk.append((c, line))
    ctx.count('emit:skipped-because-double2string-would-overrun', skipped_ub)
    for c, line in demo:
        out, crashed, se = A([line])
        ctx.note_case(line)
        if crashed:
            cls = 'underread' if c['prec'] == 0 else 'overread'
            ctx.violation(K_P0U if cls == 'underread' else K_F9,
                          '%s factory, precision %d: double2string %s inside the factory call' % (c['fmt'], c['prec'], cls),
                          {'kind': 'counterexample', 'op': line, 'asan': se[-1500:]})
    ops = [l for _, l in bulk]
    impl = H(ops)
    mod = M(ops) if model else None
    for (c, l), r in zip(bulk, impl):
        ctx.note_case(l)
        ctx.count('emit:%s:%s' % (c['fmt'], r.split()[0] + ('-' + r.split()[1] if r.startswith('err') else '')))
        ctx.count('kind:%s:%s%s' % (c['kind'], c['un'], c['dr']))
    for l in (ops[3], ops[len(ops) // 2], ops[-1]):
        ctx.sample(l[:400])

    # ---- monitors: decode with the independent decoders, compare with the oracle ---------------------------
    dec_ops, dec_idx = [], []
    for i, ((c, l), r) in enumerate(zip(bulk, impl)):
        if r.startswith('ok'):
            dec_ops.append('dec %s %s' % (c['fmt'], r[3:]))
            dec_idx.append(i)
    dec = dict(zip(dec_idx, M(dec_ops))) if (model and dec_ops) else {}
    spec_ops = ['spec %s %s %s %s' % (c['kind'], c['un'], c['dr'], ' '.join(item_str(it) for it in c['items'])) for c, _ in bulk]
    spec = M([s.rstrip() for s in spec_ops]) if model else None
    oracle_lines = []
    for i, ((c, l), r) in enumerate(zip(bulk, impl)):
        st, g = oracle(c['kind'], c['un'], c['dr'], c['items'])
        oracle_lines.append('ok ' + dump(g, lambda p: '%d:%d' % p) if st == 'ok' else 'err')
        if st == 'err':
            ctx.count('oracle:degenerate')
            if not r.startswith('err'):
                if lead_undef(c) and (c['kind'] == 'area' or c['un'] == 'u'):
                    key, why = K_F10, 'a leading undefined location is silently skipped in unique mode'
                elif short_ring(c):
                    key, why = K_RING, 'a ring with fewer than 4 distinct points is accepted'
                else:
                    key, why = 'degenerate-accepted:' + l[:90], 'degenerate input accepted'
                ctx.violation(key, '%s: %s -> %s' % (why, ' '.join(l.split()[:8]) + ' ' + ' '.join(item_str(it) for it in c['items']), r[:80]),
                              {'kind': 'counterexample', 'op': l, 'impl': r, 'expected': 'err'})
            continue
        ctx.count('oracle:geometry:' + g[0])
        if not r.startswith('ok'):
            ctx.violation('valid-rejected:' + l[:90], 'a valid object is rejected: %s -> %s' % (l[:200], r), {'kind': 'counterexample', 'op': l, 'impl': r})
            continue
        if not model:
            continue
        d = dec.get(i, 'missing')
        if c['fmt'] in FMTS_WKB:
            want = 'ok %s ' % (str(c['srid']) if c['fmt'].startswith('ewkb') else '-') + dump(g, lambda p: '%s:%s' % locs[(c['srid'], p)])
            if d != want:
                ctx.violation('wkb-decode:' + l[:90], 'the independent WKB decoder does not recover the geometry: got %s want %s (op %s)' % (d[:200], want[:200], l[:200]),
                              {'kind': 'counterexample', 'op': l, 'impl': r, 'decoded': d, 'expected': want})
            continue
        head = 'ok %s ' % ('SRID=%d;' % c['srid'] if c['fmt'] == 'ewkt' else '-')
        shape = dump(g, lambda p: '#')
        if not d.startswith(head) or dump_shape(d[len(head):]) != shape:
            ctx.violation('text-decode:' + l[:90], 'the independent %s decoder does not recover the geometry structure: got %s want shape %s' % (c['fmt'], d[:200], shape[:200]),
                          {'kind': 'counterexample', 'op': l, 'impl': r, 'decoded': d})
            continue
        got = [unhexs(h) for h in d[len(head):].split(' ', 1)[1].replace('|', ',').replace(';', ',').replace(':', ',').split(',')]
        exp = []
        for p in flat_points(g):
            bx, by = locs[(c['srid'], p)]
            exp += [fullfmt(dbl(bx), c['prec']), fullfmt(dbl(by), c['prec'])]
        bad = None
        for t, e in zip(got, exp):
            try:
                okv = Fraction(t) == Fraction(e)
            except (ValueError, ZeroDivisionError):
                okv = False
            if not okv:
                bad = (t, e)
                break
        if bad or len(got) != len(exp):
            key = K_P0 if c['prec'] == 0 else 'text-inexact:' + l[:90]
            ctx.violation(key, '%s at precision %d prints %r where the coordinate rounded to %d digits is %s (%s)' % (c['fmt'], c['prec'], bad[0] if bad else '?', c['prec'], bad[1] if bad else '?', unhexs(r[3:])[:120]),
                          {'kind': 'counterexample', 'op': l, 'impl': r})

    # ---- correspondence diffs ----------------------------------------------------------------------------------
    if mod is not None:
        dis = ctx.diff_streams('c17-factory-model-vs-impl', ops, impl, mod)
        if dis:
            i, op, x, y = dis[0]
            ctx.violation('correspondence:' + op[:100], 'factory model and implementation disagree (%d lines, first: `%s` impl=%s model=%s)' % (len(dis), op[:300], x[:200], y[:200]),
                          {'kind': 'broken-correspondence', 'stream': 'c17-factory-model-vs-impl', 'first': dis[:5]}, found_input=False)
        dis = ctx.diff_streams('c17-lean-geomOf-vs-python-oracle', spec_ops, [s if s.startswith('ok') else 'err' for s in spec], oracle_lines)
        if dis:
            ctx.violation('spec-oracle:' + dis[0][1][:100], 'Lean geomOf and the Python oracle disagree: %r' % (dis[0],), {'kind': 'check-error', 'first': dis[:5]}, found_input=False)
    elif proof_ok:
        ctx.violation('model-driver-build', 'model driver does not build', {'kind': 'broken-correspondence'}, found_input=False)


def asan_line(se):
    for l in se.split('\n'):
        if 'AddressSanitizer' in l:
            return l.strip()[:200]
    return se.strip().split('\n')[0][:200] if se.strip() else 'aborted'


def flat_points(g):
    k = g[0]
    if k == 'point':
        return [g[1]]
    if k == 'linestring':
        return list(g[1])
    if k == 'polygon':
        return [p for r in g[1] for p in r]
    return [p for poly in g[1] for r in poly for p in r]


def dump_shape(s):
    """canonical dump with every point replaced by '#'"""
    kind, _, body = s.partition(' ')
    out = []
    for poly in body.split('|'):
        out.append(';'.join(','.join('#' for _ in r.split(',')) if r != '~' else '~' for r in poly.split(';')))
    return kind + ' ' + '|'.join(out)
