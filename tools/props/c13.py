"""C13 — coordinate, timestamp and number text conversions are exact and strict (DESIGN.md §3 C13).

1. proof stage: lean/Osmium/Props/C13.lean (all int32 coordinates, all uint32 timestamps, all
   strings of the grammar, all integers) built + axiom audit.
2. correspondence: the real parse/format functions (harness/c13.cpp) vs the compiled Lean model
   (lean/Driver/C13.lean) on the same op lines: every string over {0-9 . - + e E space x} up to
   length 4 (quick) / 6 (thorough), grammar-directed strings up to length ~40, an exponent sweep
   over -99999..99999, format checksums over a strided sample (quick) / all (thorough) of the 2^32
   coordinates and timestamps, timestamp strings over all field values, integer attributes around
   every type boundary.
3. property monitors on the implementation: parse(format(x)) == x over the whole int32 / uint32
   domains (run inside the harness, sharded), and an independent arbitrary-precision reference
   written here (`coord_ref`, `ts_ref`, `int_ref`) for every parsed string.
"""
import itertools
import os
import re
import threading
from fractions import Fraction

import vlib

ALPHA = '0123456789.-+eE x'
I32MIN, I32MAX = -2 ** 31, 2 ** 31 - 1
I64MIN, I64MAX = -2 ** 63, 2 ** 63 - 1

# witnesses of the four defects found by this check and since fixed in the tree (regression probes: always
# the first ops of their streams, so that the violation keys are stable if the old behaviour ever returns)
W_F1 = '1e56'                       # exponent scaling wraps int64: parses to 0
W_F14 = '0.000000001e9'             # digits beyond the 8th decimal are dropped before the exponent is applied
W_TS_RANGE = '2106-02-07T06:28:16Z'  # 2^32 seconds: wraps to 0
W_TS_FEB29 = '2001-02-29T00:00:00Z'  # not a date: parses as 2001-03-01


def hx(s):
    b = s if isinstance(s, bytes) else s.encode('latin-1')
    return b.hex() if b else '-'


def isd(c):
    return '0' <= c <= '9'


# ---------------------------------------------------------------------------------------------
# independent references (the property itself, in arbitrary-precision arithmetic)
# ---------------------------------------------------------------------------------------------

def coord_ref(s):
    """Reference for string_to_location_coordinate on the C string s (stops at NUL).
    Returns ('ok', value, consumed, info) or ('err', reason, info).  Grammar:
    -? ( D{1,10} ( . D{0,27} )? | . D{1,27} ) ( [eE] -? D{1,5} )?   (an 'e' must be followed by an
    exponent), value = exact decimal value rounded half away from zero to 7 decimals, must fit int32."""
    z = s.find('\0')
    if z >= 0:
        s = s[:z]
    n = len(s)
    i = 0
    neg = False
    info = {}
    if i < n and s[i] == '-':
        neg = True
        i += 1
    j = i
    while j < n and isd(s[j]):
        j += 1
    ip = s[i:j]
    if not ip:
        if not (j + 1 < n and s[j] == '.' and isd(s[j + 1])):
            return ('err', 'format', info)
    if len(ip) > 10:
        return ('err', 'too-many-digits', info)
    i = j
    fp = ''
    if i < n and s[i] == '.':
        j = i + 1
        while j < n and isd(s[j]):
            j += 1
        fp = s[i + 1:j]
        if len(fp) > 27:
            return ('err', 'too-many-digits', info)
        i = j
    e = 0
    if i < n and s[i] in 'eE':
        j = i + 1
        eneg = False
        if j < n and s[j] == '-':
            eneg = True
            j += 1
        k = j
        while k < n and isd(s[k]):
            k += 1
        if k == j:
            return ('err', 'format', info)
        if k - j > 5:
            return ('err', 'too-many-digits', info)
        e = int(s[j:k]) * (-1 if eneg else 1)
        i = k
    mant = int((ip + fp) or '0')
    info.update(nfrac=len(fp), exp=e, mant=mant)
    if len(fp) > 8 and e > 0:
        # what the value would be if the digits beyond the 8th decimal were simply dropped (class F14)
        mt = int((ip + fp[:8]) or '0')
        tt = -1 + e
        info['dropped_value'] = (-1 if neg else 1) * (mt * 10 ** tt if tt <= 40 else (0 if mt == 0 else 10 ** 50))
    t = 7 - len(fp) + e           # value * 10^7 = mant * 10^t
    if mant == 0:
        r = 0
    elif t > 60:
        return ('err', 'range', info)      # mant >= 1 so the value exceeds 10^60
    elif t < -60:
        r = 0                              # mant < 10^37 so the value is below 10^-23
    else:
        q = Fraction(mant) * Fraction(10) ** t
        r = (q + Fraction(1, 2)).__floor__()   # round half up on the magnitude = half away from zero
    v = -r if neg else r
    if v < I32MIN or v > I32MAX:
        return ('err', 'range', info)
    return ('ok', v, i, info)


def coord_format_ref(x):
    """canonical text of x * 10^-7: no exponent, no trailing zeros, no trailing dot"""
    a = abs(x)
    s = '%d' % (a // 10 ** 7)
    f = ('%07d' % (a % 10 ** 7)).rstrip('0')
    return ('-' if x < 0 else '') + s + ('.' + f if f else '')


TS_RE = re.compile(r'(\d{4})-(\d\d)-(\d\d)T(\d\d):(\d\d):(\d\d)(Z|[.,]\d+Z)', re.A)


def is_leap(y):
    return y % 4 == 0 and (y % 100 != 0 or y % 400 == 0)


def days_from_civil_ref(y, m, d):
    import datetime
    return datetime.date(y, m, d).toordinal() - datetime.date(1970, 1, 1).toordinal()


def ts_ref(s):
    """Reference for Timestamp(const char*) / parse_timestamp: ('ok', uint32, consumed) or ('err', reason)"""
    z = s.find('\0')
    if z >= 0:
        s = s[:z]
    m = TS_RE.match(s)
    if not m:
        return ('err', 'format')
    y, mo, d, h, mi, sec = (int(m.group(k)) for k in range(1, 7))
    if not (1 <= mo <= 12 and h <= 23 and mi <= 59 and sec <= 60 and d >= 1 and y >= 1):
        return ('err', 'field')
    ml = [31, 29 if is_leap(y) else 28, 31, 30, 31, 30, 31, 31, 30, 31, 30, 31][mo - 1]
    if d > ml:
        return ('err', 'feb29' if (mo == 2 and d == 29) else 'field')
    t = days_from_civil_ref(y, mo, d) * 86400 + h * 3600 + mi * 60 + sec
    if t < 0 or t >= 2 ** 32:
        return ('err', 'range')
    return ('ok', t, m.end())


def ts_format_ref(t):
    import datetime
    dt = datetime.datetime(1970, 1, 1) + datetime.timedelta(seconds=t)
    return dt.strftime('%Y-%m-%dT%H:%M:%SZ')


INT_RE = re.compile(r'-?[0-9]+', re.A)


def cstr(s):
    z = s.find('\0')
    return s[:z] if z >= 0 else s


def oi_ref(ty, s):
    s = cstr(s)
    lo, hi = {'i64': (I64MIN, I64MAX), 'u32': (0, 2 ** 32 - 1)}[ty]
    m = INT_RE.match(s)
    if not m:
        return 'err'
    v = int(m.group(0))
    return 'ok %d %d' % (v, m.end()) if lo <= v <= hi else 'err'


def sid_ref(s):
    s = cstr(s)
    if not re.fullmatch(r'[+-]?[0-9]+', s, re.A):
        return 'err'
    v = int(s)
    # INT64_MIN itself is rejected by the code (it cannot tell it from strtoll saturation without errno)
    return 'ok %d' % v if I64MIN < v <= I64MAX else 'err'


def sul_ref(s):
    s = cstr(s)
    if s == '-1':
        return 'ok 0'
    if not re.fullmatch(r'\+?[0-9]+', s, re.A):
        return 'err'
    v = int(s)
    # 2^32-1 itself is rejected by the code (`value < max`): conservative, recorded as an assumption
    return 'ok %d' % v if v < 2 ** 32 - 1 else 'err'


def s2i_ref(ty, s):
    s = cstr(s)
    tmax = {'i32': 2 ** 31 - 1, 'i64': I64MAX, 'u64': 2 ** 64 - 1}[ty]
    if not re.fullmatch(r'[ \t\n\v\f\r]*[+-]?[0-9]+', s, re.A):
        return '0'
    v = int(s.strip(' \t\n\v\f\r'))
    return str(v) if 0 <= v < tmax and v < I64MAX else '0'


# ---------------------------------------------------------------------------------------------
# generators
# ---------------------------------------------------------------------------------------------

COORD_CORPUS = [
    W_F1, W_F14, '3e99999', '16e52', '1e57', '1e63', '1e64', '1e55', '1e12', '1e11', '1e10', '1e9', '1e2', '1e1', '1e0',
    '1.123456789e2', '0.123456789e1', '0.0000000049e1', '0.00000000449999e1', '0.000000005e0', '0.00000005', '0.00000004',
    '0.000000049999999999999999999', '0.00000015', '0.00000025', '-0.00000005', '-0.00000015', '-0.000000049',
    '214.7483647', '214.7483648', '214.74836474', '214.74836475', '-214.7483648', '-214.7483649', '-214.74836484', '-214.74836485',
    '2147483647e-7', '2147483648e-7', '-2147483648e-7', '-2147483649e-7', '21474836470e-8', '21474836475e-8', '9999999999', '99999999999',
    '0000000001', '00000000001', '9999999999.99999999', '9223372036854775807', '1.0000000000000000000000000000', '1.000000000000000000000000000',
    '1e00001', '1e000001', '1e99999', '1e-99999', '1e100000', '0e99999', '-0e99999', '0.0e99999', '1E5', '1e+5', '1e', '1e-', '1.e1', '.e1', '.5e1',
    '5.', '.5', '.', '-', '-.', '-.5', '--5', '+5', ' 5', '5 ', '5x', '', '0', '-0', '00', '0.', '.0', '-.0', '1.5.3', '1.5e3.2', '1e5e5', '1..5',
    '180', '-180', '90', '-90', '180.0000000', '179.99999995', '13.3777', '52.5200066', '-0.1278', '1.23456785', '1.23456795', '1.234567850000000000000000001',
    '12345678e-7', '123456789e-8', '1234567890e-9', '12345678901e-10', '1e-8', '5e-8', '4e-8', '49e-9', '50e-9', '1e-7',
    '0.00000000000000000001e30', '0.000000000000000000000000001e27', '0.000000000000000000000000001e34', '1\x00e56', '\xff', '1\xb2',
]


def gen_digits(rng, n, bias=None):
    out = []
    for _ in range(n):
        r = rng.below(10)
        if r < 3:
            out.append('0')
        elif r < 5:
            out.append('9')
        elif r < 6:
            out.append(rng.choice('45'))
        else:
            out.append(rng.choice('0123456789'))
    return ''.join(out)


EXPS = [0, 1, 2, 3, 5, 7, 8, 9, 10, 11, 12, 17, 18, 19, 20, 27, 28, 35, 36, 37, 55, 56, 57, 62, 63, 64, 65, 99, 100, 1000, 9999, 10000, 99999, 100000]


def gen_coord(rng):
    s = '-' if rng.chance(1, 3) else ''
    kind = rng.below(10)
    if kind < 3:
        # near the range limit / rounding ties
        base = rng.choice(['214.748364', '214.74836', '21.4748364', '2147483.64', '0.0000000', '179.999999', '1.234567', '0.000000'])
        s += base + gen_digits(rng, rng.choice([0, 1, 2, 3, 10, 19, 20]))
    else:
        s += gen_digits(rng, rng.choice([0, 1, 1, 2, 3, 3, 4, 9, 10, 11]))
        if rng.chance(2, 3):
            s += '.' + gen_digits(rng, rng.choice([0, 1, 2, 6, 7, 8, 9, 10, 12, 19, 26, 27, 28]))
    if rng.chance(1, 2):
        e = rng.choice(EXPS) if rng.chance(3, 4) else rng.below(130)
        es = str(e)
        if rng.chance(1, 4):
            es = '0' * rng.below(4) + es
        s += rng.choice('eE') + ('-' if rng.chance(1, 2) else '') + es
    if rng.chance(1, 6):
        s += rng.choice([' ', 'x', '.', 'e', '-', '+', ',', '5', 'E5', '.5', ' 1', '\t'])
    if rng.chance(1, 10) and s:
        # mutate one character
        k = rng.below(len(s))
        s = s[:k] + rng.choice(ALPHA) + s[k + (1 if rng.chance(1, 2) else 0):]
    return s


def gen_ts(rng):
    kind = rng.below(10)
    if kind < 4:
        y = rng.choice([1969, 1970, 1971, 1999, 2000, 2001, 2004, 2038, 2100, 2105, 2106, 2107, rng.below(10000)])
        mo = rng.choice([1, 2, 2, 3, 4, 12, rng.below(14)])
        d = rng.choice([1, 28, 29, 30, 31, rng.below(34)])
        h, mi, sec = rng.choice([0, 23, rng.below(26)]), rng.choice([0, 59, rng.below(62)]), rng.choice([0, 59, 60, rng.below(63)])
        s = '%04d-%02d-%02dT%02d:%02d:%02d' % (y, mo, d, h, mi, sec)
    else:
        s = ts_format_ref(rng.choice([0, 1, 2 ** 31 - 1, 2 ** 31, 2 ** 32 - 1, rng.below(2 ** 32)]))[:-1]
    r = rng.below(10)
    if r < 5:
        s += 'Z'
    elif r < 7:
        s += rng.choice('.,') + gen_digits(rng, 1 + rng.below(9)) + 'Z'
    elif r < 8:
        s += rng.choice(['', 'z', '.Z', ',Z', '.5', '.5z', '+01:00', ' Z', '.5 Z', 'ZZ', '.x5Z'])
    else:
        s += 'Z' + rng.choice([' ', ' v1', 'x', '\t', 'Z'])
    if rng.chance(1, 8):
        k = rng.below(len(s))
        s = s[:k] + rng.choice('0123456789-T:Z., x') + s[k + (1 if rng.chance(1, 2) else 0):]
    return s


def ts_grid():
    out = []
    for y in (1899, 1900, 1969, 1970, 2000, 2001, 2004, 2100, 2106, 2107, 9999):
        for mo in range(0, 14):
            for d in range(0, 33):
                out.append('%04d-%02d-%02dT00:00:00Z' % (y, mo, d))
    for h in range(0, 25):
        out.append('2010-06-15T%02d:30:30Z' % h)
    for v in range(0, 62):
        out.append('2010-06-15T12:%02d:30Z' % v)
        out.append('2010-06-15T12:30:%02dZ' % v)
        out.append('2016-12-31T23:59:%02dZ' % v)
    out += [W_TS_RANGE, W_TS_FEB29, '2106-02-07T06:28:15Z', '2106-02-07T06:28:14Z', '1970-01-01T00:00:00Z', '1969-12-31T23:59:59Z', '1970-01-01T00:00:01Z',
            '2038-01-19T03:14:07Z', '2038-01-19T03:14:08Z', '', 'x', '2000-01-01', '2000-01-01T00:00:00', '2000-01-01T00:00:00z', '2000-01-01T00:00:00.Z',
            '2000-01-01T00:00:00.5Z', '2000-01-01T00:00:00,5Z', '2000-01-01T00:00:00.123456789012345678901234567890Z', '2000-01-01T00:00:00.5', '2000-01-01T00:00:00.5x',
            '2000-01-01T00:00:00Zgarbage', '2000-01-01T00:00:00.5Zgarbage', '2000-01-01t00:00:00Z', '2000/01/01T00:00:00Z', '2000-01-01T00-00-00Z', ' 2000-01-01T00:00:00Z',
            '+200-01-01T00:00:00Z', '2000-1-01T00:00:00Z', '2000-01-01T00:00:0Z', '20000-01-01T00:00:00Z', '2000-01-01T00:00:00\x00Z', '2000-01-01T00:00:60Z', '2000-12-31T23:59:60Z']
    return out


def int_strings(rng, n):
    bounds = [0, 1, 9, 10, 2 ** 31 - 1, 2 ** 31, 2 ** 31 + 1, 2 ** 32 - 2, 2 ** 32 - 1, 2 ** 32, 2 ** 32 + 1, 2 ** 63 - 2, 2 ** 63 - 1, 2 ** 63, 2 ** 63 + 1,
              2 ** 64 - 1, 2 ** 64, 2 ** 64 + 1, 922337203685477580, 922337203685477581, 9223372036854775799, 9223372036854775809, 92233720368547758070,
              10 ** 18, 10 ** 19, 10 ** 20, 10 ** 30]
    out = []
    for b in bounds:
        for sg in ('', '-', '+'):
            for pre in ('', '0', '000'):
                for suf in ('', ' ', 'x', ',', '.5', '\t'):
                    out.append(sg + pre + str(b) + suf)
    out += ['', '-', '+', '--1', '+-1', '-+1', ' 1', '\t1', '\n1', ' -1', '1 ', '-1', '-1 ', '-1x', '-10', '-0', '+0', '0x10', '1e3', 'x', '-x', '0-', '\xd9\xa1', '1\x002', '\x80', '-\x00']
    for _ in range(n):
        sg = rng.choice(['', '', '-', '+'])
        k = rng.choice([1, 2, 9, 10, 11, 18, 19, 20, 21, 25])
        s = sg + gen_digits(rng, k)
        if rng.chance(1, 5):
            s += rng.choice([' ', 'x', ',', '-', '+', '.'])
        if rng.chance(1, 8):
            s = rng.choice([' ', '\t', '\n']) + s
        out.append(s)
    return out



# ---------------------------------------------------------------------------------------------
# call sequences: the conversions are FUNCTIONS of their argument (no dependence on earlier calls / errno)
# ---------------------------------------------------------------------------------------------

SEQ_INT = [('0', 'valid-min'), ('1', 'valid'), ('2147483647', 'valid'), ('4294967294', 'valid-max-u32'), ('4294967295', 'max-u32'), ('4294967296', 'max-u32+1'),
           ('9223372036854775807', 'valid-max-i64'), ('9223372036854775808', 'max-i64+1'), ('-9223372036854775808', 'min-i64'), ('-9223372036854775809', 'min-i64-1'),
           ('18446744073709551615', 'max-u64'), ('18446744073709551616', 'overflow-u64'), ('99999999999999999999999', 'overflow-u64'), ('-99999999999999999999999', 'overflow-neg'),
           ('-1', 'negative'), ('-2', 'negative'), ('', 'empty'), ('x', 'garbage'), ('12x', 'garbage'), (' 1', 'lead-space-plus'), ('+1', 'lead-space-plus'), ('0x10', 'hex')]
SEQ_INT_SHORT = [SEQ_INT[k] for k in (0, 3, 4, 6, 11, 13, 17, 19)]
SEQ_COORD = [('0', 'valid-min'), ('-180', 'valid'), ('214.7483647', 'valid-max'), ('214.7483648', 'max+1'), ('-214.7483648', 'valid-min'), ('1e56', 'overflow'), ('0.000000001e9', 'valid'),
             ('1e99999', 'overflow'), ('99999999999', 'overflow'), ('', 'empty'), ('x', 'garbage'), ('1.5x', 'garbage'), (' 1', 'lead-space-plus'), ('+1', 'lead-space-plus'), ('0x1', 'hex')]
SEQ_TS = [('1970-01-01T00:00:00Z', 'valid-min'), ('2106-02-07T06:28:15Z', 'valid-max'), ('2106-02-07T06:28:16Z', 'max+1'), ('9999-12-31T23:59:60Z', 'overflow'),
          ('0001-01-01T00:00:00Z', 'negative'), ('1969-12-31T23:59:59Z', 'negative'), ('2001-02-29T00:00:00Z', 'garbage'), ('2000-02-29T00:00:00Z', 'valid'), ('', 'empty'), ('x', 'garbage'),
          ('2000-01-01T00:00:00', 'garbage'), (' 2000-01-01T00:00:00Z', 'lead-space-plus'), ('2000-01-01T00:00:00.5Z', 'valid')]
SEQ_FAMILIES = [   # (conversion, family, alphabet)
    ('sid', 'id', SEQ_INT), ('ver', 'u32attr', SEQ_INT), ('cs', 'u32attr', SEQ_INT_SHORT), ('uid', 'u32attr', SEQ_INT_SHORT), ('nch', 'u32attr', SEQ_INT_SHORT),
    ('ncm', 'u32attr', SEQ_INT_SHORT), ('s2i32', 'str_to_int', SEQ_INT_SHORT), ('s2i64', 'str_to_int', SEQ_INT_SHORT), ('s2u64', 'str_to_int', SEQ_INT_SHORT),
    ('oi64', 'opl_int', SEQ_INT_SHORT), ('ou32', 'opl_int', SEQ_INT_SHORT), ('c', 'coord', SEQ_COORD), ('clon', 'coord', SEQ_COORD[:3] + SEQ_COORD[5:6] + SEQ_COORD[11:13]),
    ('clat', 'coord', SEQ_COORD[1:3] + SEQ_COORD[7:8] + SEQ_COORD[10:11]), ('tp', 'timestamp', SEQ_TS), ('ts', 'timestamp', SEQ_TS), ('topl', 'timestamp', SEQ_TS[:4] + SEQ_TS[8:10] + SEQ_TS[11:12]),
]
SEQ_POISON = ['0', 'ERANGE', 'EINVAL', 'EDOM']


def seq_items():
    """(conversion, family, string, class) for every conversion x its boundary alphabet"""
    return [(cv, fam, s, cl) for cv, fam, alpha in SEQ_FAMILIES for s, cl in alpha]


def seq_line(poison, items):
    return 'seq %s %s' % (poison, ' '.join('%s %s' % (it[0], hx(it[2])) for it in items))


def seq_coarse(cl):
    """class of an argument string in the evidence histogram"""
    if cl.startswith('valid'):
        return 'valid'
    if cl.startswith('overflow'):
        return 'overflow(>=2^64)'
    if cl.startswith('max') or cl.startswith('min'):
        return 'type-boundary'
    return cl


def seq_outcome_class(r):
    return 'err' if r == 'err' else ('zero' if r in ('0', 'ok 0', 'ok 0 0') else 'ok')


# ---------------------------------------------------------------------------------------------

def run_both(ctx, hbin, ops, variant, want_model=True):
    """Run harness and model concurrently on the same lines (the model gets the variant prefix)."""
    text = '\n'.join(ops) + '\n'
    res = {}

    def h():
        res['impl'] = ctx.run_lines([hbin], text)

    def m():
        res['model'] = ctx.run_lines([ctx.model_exe('model_c13')], variant_prefix(variant) + text)

    th = [threading.Thread(target=h)]
    if want_model:
        th.append(threading.Thread(target=m))
    for t in th:
        t.start()
    for t in th:
        t.join()
    rc, impl, se = res['impl']
    if rc != 0:
        ctx.violation('harness-crash', 'harness exited %d: %s' % (rc, se[-500:]), {'kind': 'harness-crash', 'stderr': se[-2000:], 'first_op': ops[0] if ops else ''}, found_input=False)
    model = None
    if want_model:
        rc2, model, se2 = res['model']
        model = model[2:]
    return impl, model


def variant_prefix(variant):
    """the two state-setting lines the model driver gets first: (coordinate variant, leap fix, range fix)"""
    return 'variant %s\ntsvariant %d %d\n' % (variant[0], variant[1], variant[2])


def run_parallel(cmd, chunks, prefix=''):
    """Run `cmd` once per chunk of op lines, all at the same time; returns the list of output-line lists."""
    outs = [None] * len(chunks)

    def w(i):
        rc, so, se = vlib.sh(cmd, input=prefix + '\n'.join(chunks[i]) + '\n')
        ls = so.split('\n')
        if ls and ls[-1] == '':
            ls.pop()
        if prefix:
            ls = ls[prefix.count('\n'):]
        outs[i] = ls if rc == 0 else ['<crash rc=%d>' % rc] * len(chunks[i])

    th = [threading.Thread(target=w, args=(i,)) for i in range(len(chunks))]
    for t in th:
        t.start()
    for t in th:
        t.join()
    return outs


def replay_cmd(op):
    return 'echo "%s" | $(ls /verif/.build/c13-* | head -1)   # harness built by tools/check.py C13; model: echo ... | lean/.lake/build/bin/model_c13' % op


def run(ctx):
    rng = ctx.rng
    quick = ctx.tier == 'quick'
    ctx.rule = ('one case = one op line (one string parsed / one value formatted) or one element of a checksummed / round-tripped range; '
                'distinct = distinct op lines by hash plus the number of range elements; trivial (not counted) = strings rejected at their first character')
    ctx.assumptions += [
        'C strings end at the first NUL; bytes >= 0x80 are no digits / white space ("C" locale)',
        'string_to_ulong rejects 4294967295 (the repo tests require it) and string_to_object_id rejects INT64_MIN itself (conservative, modelled as the code does)',
        'Timestamp(const char*) ignores characters after the final Z (modelled as the code does; parse_timestamp(const char**) reports the position)',
        'output_int(INT64_MIN) is undefined behaviour (negation) and excluded from the domain',
        '(pre-fix variants only) signed overflow in the coordinate scaling loop is modelled as two\'s-complement wrap-around (what g++ -O1 computes); the code in the tree cannot overflow (theorem coord_parse_exact)',
    ]
    ctx.trusted.append('glibc timegm/gmtime_r/strtoll/strtoul contracts (Model/Conv.lean timegm, gmtime, strtoll, strtoul) — checked against the real libc by the correspondence streams')

    # ---- 1. proofs ---------------------------------------------------------------------------
    proof_ok = ctx.proof_stage(exes=['model_c13'])

    # ---- 2. harness ----------------------------------------------------------------------------
    hbin, err = vlib.build_cpp('c13', ['c13.cpp'])
    if hbin is None:
        ctx.violation('harness-build', 'harness does not compile against the current tree: ' + err[-600:],
                      {'kind': 'harness-build', 'stderr': err}, found_input=False)
        return
    have_model = ctx.exe_build_ok
    if not have_model and proof_ok:
        ctx.violation('model-driver-build', 'model driver does not build', {'kind': 'broken-correspondence'}, found_input=False)

    # ---- which variant of the coordinate parser is in the tree? ----------------------------------
    rc, probe, se = ctx.run_lines([hbin], 'c %s\nc %s\n' % (hx(W_F1), hx(W_F14)))
    if probe[:2] == ['err', 'ok 10000000 13 1']:
        cvariant = 'fixed'
    elif probe[:2] == ['err', 'ok 0 13 1']:
        cvariant = 'fixovf'
    else:
        cvariant = 'old'
    # ... and of the timestamp parser (fixes: leap-year check, 32-bit range check)
    rc, probe, se = ctx.run_lines([hbin], 'tp %s\ntp %s\n' % (hx(W_TS_FEB29), hx(W_TS_RANGE)))
    leap_fix = 1 if probe[:1] == ['err'] else 0
    range_fix = 1 if probe[1:2] == ['err'] else 0
    variant = (cvariant, leap_fix, range_fix)
    ctx.extra['model_variant'] = {'coordinate_parser': cvariant, 'timestamp_leap_year_check': bool(leap_fix), 'timestamp_range_check': bool(range_fix),
                                  'note': 'the tree contains the fixes 5d92c23, b0f4fdb, b3b4a84, 2814835: the main line of the model is fixed/leap/range. '
                                          'The model also keeps the pre-fix behaviours; which one the implementation shows is determined by probing it with '
                                          'the four witness strings (regression probes), every other line must then agree with that variant. A witness that '
                                          'shows the old behaviour is reported as a VIOLATION under its stable key by the reference monitors.'}
    ctx.count('variant:%s/leap%d/range%d' % variant)

    # ---- replay of a recorded violation ---------------------------------------------------------
    if getattr(ctx, 'replay', None):
        import json
        with open(ctx.replay) as f:
            rep = json.load(f)
        rops = [rep['op']] if 'op' in rep else [x[1] for x in rep.get('first', [])]
        impl, model = run_both(ctx, hbin, rops, variant, have_model)
        for i, op in enumerate(rops):
            a = impl[i] if i < len(impl) else '<missing>'
            b = model[i] if model is not None and i < len(model) else '<no model>'
            vlib.log('replay: `%s` -> implementation `%s`, model(%s) `%s`, recorded: impl `%s` reference `%s`'
                     % (op, a, '/'.join(map(str, variant)), b, rep.get('impl'), rep.get('reference')))
            still = (a != b) or ('reference' in rep and a != rep['reference'])
            if still:
                ctx.violation(rep.get('key', 'replay:' + op[:80]), 'replayed: ' + rep.get('what', op),
                              {'kind': rep.get('kind', 'counterexample'), 'op': op, 'impl': a, 'model': b, 'reference': rep.get('reference')})
        return

    mismatch_groups = {}   # group key -> list of (op, string, impl, ref)

    def note_mismatch(group, op, s, got, ref):
        mismatch_groups.setdefault(group, []).append((op, s, got, ref))

    corr = []  # correspondence disagreements (stream, op, impl, model)

    def diff(name, ops, impl, model):
        if model is None:
            return
        d = ctx.diff_streams(name, ops, impl, model)
        for i, op, a, b in d:
            corr.append((name, op, a, b))

    # ---- corpus (fixed op lines, model vs implementation) -----------------------------------------
    cdir = os.path.join(vlib.ROOT, 'corpus', 'C13')
    if os.path.isdir(cdir):
        for fn in sorted(os.listdir(cdir)):
            if fn.endswith('.ops'):
                with open(os.path.join(cdir, fn)) as f:
                    cops = [l.strip() for l in f if l.strip() and not l.startswith('#')]
                impl, model = run_both(ctx, hbin, cops, variant, have_model)
                diff('corpus', cops, impl, model)
                for o in cops:
                    ctx.note_case(o)

    # ---- 3. coordinate strings ---------------------------------------------------------------
    def coord_stream(name, strings, count_cases=True, hash_cases=True):
        ops = ['c ' + hx(s) for s in strings]
        impl, model = run_both(ctx, hbin, ops, variant, have_model)
        diff(name, ops, impl, model)
        for s, op, got in zip(strings, ops, impl):
            ref = coord_ref(s)
            if count_cases:
                triv = ref[0] == 'err' and ref[1] == 'format' and got == 'err' and not (s[:1].isdigit() or s[:1] in '-.')
                if hash_cases:
                    ctx.note_case(op, nontrivial=not triv)
                else:
                    # exhaustive enumeration: every line is distinct by construction, no need to hash 24M of them
                    ctx.evaluations += 1
                    if not triv:
                        ctx.distinct_count_extra += 1
            if ref[0] == 'ok':
                z = s.find('\0')
                full = 1 if ref[2] == (len(s) if z < 0 else z) else 0
                want = 'ok %d %d %d' % (ref[1], ref[2], full)
            else:
                want = 'err'
            ctx.count('coord-ref:' + (ref[0] if ref[0] == 'ok' else 'err-' + ref[1]))
            if got != want:
                info = ref[-1]
                if got.startswith('ok') and 'dropped_value' in info and got.split()[1] == str(info['dropped_value']):
                    note_mismatch('coord-dropped-digits', op, s, got, want)
                elif got.startswith('ok') and ref[0] == 'err' and ref[1] == 'range' and info.get('exp', 0) > 0:
                    note_mismatch('coord-exp-overflow', op, s, got, want)
                else:
                    note_mismatch('coord:' + s, op, s, got, want)
        return impl

    strings = list(COORD_CORPUS)
    coord_stream('coord-corpus', strings)
    for s in COORD_CORPUS[:6]:
        ctx.sample('c ' + hx(s) + '   # "%s"' % s)

    # exhaustive short strings
    maxlen = 4 if quick else 6
    for n in range(1, maxlen + 1):
        if n <= 4:
            ss = [''.join(t) for t in itertools.product(ALPHA, repeat=n)]
            coord_stream('coord-exhaustive', ss, hash_cases=False)
            ctx.count('coord-exhaustive-len%d' % n, len(ss))
        else:
            # chunk by prefix to bound memory
            pre_len = n - 4
            for pre in itertools.product(ALPHA, repeat=pre_len):
                p = ''.join(pre)
                ss = [p + ''.join(t) for t in itertools.product(ALPHA, repeat=4)]
                coord_stream('coord-exhaustive', ss, hash_cases=False)
                ctx.count('coord-exhaustive-len%d' % n, len(ss))
    if quick:
        # length 5 and 6: random sample
        ss = [''.join(rng.choice(ALPHA) for _ in range(5 + rng.below(2))) for _ in range(60000)]
        coord_stream('coord-random-short', ss)

    # grammar-directed
    ng = 120000 if quick else 1500000
    done = 0
    while done < ng:
        k = min(250000, ng - done)
        ss = [gen_coord(rng) for _ in range(k)]
        coord_stream('coord-grammar', ss)
        if done == 0:
            ctx.sample('c ' + hx(ss[0]) + '   # "%s"' % ss[0])
            ctx.sample('c ' + hx(ss[1]) + '   # "%s"' % ss[1])
            if have_model:
                # branch histogram of the model on a sample
                tags_ops = ['ci ' + hx(s) for s in ss[:20000] + COORD_CORPUS]
                rc, tags, se = ctx.run_lines([ctx.model_exe('model_c13')], variant_prefix(variant) + '\n'.join(tags_ops) + '\n')
                for t in tags[2:]:
                    for part in t.split(','):
                        ctx.count('coord-branch:' + re.sub(r'\d+', lambda m: m.group(0) if int(m.group(0)) <= 8 else '9+', part))
        done += k

    # exponent sweep
    mants = ['1', '0', '-1', '2147483647', '0.0000001', '214.7483647', '9999999999', '.00000001', '0.000000001', '16', '0.5', '1.23456789012', '-0.0000000000000000001']
    if quick:
        exps = list(range(-130, 131)) + list(range(-99999, 100000, 1999)) + [-99999, 99999, -10000, 10000, -9999, 9999]
        ss = [m + 'e' + str(e) for m in mants for e in exps]
    else:
        ss = [m + 'e' + str(e) for m in mants for e in range(-300, 301)]
        ss += [m + 'e' + str(e) for m in ('1', '0.0000001', '-0.0000000000000000001') for e in range(-99999, 100000)]
    for k in range(0, len(ss), 200000):
        coord_stream('coord-exponent-sweep', ss[k:k + 200000])
    ctx.count('coord-exponent-sweep', len(ss))

    # ---- 4. coordinate formatting ---------------------------------------------------------------
    xs = [I32MIN, I32MIN + 1, -1, 0, 1, I32MAX, I32MAX - 1]
    for p in range(0, 10):
        for d in (-1, 0, 1):
            for m in (1, 2, 5, 9):
                for sg in (1, -1):
                    v = sg * (m * 10 ** p + d)
                    if I32MIN <= v <= I32MAX:
                        xs.append(v)
    xs += [1800000000, -1800000000, 900000000, -900000000, 1234567800, 1000000, 10000001, 99999999, 100000000, 2147483640]
    xs += [rng.below(2 ** 32) - 2 ** 31 for _ in range(20000 if quick else 200000)]
    fops = ['f %d' % x for x in xs]
    impl, model = run_both(ctx, hbin, fops, variant, have_model)
    diff('coord-format', fops, impl, model)
    for x, op, got in zip(xs, fops, impl):
        ctx.note_case(op)
        if got != coord_format_ref(x):
            note_mismatch('coord-format:%d' % x, op, str(x), got, coord_format_ref(x))
    ctx.sample(fops[0] + '   # -> ' + impl[0])
    # parse what was formatted (model and impl again, plus the reference)
    coord_stream('coord-parse-of-format', impl[:30000])

    # checksummed ranges: model vs impl on format; round trip monitor on the implementation
    nshard = 16
    if quick:
        stride = 1021
        total = 2 ** 32 // stride
    else:
        stride = 1
        total = 2 ** 32
    per = (total + nshard * 8 - 1) // (nshard * 8)
    sum_ops = []
    for k in range(nshard * 8):
        a = I32MIN + k * per * stride
        n = min(per, total - k * per)
        if n > 0:
            sum_ops.append('fsum %d %d %d' % (a, n, stride))
    chunks = [sum_ops[i::nshard] for i in range(nshard)]
    if have_model:
        mo = run_parallel([ctx.model_exe('model_c13')], chunks)
        io = run_parallel([hbin], chunks)
        for c, a, b in zip(chunks, io, mo):
            diff('coord-format-checksum', c, a, b)
    ctx.evaluations += total
    ctx.distinct_count_extra += total
    ctx.count('coord-format-checksummed-values', total)
    # whole-domain round trip on the implementation (all 2^32 in 14 s on 16 threads)
    rt_stride = 3 if quick else 1
    rt_total = 2 ** 32 // rt_stride
    rc, rt, se = ctx.run_lines([hbin], 'crt %d %d %d 16\n' % (I32MIN, rt_total, rt_stride))
    ctx.count('coord-roundtrip-values', rt_total)
    ctx.evaluations += rt_total
    ctx.distinct_count_extra += rt_total
    if not rt or not rt[0].startswith('ok'):
        r = rt[0] if rt else 'crash'
        x = r.split()[1] if len(r.split()) > 1 else '?'
        ctx.violation('coord-roundtrip:' + x, 'parse(format(x)) != x on the implementation: ' + r,
                      {'kind': 'counterexample', 'op': 'f ' + x, 'impl': r, 'replay': replay_cmd('f ' + x)})

    # ---- 5. timestamps -----------------------------------------------------------------------------
    ts_vals = [0, 1, 59, 60, 86399, 86400, 86401, 951782399, 951782400, 951868799, 951868800, 2 ** 31 - 1, 2 ** 31, 2 ** 32 - 2, 2 ** 32 - 1,
               4107542399, 4107542400, 4102444800, 978307199, 978307200, 68255999, 68256000]
    ts_vals += [rng.below(2 ** 32) for _ in range(20000 if quick else 200000)]
    # every last/first second of a month boundary for a few years
    for y in (1970, 1972, 2000, 2001, 2038, 2100, 2105):
        for m in range(1, 13):
            t = days_from_civil_ref(y, m, 1) * 86400
            for d in (-1, 0):
                if 0 <= t + d < 2 ** 32:
                    ts_vals.append(t + d)
    tops = ['t %d' % t for t in ts_vals] + ['ti %d' % t for t in ts_vals[:40]]
    impl, model = run_both(ctx, hbin, tops, variant, have_model)
    diff('ts-format', tops, impl, model)
    for t, op, got in zip(ts_vals, tops, impl):
        ctx.note_case(op)
        if got != ts_format_ref(t):
            note_mismatch('ts-format:%d' % t, op, str(t), got, ts_format_ref(t))
    ctx.sample(tops[3] + '   # -> ' + impl[3])

    tstr = ts_grid() + [gen_ts(rng) for _ in range(60000 if quick else 500000)] + impl[:5000]
    tpops = ['tp ' + hx(s) for s in tstr]
    impl, model = run_both(ctx, hbin, tpops, variant, have_model)
    diff('ts-parse', tpops, impl, model)
    for s, op, got in zip(tstr, tpops, impl):
        ref = ts_ref(s)
        ctx.note_case(op, nontrivial=not (ref == ('err', 'format') and len(s) < 19))
        ctx.count('ts-ref:' + (ref[0] if ref[0] == 'ok' else 'err-' + ref[1]))
        if ref[0] == 'ok':
            ok = got.startswith('ok ') and got.split()[2:] == [str(ref[1]), str(ref[2])] and got.split()[1] == str(ref[1])
        else:
            ok = got == 'err'
        if not ok:
            want = 'ok %d %d %d' % (ref[1], ref[1], ref[2]) if ref[0] == 'ok' else 'err'
            if ref[0] == 'err' and ref[1] == 'range' and got.startswith('ok'):
                note_mismatch('ts-range', op, s, got, want)
            elif ref[0] == 'err' and ref[1] == 'feb29' and got.startswith('ok'):
                note_mismatch('ts-feb29', op, s, got, want)
            else:
                note_mismatch('ts-parse:' + s, op, s, got, want)
    ctx.sample(tpops[5] + '   # "%s" -> %s' % (tstr[5], impl[5]))
    toplops = ['topl ' + hx(s) for s in ts_grid()[:300] + ['', ' ', '\t', ' 2000-01-01T00:00:00Z', '2000-01-01T00:00:00Z v1', '2000-01-01T00:00:00.5Z v1', 'x']
               + [gen_ts(rng) for _ in range(5000)]]
    impl, model = run_both(ctx, hbin, toplops, variant, have_model)
    diff('ts-opl', toplops, impl, model)
    for op in toplops:
        ctx.note_case(op)

    # checksummed ranges (model vs impl incl. the libc contract) + round trip monitor (processes: gmtime_r takes a global lock)
    if quick:
        stride = 2039
        total = 2 ** 32 // stride
    else:
        stride = 1
        total = 2 ** 32
    per = (total + nshard * 8 - 1) // (nshard * 8)
    sum_ops, rt_ops = [], []
    for k in range(nshard * 8):
        a = k * per * stride
        n = min(per, total - k * per)
        if n > 0:
            sum_ops.append('tsum %d %d %d' % (a, n, stride))
    rt_stride = 61 if quick else 1
    rt_total = 2 ** 32 // rt_stride
    rper = (rt_total + nshard - 1) // nshard
    for k in range(nshard):
        n = min(rper, rt_total - k * rper)
        if n > 0:
            rt_ops.append('trt %d %d %d 1' % (k * rper * rt_stride, n, rt_stride))
    chunks = [sum_ops[i::nshard] for i in range(nshard)]
    if have_model:
        mo = run_parallel([ctx.model_exe('model_c13')], chunks)
        io = run_parallel([hbin], chunks)
        for c, a, b in zip(chunks, io, mo):
            diff('ts-format-checksum', c, a, b)
    ctx.evaluations += total
    ctx.distinct_count_extra += total
    ctx.count('ts-format-checksummed-values', total)
    rts = run_parallel([hbin], [[o] for o in rt_ops])
    ctx.count('ts-roundtrip-values', rt_total)
    ctx.evaluations += rt_total
    ctx.distinct_count_extra += rt_total
    for o, r in zip(rt_ops, rts):
        r = r[0] if r else 'crash'
        if not r.startswith('ok'):
            x = r.split()[1] if len(r.split()) > 1 else '?'
            ctx.violation('ts-roundtrip:' + x, 'Timestamp(to_iso(t)) != t on the implementation: ' + r,
                          {'kind': 'counterexample', 'op': 't ' + x, 'impl': r, 'replay': replay_cmd('t ' + x)})
            break

    # ---- 6. integers --------------------------------------------------------------------------------
    istr = int_strings(rng, 20000 if quick else 150000)
    ialpha = '0189-+ x'
    for n in range(1, 5 if quick else 6):
        istr += [''.join(t) for t in itertools.product(ialpha, repeat=n)]
    iops, refs = [], []
    for s in istr:
        for ty in ('i64', 'u32'):
            iops.append('oi %s %s' % (ty, hx(s)))
            refs.append(oi_ref(ty, s))
        iops.append('sid ' + hx(s))
        refs.append(sid_ref(s))
        iops.append('sul ' + hx(s))
        refs.append(sul_ref(s))
        for ty in ('i32', 'i64', 'u64'):
            iops.append('s2i %s %s' % (ty, hx(s)))
            refs.append(s2i_ref(ty, s))
    impl, model = run_both(ctx, hbin, iops, variant, have_model)
    diff('int-parse', iops, impl, model)
    for op, got, want in zip(iops, impl, refs):
        ctx.note_case(op)
        ctx.count('int-ref:%s:%s' % (op.split()[0], 'err' if want == 'err' else 'ok'))
        if got != want:
            note_mismatch('int:' + op, op, op, got, want)
    ctx.sample(iops[0] + '   # -> ' + impl[0])
    ovals = [0, 1, -1, 9, 10, -9, -10, I64MAX, I64MIN + 1, 2 ** 31, 2 ** 32 - 1, 2 ** 32, -2 ** 31, 10 ** 18, -10 ** 18, 10 ** 18 - 1]
    ovals += [(rng.below(2 ** 64) - 2 ** 63) >> rng.below(64) for _ in range(20000 if quick else 300000)]
    ovals = [v for v in ovals if v != I64MIN]
    oops = ['out %d' % v for v in ovals]
    impl, model = run_both(ctx, hbin, oops, variant, have_model)
    diff('int-output', oops, impl, model)
    for v, op, got in zip(ovals, oops, impl):
        ctx.note_case(op)
        if got != str(v):
            note_mismatch('int-out:%d' % v, op, str(v), got, str(v))
    # and parse it back with opl_parse_int (round trip on the implementation)
    back = ['oi i64 ' + hx(s) for s in impl]
    rc, bimpl, se = ctx.run_lines([hbin], '\n'.join(back) + '\n')
    for v, op, got, s in zip(ovals, back, bimpl, impl):
        if got != 'ok %d %d' % (v, len(s)):
            note_mismatch('int-roundtrip:%d' % v, op, str(v), got, 'ok %d %d' % (v, len(s)))

    # ---- 6b. call sequences: every conversion is a function of its argument ------------------------------
    # (the harness presets errno and runs 1..3 conversions back to back on one thread; the model is a pure function
    # of each argument, so a result that depends on an earlier call or on errno is a model disagreement AND a
    # monitor hit: outcome(B | after A, errno = e) must be outcome(B | nothing before, errno = 0))
    items = seq_items()
    single = [seq_line('0', [it]) for it in items]
    seq_ops = list(single)
    seq_meta = [('0', (it,)) for it in items]
    for e in SEQ_POISON[1:]:
        for it in items:
            seq_ops.append(seq_line(e, [it]))
            seq_meta.append((e, (it,)))
    for a in items:                       # all ordered pairs, errno = 0 before A
        for b in items:
            seq_ops.append(seq_line('0', [a, b]))
            seq_meta.append(('0', (a, b)))
    for _ in range(3000 if quick else 30000):    # pairs under a poisoned errno
        e, tup = rng.choice(SEQ_POISON[1:]), (rng.choice(items), rng.choice(items))
        seq_ops.append(seq_line(e, tup))
        seq_meta.append((e, tup))
    for _ in range(4000 if quick else 60000):    # triples, any errno
        e, tup = rng.choice(SEQ_POISON), (rng.choice(items), rng.choice(items), rng.choice(items))
        seq_ops.append(seq_line(e, tup))
        seq_meta.append((e, tup))
    impl, model = run_both(ctx, hbin, seq_ops, variant, have_model)
    diff('call-sequences', seq_ops, impl, model)
    fresh = {}
    for it, got in zip(items, impl):
        fresh[it] = got
    seq_hist = {}
    seq_hits = []
    for op, (e, tup), got in zip(seq_ops, seq_meta, impl):
        ctx.note_case(op)
        parts = got.split(' | ')
        want = [fresh.get(it, '<none>') for it in tup]
        ctx.count('seq-length:%d' % len(tup))
        ctx.count('seq-errno-before:' + e)
        for k, it in enumerate(tup):
            r = parts[k] if k < len(parts) else '<missing>'
            prev = tup[k - 1] if k else None
            hk = '%s|%s|%s|%s|%s' % (it[1], seq_coarse(prev[3]) if prev else '(first call)', seq_coarse(it[3]), e, seq_outcome_class(r) + ('' if r == want[k] else '-DIFFERS-FROM-FRESH'))
            seq_hist[hk] = seq_hist.get(hk, 0) + 1
        if parts != want:
            k = next((i for i in range(len(tup)) if i >= len(parts) or parts[i] != want[i]), 0)
            seq_hits.append((len(tup), op, e, tup, k, got, ' | '.join(want)))
    ctx.extra['call_sequence_histogram'] = {'key': 'conversion family | class(previous call argument) | class(argument) | errno preset before the first call | outcome',
                                            'items': len(items), 'lines': len(seq_ops), 'counts': dict(sorted(seq_hist.items()))}
    ctx.sample(seq_ops[len(items) * 4 + 1] + '   # -> ' + impl[len(items) * 4 + 1])
    ctx.count('monitor-mismatch:call-sequence', len(seq_hits))
    reported = set()
    # shortest sequences first within each kind; one violation per conversion whose result moved, pairs before pure errno presets
    for n, op, e, tup, k, got, want in sorted(seq_hits, key=lambda h: (0 if h[0] == 2 and h[2] == '0' else 1 if h[0] == 1 else 2, h[0])):
        b = tup[k]
        kind = 'history' if not (n == 1) else 'ambient-errno'
        if (kind, b[0]) in reported or len(reported) >= 6:
            continue
        reported.add((kind, b[0]))
        if kind == 'history':
            pre = ', '.join('%s("%s")' % (t[0], t[2]) for t in tup[:k])
            key = 'history:%s:"%s"-after-%s' % (b[0], b[2], '-'.join('%s:"%s"' % (t[0], t[2]) for t in tup[:k]) or 'errno=' + e)
            what = ('the result of a conversion depends on the calls made before it: %s("%s") gives `%s` after %s%s, but `%s` as the first call with errno = 0 '
                    '(the property: the result is determined by the string)' % (b[0], b[2], got.split(' | ')[k] if k < len(got.split(' | ')) else got, pre or 'nothing',
                                                                               '' if e == '0' else ' with errno preset to ' + e, fresh.get(b)))
        else:
            key = 'ambient-errno:%s:"%s":%s' % (b[0], b[2], e)
            what = ('the result of a conversion depends on the value errno has before the call: %s("%s") gives `%s` with errno == %s, `%s` with errno == 0'
                    % (b[0], b[2], got, e, fresh.get(b)))
        ctx.violation(key[:160], what, {'kind': 'counterexample', 'op': op, 'impl': got, 'reference': want, 'sequence': [[t[0], t[2]] for t in tup], 'errno_before': e,
                                        'failing_call': k, 'hits_in_this_run': len(seq_hits), 'replay': replay_cmd(op)})

    # ---- 7. violations ---------------------------------------------------------------------------------
    CANON = {'coord-exp-overflow': ('coord-parse:' + W_F1, W_F1,
                                    'REGRESSION of fix 5d92c23 (F1): string_to_location_coordinate accepts an out-of-range value, the scaling loop `result *= 10` overflows int64 and wraps'),
             'coord-dropped-digits': ('coord-parse:' + W_F14, W_F14,
                                      'REGRESSION of fix b0f4fdb (F14): string_to_location_coordinate drops fraction digits beyond the 8th before applying a positive exponent, wrong value'),
             'ts-range': ('ts-parse:' + W_TS_RANGE, W_TS_RANGE,
                          'REGRESSION of fix b3b4a84: Timestamp(const char*) silently truncates a time outside 1970..2106 to 32 bits instead of rejecting it'),
             'ts-feb29': ('ts-parse:' + W_TS_FEB29, W_TS_FEB29,
                          'REGRESSION of fix 2814835: parse_timestamp accepts February 29 of a non-leap year and returns March 1')}
    other = 0
    for g, items in mismatch_groups.items():
        ctx.count('monitor-mismatch:' + (g if g in CANON else g.split(':')[0]), len(items))
        if g in CANON:
            key, w, what = CANON[g]
            canon = [it for it in items if it[1] == w]
            first = canon[0] if canon else items[0]
            if not canon:
                key = g + ':' + first[1]
            ctx.violation(key, '%s: "%s" -> implementation `%s`, arbitrary-precision reference `%s` (%d inputs of this class in this run)'
                          % (what, first[1], first[2], first[3], len(items)),
                          {'kind': 'counterexample', 'op': first[0], 'input': first[1], 'impl': first[2], 'reference': first[3],
                           'class_size': len(items), 'more': [it[1] for it in items[1:6]], 'replay': replay_cmd(first[0])})
        else:
            other += 1
            if other <= 5:
                op, s, got, want = items[0]
                ctx.violation(g[:120], 'implementation disagrees with the arbitrary-precision reference: `%s` ("%s") -> `%s`, reference `%s`'
                              % (op, s, got, want),
                              {'kind': 'counterexample', 'op': op, 'input': s, 'impl': got, 'reference': want, 'replay': replay_cmd(op)})
    if corr:
        name, op, a, b = corr[0]
        ctx.violation('correspondence:' + name + ':' + op[:80],
                      'model (variant %s) and implementation disagree on %d lines, first in stream %s: `%s` impl=`%s` model=`%s`%s'
                      % ('/'.join(map(str, variant)), len(corr), name, op, a, b, '' if (other or seq_hits) else ' — and the reference monitors found no property violation there'),
                      {'kind': 'broken-correspondence', 'variant': list(variant), 'first': corr[:8], 'replay': replay_cmd(op)}, found_input=bool(other or seq_hits))
