"""C07 truncation sweep (part 4 of tools/props/c07.py): "the input ends early" at every byte position,
per format, per compression and per input path, on the real Reader (harness/c07t.cpp), with the PBF framing
model (lean/Osmium/Model/PbfFd.lean via lean/Driver/C07.lean `trunc`) run on the same cuts.

Oracles (independent of the reader; written from the format descriptions):
  PBF   record structure from the 4-byte lengths and BlobHeader.datasize (c05.pbf_blobs); a prefix is a valid file
        iff it ends exactly behind a complete record and contains the header blob
  OPL   every prefix is a file (an unterminated last line is a line): law read(p) == read(p + "\\n"), and the
        objects of the complete lines come first
  XML   valid iff the closing tag of the root element is complete (only white space may follow)
  o5m   dataset walk (type byte, varint length); valid iff the prefix ends at a dataset boundary behind the 7-byte
        header (the reader does not require the 0xfe end marker: recorded assumption)
"""
import os
import subprocess

import vlib
from props import c05

FNV0 = 1469598103934665603
MASK = (1 << 64) - 1


def fnv_prefixes(dumps):
    """hash of the first i object dumps (the harness prints the same FNV-1a over dump + LF)"""
    out = [FNV0]
    h = FNV0
    for d in dumps:
        for ch in d.encode() + b'\n':
            h = ((h ^ ch) * 1099511628211) & MASK
        out.append(h)
    return out


def ranges(cuts):
    """sorted distinct cuts -> 'a-b,c,...'"""
    cuts = sorted(set(cuts))
    out = []
    i = 0
    while i < len(cuts):
        j = i
        while j + 1 < len(cuts) and cuts[j + 1] == cuts[j] + 1:
            j += 1
        out.append('%d-%d' % (cuts[i], cuts[j]) if j > i else '%d' % cuts[i])
        i = j + 1
    return ','.join(out)


# ------------------------------------------------------------------------------------------
# format oracles
# ------------------------------------------------------------------------------------------
class PbfLayout:
    def __init__(self, data, blob_counts):
        self.n = len(data)
        self.blobs = c05.pbf_blobs(data)
        self.hl = [int.from_bytes(data[s:s + 4], 'big') for s, _ in self.blobs]
        self.counts = blob_counts          # objects per DATA blob
        self.ends = [e for _, e in self.blobs]

    def region(self, k):
        """(region, index of the record the cut lies in / number of complete records at a boundary)"""
        if k == 0:
            return 'empty', 0
        for j, (s, e) in enumerate(self.blobs):
            if k == e:
                return 'boundary', j + 1
            if s < k < e:
                if k < s + 4:
                    return 'length-prefix', j
                if k < s + 4 + self.hl[j]:
                    return 'blob-header', j
                return 'blob-body', j
        return 'boundary', len(self.blobs)

    def valid(self, k):
        """number of objects of the complete records if the prefix is a valid file, else None"""
        reg, j = self.region(k)
        if reg == 'boundary' and j >= 1:
            return sum(self.counts[:j - 1])
        return None

    def complete_objects(self, k):
        """objects of the complete data blobs before the cut"""
        done = sum(1 for e in self.ends if e <= k)
        return sum(self.counts[:max(done - 1, 0)])

    def framing_cuts(self):
        out = set()
        for (s, e), hl in zip(self.blobs, self.hl):
            out.update(range(max(s - 2, 0), min(s + 4 + hl + 3, self.n) + 1))
            out.update(range(max(e - 3, 0), e + 1))
        return out


class O5mLayout:
    def __init__(self, data):
        self.n = len(data)
        self.bounds = {}          # boundary position -> number of complete object datasets before it
        p = 0
        objs = 0
        n = len(data)
        while p < n:
            t = data[p]
            p += 1
            if t < 0xf0:
                ln = 0
                sh = 0
                while p < n:
                    b = data[p]
                    p += 1
                    ln |= (b & 0x7f) << sh
                    sh += 7
                    if b < 0x80:
                        break
                p += ln
                if t in (0x10, 0x11, 0x12):
                    objs += 1
            if p <= n:
                self.bounds[p] = objs

    def region(self, k):
        if k == 0:
            return 'empty', 0
        if k < 7:
            return 'file-header', 0
        return ('boundary' if k in self.bounds else 'mid-dataset'), 0

    def valid(self, k):
        return self.bounds.get(k) if k >= 7 else None

    def complete_objects(self, k):
        return max([v for b, v in self.bounds.items() if b <= k] or [0])

    def framing_cuts(self):
        out = set(range(0, 12))
        for b in self.bounds:
            out.update(range(max(b - 3, 0), min(b + 4, self.n) + 1))
        return out


class XmlLayout:
    def __init__(self, data, nobj):
        self.n = len(data)
        self.data = data
        self.nobj = nobj
        self.root_end = data.rindex(b'</osm') + data[data.rindex(b'</osm'):].index(b'>') + 1
        import re
        self.starts = [m.start() for m in re.finditer(rb'<(?:node|way|relation|changeset)[ >]', data)]
        self.closes = [m.end() for m in re.finditer(rb'(?:/>|</node>|</way>|</relation>|</changeset>)', data)]

    def region(self, k):
        if k == 0:
            return 'empty', 0
        if k >= self.root_end and self.data[self.root_end:k].strip() == b'':
            return 'complete', 0
        if k > self.data.rindex(b'</osm'):
            return 'root-end-tag', 0
        return 'mid-document', 0

    def valid(self, k):
        return self.nobj if self.region(k)[0] == 'complete' else None

    def complete_objects(self, k):
        return self.nobj      # upper bound only (objects may be held back in the parser's buffer)

    def framing_cuts(self):
        out = set(range(0, 16))
        out.update(range(max(self.n - 40, 0), self.n + 1))
        for p in self.starts + self.closes:
            out.update(range(max(p - 1, 0), min(p + 2, self.n) + 1))
        return out


class OplLayout:
    def __init__(self, data, nobj):
        self.n = len(data)
        self.data = data
        self.line_ends = [i + 1 for i, ch in enumerate(data) if ch == 10]
        self.simple = len(self.line_ends) == nobj and (not data or data[-1] == 10)   # one object per line, no blank lines

    def region(self, k):
        if k == 0:
            return 'empty', 0
        return ('boundary' if self.data[k - 1] == 10 else 'mid-line'), 0

    def valid(self, k):
        # every prefix is an OPL file; the exact expectation exists at line boundaries only
        if k == 0 or self.data[k - 1] == 10:
            return sum(1 for e in self.line_ends if e <= k)
        return None

    def complete_objects(self, k):
        return sum(1 for e in self.line_ends if e <= k)

    def framing_cuts(self):
        out = set(range(0, 8))
        for e in self.line_ends:
            out.update(range(max(e - 3, 0), min(e + 3, self.n) + 1))
        return out


def layout_of(f):
    fmt = f['fmt']
    if fmt == 'pbf':
        return PbfLayout(f['bytes'], f['blob_counts'])
    if fmt == 'o5m':
        return O5mLayout(f['bytes'])
    if fmt == 'xml':
        return XmlLayout(f['bytes'], len(f['ref']))
    return OplLayout(f['bytes'], len(f['ref']))


# ------------------------------------------------------------------------------------------
# harness runs
# ------------------------------------------------------------------------------------------
class Cut:
    __slots__ = ('k', 'outcome', 'nobj', 'hash', 'mon', 'objs')

    def __init__(self, k, outcome, nobj, h, mon):
        self.k, self.outcome, self.nobj, self.hash, self.mon, self.objs = k, outcome, nobj, h, mon, None


def parse_sweeps(text):
    """[(sweep line, Z, [Cut], end)]"""
    out = []
    cur = None
    for l in text.split('\n'):
        if l.startswith('SWEEP '):
            cur = [l[6:], None, [], None]
            out.append(cur)
        elif cur is None:
            continue
        elif l.startswith('Z '):
            cur[1] = int(l[2:])
        elif l.startswith('T '):
            w = l.split()
            cur[2].append(Cut(int(w[1]), w[2], int(w[3]), int(w[4]), w[5]))
        elif l.startswith('O '):
            c = cur[2][-1]
            if c.objs is None:
                c.objs = []
            c.objs.append(l[2:])
        elif l.startswith('ENDSWEEP'):
            cur[3] = l[9:].strip()
    return out


def run_sweeps(hbin, scratch, defs, plans, max_restarts=4):
    """plans: list of dicts (see `plan`).  One process; after a hang / crash the rest (the cuts behind the one that
    killed the process, then the remaining plans) runs in a new one.
    Returns list of (plan, Z, [Cut], end, [cuts that crashed the process])."""
    res = []
    todo = [(p, p['line'], [], [], None) for p in plans]      # (plan, line to run, cuts so far, crash cuts, Z)
    restarts = {}
    while todo:
        text = '\n'.join(defs + [t[1] for t in todo]) + '\n'
        pr = subprocess.run([hbin, scratch], input=text, stdout=subprocess.PIPE, stderr=subprocess.PIPE, text=True, env=c05.clean_env({}))
        got = parse_sweeps(pr.stdout)
        nxt = []
        for i, (p, line, sofar, crashes, z0) in enumerate(todo):
            if i < len(got):
                g = got[i]
                z = g[1] if z0 is None else z0
                cuts = sofar + g[2]
                if g[3] == 'ok':
                    res.append((p, z, cuts, 'ok', crashes))
                    continue
                if g[3] is not None:            # timeout (watchdog): reported by the harness with the cut
                    res.append((p, z, cuts, g[3], crashes))
                    continue
                # the process died inside this sweep: the cut behind the last reported one killed it
                planned = list(range(z + 1)) if p['cuts'] == 'all' else p['cuts']
                done = {c.k for c in cuts} | set(crashes)
                rest = [k for k in planned if k not in done]
                why = 'crash rc=%d %s' % (pr.returncode, pr.stderr[-200:].replace('\n', ' '))
                if rest:
                    crashes = crashes + [rest[0]]
                    rest = rest[1:]
                restarts[id(p)] = restarts.get(id(p), 0) + 1
                if rest and restarts[id(p)] <= max_restarts:
                    nxt.append((p, p['mk'](ranges(rest)), cuts, crashes, z))
                else:
                    res.append((p, z, cuts, why, crashes))
            elif i == len(got) and not got and i == 0:
                # died before the first sweep line was echoed
                res.append((p, z0, sofar, 'crash rc=%d %s' % (pr.returncode, pr.stderr[-200:].replace('\n', ' ')), crashes))
            else:
                nxt.append((p, line, sofar, crashes, z0))
        todo = nxt
    return res


def plan(name, f, path, cuts, comp='none', mode='inner', hdr=1, piece=7, nl=0, dump=0, wd=20000):
    def mk(cs):
        return ('sweep fmt=%s comp=%s mode=%s path=%s data=%s cuts=%s hdr=%d piece=%d nl=%d dump=%d wd=%d'
                % (f['fmt'], comp, mode, path, name, cs, hdr, piece, nl, dump, wd))
    cl = cuts if isinstance(cuts, str) else sorted(set(cuts))
    return {'name': name, 'fmt': f['fmt'], 'path': path, 'comp': comp, 'mode': mode, 'hdr': hdr, 'nl': nl, 'piece': piece,
            'cuts': cl, 'mk': mk, 'line': mk(cl if isinstance(cl, str) else ranges(cl))}


# ------------------------------------------------------------------------------------------
# the pass
# ------------------------------------------------------------------------------------------
def make_files(ctx, rng, files, hbin5, scratch):
    """the sweep's own files: name -> {'fmt','bytes','ref','blob_counts'?}"""
    out = {}
    # PBF: header blob + three data blobs: zlib (dense nodes), raw, zlib — from the blobs of pbfA / pbfB
    a = files['pbfA']['bytes']
    b = files['pbfB']['bytes']
    ba = c05.pbf_blobs(a)
    bb = c05.pbf_blobs(b)
    small = a[:ba[0][1]] + a[ba[1][0]:ba[1][1]] + b[bb[1][0]:bb[1][1]] + a[ba[2][0]:ba[2][1]]
    out['pbfT'] = {'fmt': 'pbf', 'kind': 'header+zlib+raw+zlib', 'bytes': small}
    out['pbfA'] = {'fmt': 'pbf', 'kind': files['pbfA']['kind'], 'bytes': a}
    out['pbfB'] = {'fmt': 'pbf', 'kind': files['pbfB']['kind'], 'bytes': b}
    # small XML / OPL files written by the real Writer
    ops = ['gen xmlS xml 5 %d 100 nwrc' % rng.below(1 << 30), 'gen oplS opl 8 %d 100 nwrc' % rng.below(1 << 30)]
    rc, lines, se = ctx.run_lines([hbin5, scratch], '\n'.join(ops) + '\n', env=c05.clean_env({}))
    for l in lines:
        w = l.split()
        if len(w) == 3 and w[0] == 'gen':
            out[w[1]] = {'fmt': 'xml' if w[1] == 'xmlS' else 'opl', 'kind': 'nwrc', 'bytes': bytes.fromhex(w[2])}
    if 'xmlS' not in out or 'oplS' not in out:
        ctx.violation('gen-failed', 'the real Writer failed to produce the truncation test files: rc=%d %s' % (rc, se[-300:]), {'kind': 'harness'}, found_input=False)
        return None
    for n in ('o5mD', 'o5mB', 'opl2', 'xml2'):
        out[n] = {'fmt': files[n]['fmt'], 'kind': files[n]['kind'], 'bytes': files[n]['bytes']}
    if not c05.reference_decode(ctx, hbin5, scratch, out):
        return None
    for n, f in out.items():
        if f['fmt'] == 'pbf' and 'blob_counts' not in f:
            ctx.violation('reference-decode-failed', 'per-blob reference decode of %s failed' % n, {'kind': 'harness'}, found_input=False)
            return None
    return out


def build_plans(rng, quick, tf):
    """list of plans.  quick: all cuts of the small files on every path, framing regions (+ a seeded sample) of the
    larger ones; thorough: all cuts everywhere, header() on/off, several write sizes for the FIFO."""
    lay = {n: layout_of(f) for n, f in tf.items()}
    P = []

    def sample(n, cnt):
        return {rng.below(n + 1) for _ in range(cnt)}

    def cuts_for(name, everything, extra=30):
        L = lay[name]
        if everything:
            return list(range(L.n + 1))
        return sorted(L.framing_cuts() | sample(L.n, extra))

    if quick:
        # PBF: every length of the small file on all three paths; framing regions of the 13-blob / raw files
        for path in ('file', 'mem', 'pipe'):
            P.append(plan('pbfT', tf['pbfT'], path, cuts_for('pbfT', True), hdr=1))
        P.append(plan('pbfT', tf['pbfT'], 'file', cuts_for('pbfT', False, 0), hdr=0))
        P.append(plan('pbfT', tf['pbfT'], 'mem', cuts_for('pbfT', False, 0), hdr=0))
        big = rng.choice(['pbfA', 'pbfB'])
        for path in ('file', 'mem', 'pipe'):
            P.append(plan(big, tf[big], path, cuts_for(big, False), hdr=rng.choice([0, 1]), piece=rng.choice([1, 3, 7, 64])))
        # o5m
        for path in ('file', 'mem', 'pipe'):
            P.append(plan('o5mD', tf['o5mD'], path, cuts_for('o5mD', True)))
        P.append(plan('o5mD', tf['o5mD'], 'mem', cuts_for('o5mD', False, 0), hdr=0))
        P.append(plan('o5mB', tf['o5mB'], rng.choice(['file', 'mem']), cuts_for('o5mB', False)))
        # XML
        P.append(plan('xmlS', tf['xmlS'], 'mem', cuts_for('xmlS', True)))
        P.append(plan('xmlS', tf['xmlS'], 'file', cuts_for('xmlS', False, 60)))
        P.append(plan('xmlS', tf['xmlS'], 'pipe', cuts_for('xmlS', False, 10), piece=rng.choice([7, 64])))
        P.append(plan('xmlS', tf['xmlS'], 'mem', cuts_for('xmlS', False, 0), hdr=0))
        # OPL (law read(p) == read(p + LF): both runs with the objects dumped)
        for nl in (0, 1):
            P.append(plan('oplS', tf['oplS'], 'mem', cuts_for('oplS', True), nl=nl, dump=1))
            P.append(plan('oplS', tf['oplS'], 'file', cuts_for('oplS', False, 40), nl=nl, dump=1))
        P.append(plan('oplS', tf['oplS'], 'pipe', cuts_for('oplS', False, 10), dump=1))
        # compressed: a complete gzip / bzip2 stream of the cut content, and the compressed file itself cut
        for name in ('pbfT', 'o5mD', 'xmlS', 'oplS'):
            c1, c2 = ('gz', 'bz2') if rng.chance(1, 2) else ('bz2', 'gz')
            # (a PBF FILE is always read directly through the fd, whatever its name says: compressed PBF exists for memory buffers only)
            pf = 'mem' if name == 'pbfT' else 'file'
            P.append(plan(name, tf[name], pf, cuts_for(name, False, 10), comp=c1, mode='inner', dump=1 if name == 'oplS' else 0))
            P.append(plan(name, tf[name], 'mem', cuts_for(name, False, 10), comp=c2, mode='inner', dump=1 if name == 'oplS' else 0))
            P.append(plan(name, tf[name], 'mem' if name == 'pbfT' else rng.choice(['file', 'mem']), 'all', comp=c1, mode='outer'))
    else:
        for name in ('pbfT', 'pbfA', 'pbfB', 'o5mD', 'o5mB', 'xmlS', 'xml2', 'oplS', 'opl2'):
            f = tf[name]
            dump = 1 if f['fmt'] == 'opl' else 0
            for path in ('file', 'mem', 'pipe'):
                pieces = [7] if path != 'pipe' else [1, 7, 4096]
                for piece in pieces:
                    for hdr in (1, 0):
                        if name in ('xml2', 'opl2', 'pbfA', 'pbfB') and (hdr == 0 or piece != 7):
                            continue
                        P.append(plan(name, f, path, cuts_for(name, True), hdr=hdr, piece=piece, dump=dump))
                        if f['fmt'] == 'opl':
                            P.append(plan(name, f, path, cuts_for(name, True), hdr=hdr, piece=piece, nl=1, dump=1))
            if name in ('xml2', 'opl2', 'pbfB'):
                continue
            for comp in ('gz', 'bz2'):
                for path in ('file', 'mem'):
                    if f['fmt'] == 'pbf' and path == 'file':
                        continue      # a PBF FILE is always read directly through the fd: compressed PBF exists for memory buffers only
                    P.append(plan(name, f, path, cuts_for(name, True), comp=comp, mode='inner', dump=dump))
                    P.append(plan(name, f, path, 'all', comp=comp, mode='outer'))
    return P, lay


def outcome_class(o):
    if o == 'ok':
        return 'ok'
    if o == 'hang':
        return 'hang'
    return 'raised-' + o.split(':')[0]


def truncation_pass(ctx, rng, quick, files, hbin5, scratch, model_exe):
    """returns the number of cuts explored"""
    ht, err = vlib.build_cpp('c07t', ['c07t.cpp'], flags=['-DOSMIUM_VERIF_INPUT_BUFFER_SIZE=64'])
    if ht is None:
        ctx.violation('harness-build', 'truncation harness does not compile against the current tree: ' + err[-600:],
                      {'kind': 'harness-build', 'stderr': err}, found_input=False)
        return 0
    tf = make_files(ctx, rng, files, hbin5, scratch)
    if tf is None:
        return 0
    plans, lay = build_plans(rng, quick, tf)
    defs = ['def %s %s' % (n, c05.hx(f['bytes'])) for n, f in tf.items()]
    prefixes = {n: fnv_prefixes(f['ref']) for n, f in tf.items()}
    results = run_sweeps(ht, scratch, defs, plans)
    ncuts = 0

    def report(key, what, p, k, extra=None, found_input=True):
        f = tf[p['name']]
        rep = {'kind': 'counterexample' if found_input else 'broken-correspondence', 'file': p['name'], 'format': f['fmt'], 'compression': p['comp'],
               'mode': p['mode'], 'path': p['path'], 'cut': k, 'file_hex': c05.hx(f['bytes']),
               'prefix_hex': c05.hx(f['bytes'][:k]) if p['mode'] == 'inner' and k is not None else '',
               'replay': 'feed `def %s <file_hex>` and `%s` (with cuts=%s) to the c07t harness (harness/c07t.cpp)'
                         % (p['name'], p['line'].split(' cuts=')[0], k)}
        rep.update(extra or {})
        ctx.violation(key, what, rep, found_input=found_input)

    opl_runs = {}      # (name, path, comp, mode, hdr, piece) -> {nl: {k: Cut}}
    pbf_impl = {}      # (name, path) -> {k: (class, nobj)} for the model comparison
    for p, z, cuts, end, crashes in results:
        name, fmt, path, comp, mode = p['name'], p['fmt'], p['path'], p['comp'], p['mode']
        f = tf[name]
        L = lay[name]
        tag = fmt + ('' if comp == 'none' else '.' + comp + ('' if mode == 'inner' else '-cutfile'))
        for k in crashes[:1]:
            ctx.count('trunc:%s:%s:%s:crash' % (tag, path, L.region(k)[0] if mode == 'inner' else 'mid-stream'))
            report('reader-crash:truncated-input:%s' % fmt,
                   'reading %s input %s (%d bytes) cut at byte %d killed the process (no exception from header()/read()/close(), a crash) (path=%s comp=%s mode=%s; %d cuts of this sweep did so)'
                   % (tag, name, L.n, k, path, comp, mode, len(crashes)), p, k)
        if end != 'ok':
            last = cuts[-1] if cuts else None
            if end == 'timeout' or (last is not None and last.outcome == 'hang'):
                report('pipeline-stuck:truncated-input:%s:%s' % (tag, path),
                       'reading %s cut at byte %s through path=%s did not finish within the watchdog time (`%s`)' % (name, last.k if last else '?', path, p['line'][:200]),
                       p, last.k if last else None)
            elif not crashes:
                report('harness-abort:truncated-input:%s:%s' % (tag, path), 'truncation sweep `%s` ended with %s' % (p['line'][:200], end), p,
                       last.k if last else None, found_input=False)
        for c in cuts:
            if c.outcome == 'hang':
                continue
            ncuts += 1
            k = c.k
            cls = outcome_class(c.outcome)
            ctx.note_case('trunc %s %s %s %s hdr=%d nl=%d %d' % (name, path, comp, mode, p['hdr'], p['nl'], k))
            if c.mon != '-':
                for m in c.mon.split(','):
                    report('monitor:%s:%s:truncated' % ({'threads': 'threads-joined', 'fds': 'fds-closed'}.get(m, 'no-' + m), fmt),
                           'monitor `%s` failed reading %s cut at byte %d (path=%s comp=%s mode=%s): %s' % (m, name, k, path, comp, mode, c.outcome), p, k)
            if mode == 'outer':
                # the compressed file itself ends early: only the complete file (or an empty file, where no bytes is a valid file) may be accepted
                region = 'complete' if k == z else ('empty' if k == 0 else 'mid-stream')
                ctx.count('trunc:%s:%s:%s:%s' % (tag, path, region, cls))
                if cls == 'ok':
                    if k == z:
                        if c.nobj != len(f['ref']) or c.hash != prefixes[name][-1]:
                            report('truncation-wrong-objects:%s' % tag, 'complete %s file %s read through path=%s delivered %d of %d objects' % (tag, name, path, c.nobj, len(f['ref'])), p, k)
                    elif not (k == 0 and fmt == 'opl' and c.nobj == 0):
                        report('truncation-accepted:%s:compressed-stream' % tag,
                               '%s file %s (%d bytes) cut at byte %d was read without any exception from header()/read()/close(): %d objects delivered, then a regular end of data (path=%s)'
                               % (tag, name, z, k, c.nobj, path), p, k)
                continue
            region, _ = L.region(k)
            ctx.count('trunc:%s:%s:%s:%s' % (tag, path, region, cls))
            if fmt == 'pbf' and comp == 'none' and p['nl'] == 0:
                pbf_impl.setdefault((name, path, p['hdr'], p['piece']), {})[k] = (c.outcome, c.nobj)
            if fmt == 'opl':
                opl_runs.setdefault((name, path, comp, mode, p['hdr'], p['piece']), {}).setdefault(p['nl'], {})[k] = c
                if p['nl'] == 1:
                    continue           # judged together with the nl=0 run below
            want = L.valid(k)
            if cls == 'ok':
                if want is None and fmt != 'opl':
                    report('truncation-accepted:%s:%s' % (fmt, region),
                           '%s input %s (%d bytes) cut at byte %d (%s) was read without any exception from header()/read()/close(): the Reader delivered %d objects and then a '
                           'regular end of data; the prefix is not a valid file (path=%s%s, header() %scalled)'
                           % (tag, name, L.n, k, region, c.nobj, path, '' if comp == 'none' else ', complete %s stream of the cut content' % comp, '' if p['hdr'] else 'not '), p, k)
                elif want is not None and fmt == 'opl' and not L.simple:
                    pass
                elif want is not None and (c.nobj != want or c.hash != prefixes[name][want]):
                    report('truncation-wrong-objects:%s' % fmt,
                           '%s input %s cut at byte %d (a valid shorter file with %d objects) delivered %d objects / other objects (path=%s comp=%s)' % (fmt, name, k, want, c.nobj, path, comp), p, k)
                elif want is not None and region == 'boundary' and fmt == 'o5m' and k < L.n:
                    ctx.count('trunc:o5m:boundary-no-end-marker-accepted')
            else:
                if cls == 'raised-ctor':
                    ctx.count('trunc:raised-by-constructor:%s' % tag)
                # nothing invented before the error: the delivered objects are a prefix of the complete records
                if fmt != 'opl' and (c.nobj > L.complete_objects(k) or c.nobj >= len(prefixes[name]) or c.hash != prefixes[name][c.nobj]):
                    report('wrong-prefix:%s:truncated' % fmt, '%s input %s cut at byte %d: %d objects delivered before the error, not a prefix of the objects of the %d complete records (path=%s)'
                           % (fmt, name, k, c.nobj, L.complete_objects(k), path), p, k)
                if want is not None and fmt != 'opl':
                    report('valid-prefix-rejected:%s:%s' % (fmt, region),
                           '%s input %s cut at byte %d is a valid shorter file (%d objects) according to the format oracle but the Reader raised %s (path=%s comp=%s)'
                           % (fmt, name, k, want, c.outcome, path, comp), p, k, found_input=False)
    # OPL: law read(p) == read(p + LF); the objects of the complete lines come first
    for key, runs in opl_runs.items():
        name, path, comp, mode, hdr, piece = key
        f = tf[name]
        L = lay[name]
        p0 = {'name': name, 'fmt': 'opl', 'path': path, 'comp': comp, 'mode': mode, 'hdr': hdr, 'nl': 0, 'piece': piece,
              'line': 'sweep fmt=opl comp=%s mode=%s path=%s data=%s cuts=K hdr=%d piece=%d nl=0 dump=1' % (comp, mode, path, name, hdr, piece)}
        for k, c in sorted(runs.get(0, {}).items()):
            m = L.complete_objects(k)
            objs = c.objs or []
            if L.simple:
                if c.outcome == 'ok':
                    bad = objs[:m] != f['ref'][:m] or len(objs) not in (m, m + 1) or (L.valid(k) is not None and len(objs) != m)
                else:
                    bad = objs != f['ref'][:len(objs)] or len(objs) > m
                if bad:
                    report('truncation-wrong-objects:opl', 'OPL input %s cut at byte %d (%d complete lines): outcome %s with %d objects that are not the objects of the complete lines (+ at most the '
                           'unterminated last line) (path=%s comp=%s)' % (name, k, m, c.outcome, len(objs), path, comp), p0, k, {'got': objs[:20]})
            c1 = runs.get(1, {}).get(k)
            if c1 is not None and (outcome_class(c.outcome) != outcome_class(c1.outcome) or (c.objs or []) != (c1.objs or [])):
                report('truncation-accepted:opl:unterminated-last-line',
                       'OPL input %s cut at byte %d: reading the prefix gives %s with %d objects, reading the same prefix with a final line feed gives %s with %d objects — an unterminated last line '
                       'is a line, the two must agree (path=%s comp=%s)' % (name, k, c.outcome, len(objs), c1.outcome, len(c1.objs or []), path, comp), p0, k,
                       {'without_lf': objs[-2:], 'with_lf': (c1.objs or [])[-2:]})
    # PBF: the framing model on the same cuts
    if model_exe and pbf_impl:
        compare_model(ctx, tf, lay, pbf_impl, model_exe, report)
    return ncuts


def compare_model(ctx, tf, lay, pbf_impl, model_exe, report):
    ops = []
    keys = []
    for (name, path, hdr, piece), cuts in sorted(pbf_impl.items()):
        ks = sorted(cuts)
        ops.append('trunc 1 %d %s %s' % (piece if path == 'pipe' else 0, c05.hx(tf[name]['bytes']), ranges(ks)))
        keys.append((name, path, hdr, piece))
    rc, lines, se = ctx.run_lines([model_exe], '\n'.join(ops) + '\n')
    if rc != 0 or len(lines) != len(ops):
        ctx.violation('model-run-failed', 'model_c07 trunc failed: rc=%d %s' % (rc, se[-300:]), {'kind': 'check-error'}, found_input=False)
        return
    nd = 0
    total = 0
    for (name, path, hdr, piece), l in zip(keys, lines):
        L = lay[name]
        impl = pbf_impl[(name, path, hdr, piece)]
        p = {'name': name, 'fmt': 'pbf', 'path': path, 'comp': 'none', 'mode': 'inner', 'hdr': hdr, 'nl': 0, 'piece': piece,
             'line': 'sweep fmt=pbf comp=none mode=inner path=%s data=%s cuts=K hdr=%d piece=%d' % (path, name, hdr, piece)}
        for tok in l.split()[1:]:
            ks, q, fd = tok.split(':')
            k = int(ks)
            m = fd if path in ('file', 'pipe') else q          # direct-fd reader for file/FIFO, input-queue reader for the memory buffer
            if k not in impl:
                continue
            total += 1
            out, nobj = impl[k]
            if out == 'ok':
                got = 'ok'
            elif out.split(':')[0] in ('header', 'ctor') or (hdr == 0 and nobj == 0 and m == 'eh'):
                got = 'eh'
            else:
                got = 'ed'
            if m.startswith('ok'):
                want, wn = 'ok', sum(L.counts[:int(m[2:])])
            elif m == 'eh':
                want, wn = 'eh', 0
            else:
                want, wn = 'ed', sum(L.counts[:int(m[2:])])
            ctx.count('trunc-model:%s:%s' % (path, m.rstrip('0123456789')))
            if (got, nobj) != (want, wn):
                nd += 1
                region, _ = L.region(k)
                # a cut the property monitor has flagged already is that violation; otherwise the correspondence is broken
                if not any(v.key.startswith('truncation-accepted:pbf') for v in ctx.violations) or got != 'ok':
                    report('model-disagrees:pbf-framing:%s:%s' % (path, region),
                           'PBF file %s cut at byte %d (%s), path=%s: the real parser gives %s with %d objects, the framing model (%s reader) gives %s = %s with %d objects'
                           % (name, k, region, path, out, nobj, 'direct-fd' if path != 'mem' else 'input-queue', m, want, wn), p, k, found_input=False)
    st = ctx.streams.setdefault('pbf-truncation-framing', {'lines': 0, 'disagreements': 0})
    st['lines'] += total
    st['disagreements'] += nd
