"""C12 — histories with PHASES (round 4: seeds C12-7 / C12-8).

The property quantifies over insertion histories x map types x dump/reload combinations and over node streams in
any arrival order.  A history is not "all insertions, one sort, lookups": an index is filled, sorted and read,
filled again (ids below / between / above the earlier ones), sorted and read again; a file-based index is closed
and opened again (its own file, a dump_as_list / dump_as_array of another index) and then filled FURTHER; a
NodeLocationsForWays handler gets nodes, ways, more nodes, more ways.  This module generates those histories:

  map lines (`m <impl> ...`, the tokens of harness/c12.cpp / Driver/C12.lean: s S g DL DA R)
     * EXHAUSTIVE: every order pattern (permutation of ranks) of k insertions x every way of cutting it into
       phases, where a cut is one of: sort+lookups | reopen the own file | sort+reopen | dump_as_list (sorted or
       not) -> sparse_file_array | dump_as_array -> dense_file_array; x id alphabets (spaced, 0-based consecutive,
       2^16 block edges, 2^20 growth edges, huge) x every map type the cuts apply to;
     * random longer ones: 2..5 phases of 1..40 ids, the later phases of every order class relative to the earlier
       ones (below / between / above / mixed; ascending / descending / shuffled), several reload generations.
  handler lines (`w <pos> <neg> <ign> ...`): node* way node* way ...
     * EXHAUSTIVE: every |id| order pattern of k nodes x every sign assignment x every placement of ways between
       them, over every storage (sparse AND dense, mem / mmap / file / named file, flex_mem);
     * random longer ones: 2..5 node batches of every order class relative to the earlier ones.

Monitor = an independent Python dict (the mathematical map): after a sort step every lookup returns the latest
inserted value, never-inserted ids are not found, way refs get the node's location; plus equality with the Lean
model through the driver.  Lines with dump_as_array run in a second pass (skipped once the first pass found a
violation): on an unsorted sparse vector the real dump loop does not terminate.
"""
import itertools
import time

import vlib
from props import c12 as B

UNDEF = B.UNDEF

# rank -> id (distinct, ascending); probes = the alphabet + neighbours
ALPHABETS = {
    'spaced': [10, 20, 30, 40, 50, 60],
    'zero-consecutive': [0, 1, 2, 3, 4, 5],
    'block-edges': [65535, 65536, 65537, 131072, 196609, 262143],
    'growth-edges': [1048575, 1048576, 1048577, 1310720, 2097152, 2621440],
    'huge': [(1 << 32) - 1, 1 << 32, (1 << 40) + 7, 1 << 50, 1 << 62, (1 << 63) - 1],
}
DENSE_OK = ('spaced', 'zero-consecutive', 'block-edges', 'growth-edges')

SPARSE_KINDS = ('sparse_mem_array', 'sparse_mmap_array', 'sparse_file_array', 'sparse_mem_map')
SORT_KINDS = ('sparse_mem_array', 'sparse_mmap_array', 'sparse_file_array', 'flex_mem')   # lookups need sort()
CHEAP = ('sparse_mem_array', 'sparse_mem_map', 'flex_mem', 'dense_mem_array')


def kind_of(impl):
    return impl.split('@')[0].replace(':f', '')


class PLine:
    """one `m` op line built from steps, with the dict oracle's expectation for every output token"""

    def __init__(self, impl, alphabet, pattern):
        self.impl = impl
        self.cur = kind_of(impl)          # class the map object has NOW (changes with DL / DA)
        self.named = impl.endswith(':f')  # is there a named file that can be reopened
        self.alphabet = alphabet
        self.pattern = pattern
        self.toks = []
        self.expect = []                  # (want | None, what)
        self.d = {}
        self.sorted = True
        self.gens = 0
        self.has_da = False
        self.phases = [[]]                # ids per set phase (for the classification)

    # ---- steps ----
    def set(self, i, l):
        self.toks.append('s%d:%d:%d' % (i, l[0], l[1]))
        self.d[i] = l
        self.phases[-1].append(i)
        if self.cur in SORT_KINDS:
            self.sorted = False

    def _cut(self):
        if self.phases[-1]:
            self.phases.append([])

    def sort(self):
        self.toks.append('S')
        self.sorted = True
        self._cut()

    def probe(self, i):
        self.toks.append('g%d' % i)
        l = self.d.get(i)
        self.expect.append((('nf' if l is None else B.tok_loc(l)) if self.sorted else None, 'g%d' % i))

    def probe_all(self, ids):
        for i in ids:
            self.probe(i)

    def reopen(self):
        assert self.named
        self.toks.append('R')
        self.expect.append(('r', 'R'))
        self.gens += 1
        self._cut()

    def dump_list(self):
        self.toks.append('DL')
        self._cut()
        if self.cur in SPARSE_KINDS:
            if self.sorted:
                h = B.H0
                for k in sorted(self.d):
                    h = B.hstep(B.hstep(h, k), B.loc_word(*self.d[k]))
                self.expect.append(('dl%d:%d' % (len(self.d), h), 'DL'))
            else:
                self.expect.append(('dl%d:*' % len(self.d), 'DL'))    # records in insertion order: size only
            self.cur = 'sparse_file_array'
            self.named = True
            self.gens += 1
        else:
            self.expect.append(('dlerr', 'DL'))

    def dump_array(self):
        assert self.sorted
        self.toks.append('DA')
        self._cut()
        self.has_da = True
        if self.cur.startswith('dense_') or self.cur in ('sparse_mem_array', 'sparse_mmap_array', 'sparse_file_array'):
            n = (max(self.d) + 1) if self.d else 0
            if n <= 300000:
                ew = B.loc_word(UNDEF, UNDEF)
                h = B.H0
                for i in range(n):
                    l = self.d.get(i)
                    h = ((h ^ (ew if l is None else B.loc_word(*l))) * B.FNV) & B.M64
                self.expect.append(('da%d:%d' % (n, h), 'DA'))
            else:
                self.expect.append(('da%d:*' % n, 'DA'))
            self.cur = 'dense_file_array'
            self.named = True
            self.gens += 1
        else:
            self.expect.append(('daerr', 'DA'))

    # ---- text / classification ----
    def text(self):
        return 'm %s %s' % (self.impl, ' '.join(self.toks))

    def klass(self):
        """relation of the later set phases to everything inserted before them + their internal order"""
        ph = [p for p in self.phases if p]
        if len(ph) <= 1:
            return 'one-phase'
        seen = list(ph[0])
        cl = set()
        for p in ph[1:]:
            lo, hi = min(seen), max(seen)
            if all(i > hi for i in p):
                rel = 'above'
            elif all(i < lo for i in p):
                rel = 'below'
            elif all(lo < i < hi for i in p):
                rel = 'between'
            else:
                rel = 'mixed'
            if len(p) == 1:
                order = 'single'
            elif p == sorted(p):
                order = 'asc'
            elif p == sorted(p, reverse=True):
                order = 'desc'
            else:
                order = 'shuffled'
            cl.add(rel + ':' + order)
            seen += p
        return cl.pop() if len(cl) == 1 else 'several'


def phase_loc(rng, i, n):
    """a non-empty value; a few boundary values among them (half-defined ones are ordinary values for a map)"""
    c = rng.below(12)
    if c == 0:
        return rng.choice([(0, 0), (UNDEF, 5), (-5, UNDEF), (-2147483648, -2147483648), (UNDEF - 1, UNDEF - 1), (1, -1)])
    return ((i * 7919 + n * 31 + rng.below(1000)) % 3600000001 - 1800000000, (i + n * 977 + rng.below(1000)) % 1800000001 - 900000000)


# cut actions between two insertions (and at the end): letters S sort+lookups, R reopen, L dump_as_list, A dump_as_array
def cut_actions(cur, named, srt, final, allow_da):
    """applicable actions in the state (kind, named file?, sorted?) -> list of (action, cur', named', sorted')"""
    needs = cur in SORT_KINDS
    acts = []
    if not final:
        acts.append(('', cur, named, srt))
    acts.append(('S', cur, named, True))
    if named:
        acts.append(('SR', cur, named, True))
        acts.append(('RS' if final else 'R', cur, named, True if final else srt))
    if cur in SPARSE_KINDS:
        acts.append(('SL', 'sparse_file_array', True, True))
        if needs:
            acts.append(('LS' if final else 'L', 'sparse_file_array', True, True if final else srt))
    if allow_da and (cur.startswith('dense_') or cur in ('sparse_mem_array', 'sparse_mmap_array', 'sparse_file_array')):
        acts.append(('SA', 'dense_file_array', True, True))
    return acts


def is_reload(a):
    return 'R' in a or 'L' in a or 'A' in a


def action_seqs(impl, k, allow_da, reload_only, max_reloads):
    """all sequences of k cut actions (k-1 internal + the final one) applicable from `impl` with at most
    `max_reloads` reopen / dump steps"""
    out = []

    def rec(j, cur, named, srt, acc, nrel):
        final = j == k - 1
        for a, c2, n2, s2 in cut_actions(cur, named, srt, final, allow_da):
            nr = nrel + (1 if is_reload(a) else 0)
            if nr > max_reloads:
                continue
            if j == k - 1:
                if not reload_only or nr > 0:
                    out.append(acc + [a])
            else:
                rec(j + 1, c2, n2, s2, acc + [a], nr)
    rec(0, kind_of(impl), impl.endswith(':f'), True, [], 0)
    return out


def apply_action(ln, a, probes):
    for ch in a:
        if ch == 'S':
            ln.sort()
            ln.probe_all(probes)
        elif ch == 'R':
            ln.reopen()
            ln.probe_all(probes)
        elif ch == 'L':
            ln.dump_list()
            ln.probe_all(probes)
        elif ch == 'A':
            ln.dump_array()
            ln.probe_all(probes)


def probes_of(ids):
    ps = []
    for i in ids:
        for j in (i - 1, i, i + 1):
            if 0 <= j < (1 << 63) and j not in ps:
                ps.append(j)
    return ps


def exhaustive_map_lines(ctx, rng, flexq, quick):
    lines = []
    plans = []   # (impl, alphabet name, kmax, reload_only)
    # in-memory types: every pattern x every placement of sort steps
    for impl in ('sparse_mem_array', flexq, 'sparse_mem_map', 'dense_mem_array'):
        for an in ALPHABETS:
            if impl.startswith('dense') and an not in DENSE_OK:
                continue
            kmax = (4 if an in ('spaced', 'zero-consecutive') else 3) if quick else 5
            if quick and impl == 'sparse_mem_array' and an == 'spaced':
                kmax = 5
            plans.append((impl, an, kmax, False, False))
    # mmap / file backed types and every type that can be dumped: every pattern x every placement of sort / reopen / dump
    for impl in ('sparse_file_array:f', 'sparse_mmap_array', 'sparse_file_array', 'sparse_mem_array', 'sparse_mem_map',
                 'dense_file_array:f', 'dense_mmap_array', 'dense_file_array', 'dense_mem_array'):
        cheap = kind_of(impl) in CHEAP
        for an in (('spaced', 'zero-consecutive', 'huge') if impl.startswith('sparse') else ('spaced', 'growth-edges')):
            if quick:
                kmax = 3 if (an == 'spaced' and impl.startswith('sparse')) else 2
            else:
                kmax = 4 if (an == 'spaced' and impl in ('sparse_file_array:f', 'sparse_mem_array')) else 3
            plans.append((impl, an, kmax, True, cheap))
    for impl, an, kmax, with_files, reload_only in plans:
        alpha = ALPHABETS[an]
        allow_da = with_files and an in ('spaced', 'zero-consecutive')
        n0 = len(lines)
        for k in range(1, kmax + 1):
            ids = alpha[:k]
            probes = probes_of(ids)
            # every placement of reloads for k <= 2 (several reload generations), exactly/at most one (thorough: two)
            # reload anywhere in the longer ones
            seqs = action_seqs(impl, k, allow_da, reload_only, 9 if k <= 2 else (1 if (quick or k >= 4) else 2)) if with_files else \
                [list(s) + ['S'] for s in itertools.product(['', 'S'], repeat=k - 1)]
            for perm in itertools.permutations(range(k)):
                for seq in seqs:
                    ln = PLine(impl, an, perm)
                    for j, r in enumerate(perm):
                        ln.set(ids[r], phase_loc(rng, ids[r], j))
                        apply_action(ln, seq[j], probes)
                    lines.append(ln)
        ctx.count('phases-exhaustive:%s|%s|k<=%d%s' % (impl.split('@')[0], an, kmax, '|with-reloads' if with_files else ''), len(lines) - n0)
    return lines


def random_map_lines(ctx, rng, flexq, n):
    """longer histories: 2..5 phases, later phases of every order class relative to the earlier ones"""
    lines = []
    impls_all = ['sparse_mem_array', 'sparse_mmap_array', 'sparse_file_array', 'sparse_file_array:f', 'sparse_mem_map', flexq,
                 'dense_mem_array', 'dense_mmap_array', 'dense_file_array', 'dense_file_array:f']
    for hno in range(n):
        big = rng.chance(1, 4)
        nph = 2 + rng.below(4)
        span = (1 << rng.choice([33, 44, 62])) if big else rng.choice([400, 6000, 200000, 2500000])
        used = set()
        phases = []
        lo = hi = None
        for p in range(nph):
            cnt = rng.choice([1, 1, 2, 3, 5, 12, 40])
            rel = 'first' if p == 0 else rng.choice(['below', 'between', 'above', 'mixed'])
            ids = []
            tries = 0
            while len(ids) < cnt and tries < 50 * cnt:
                tries += 1
                if rel == 'first':
                    i = span // 4 + rng.below(span // 2)
                elif rel == 'below':
                    i = rng.below(max(lo, 1))
                elif rel == 'above':
                    i = hi + 1 + rng.below(span // 8 + 5)
                elif rel == 'between':
                    i = lo + rng.below(max(hi - lo, 1))
                else:
                    i = rng.below(hi + span // 8 + 5)
                if i not in used:
                    used.add(i)
                    ids.append(i)
            if not ids:
                continue
            order = rng.choice(['asc', 'desc', 'shuffled'])
            if order == 'asc':
                ids.sort()
            elif order == 'desc':
                ids.sort(reverse=True)
            phases.append(ids)
            lo = min(used)
            hi = max(used)
        top = max(used)
        impls = [x for x in impls_all if not (x.startswith('dense') and top > B.DENSE_LIMIT)]
        pick = [impls[(hno + j * 3) % len(impls)] for j in range(3)] + ['sparse_file_array:f']
        vals = {i: phase_loc(rng, i, hno) for i in used}
        for impl in dict.fromkeys(pick):
            ln = PLine(impl, 'random', None)
            cur, named, srt = kind_of(impl), impl.endswith(':f'), True
            inserted = []
            for pno, ids in enumerate(phases):
                for i in ids:
                    ln.set(i, vals[i])
                inserted += ids
                final = pno == len(phases) - 1
                acts = [a for a in cut_actions(ln.cur, ln.named, ln.sorted, final, top <= 60000) if a[0] != '']
                a = rng.choice(acts)[0]
                pool = inserted if len(inserted) <= 60 else [rng.choice(inserted) for _ in range(60)]
                probes = probes_of(pool[:25]) + [i for i in pool[25:]] + [rng.below(top + 50) for _ in range(5)]
                if final:
                    probes += [i for i in inserted if i not in set(probes)]
                apply_action(ln, a, [i for i in dict.fromkeys(probes) if i < (1 << 63)])
            lines.append(ln)
    return lines


def check_map_lines(ctx, hbin, model, lns, shards, state):
    texts = [l.text() for l in lns]
    for t in texts:
        ctx.note_case(t)
    impl, e1 = B.run_sharded(ctx, [hbin, B.SCRATCH], texts, shards, timeout=600)
    if impl is None:
        ctx.violation('harness-crash:phases', 'harness failed / hung on the phase histories: %s' % e1,
                      {'kind': 'harness-crash'}, found_input=False)
        return
    for ln, out in zip(lns, impl):
        w = out.split()
        name = ln.impl.split('@')[0]
        cls = ln.klass()
        if not w or w[0] != 'ok' or len(w) - 1 != len(ln.expect):
            if state['reported'] < 4:
                state['reported'] += 1
                ctx.violation('phases:%s:%s:line-failed' % (name, cls),
                              '%s on a phase history (%s): harness answered `%s` (expected %d result tokens)'
                              % (ln.impl, cls, out[:300], len(ln.expect)),
                              {'kind': 'counterexample', 'op': ln.text(), 'impl': out[:3000]})
            continue
        bad = None
        gens = 0
        for k, ((want, what), got) in enumerate(zip(ln.expect, w[1:])):
            if what in ('R', 'DL', 'DA') and got not in ('dlerr', 'daerr'):
                gens = min(gens + 1, 3)
            if want is None:
                ctx.count('phases:%s|%s|gen%d|before-sort(model only)' % (name, cls, gens))
                continue
            okay = got == want or (want.endswith('*') and got.startswith(want[:-1]))
            if what[0] == 'g':
                outcome = ('found' if want != 'nf' else 'not-found') if okay else 'WRONG'
                ctx.count('phases:%s|%s|gen%d|%s' % (name, cls, gens, outcome))
            if not okay and bad is None:
                bad = (k, what, want, got, gens)
        if bad is not None:
            k, what, want, got, gens = bad
            key = 'phases:%s:%s:gen%d' % (name, cls, gens)
            if state['reported'] >= 4 or key in state['keys']:
                ctx.count('phases-further-failing-lines')
                continue
            state['reported'] += 1
            state['keys'].add(key)
            pid = int(what[1:]) if what[0] == 'g' else None
            ctx.violation(key,
                          '%s, phase history (later phases %s, %d reload generation(s) before the failing token): %s got `%s`, '
                          'the map of the pairs inserted so far says `%s` (result token #%d of `%s`)'
                          % (ln.impl, cls, gens, ('lookup of id %d after sort()' % pid) if pid is not None else 'token ' + what,
                             got[:80], want[:80], k, ln.text()[:400]),
                          {'kind': 'counterexample', 'op': ln.text(), 'impl': out[:3000], 'expected': [e[0] for e in ln.expect],
                           'failing_token': what, 'result_index': k, 'class': cls, 'reload_generations': gens,
                           'replay': 'echo "<op>" | <harness c12q> <scratch dir under /verif/.build>'})
    if model:
        mo, e2 = B.run_sharded(ctx, [model], texts, shards)
        if mo is None:
            ctx.violation('model-crash:phases', 'model driver failed: %s' % e2, {'kind': 'broken-correspondence'}, found_input=False)
        else:
            dis = ctx.diff_streams('c12-phases-model-vs-impl', texts, impl, mo)
            if dis and not ctx.violations:
                i, op, a, b = dis[0]
                ctx.violation('correspondence:phases:%s' % lns[i].impl.split('@')[0],
                              'model and implementation disagree on a phase history (%d lines, first: impl=`%s` model=`%s`) and the '
                              'property monitor saw nothing wrong' % (len(dis), a[:200], b[:200]),
                              {'kind': 'broken-correspondence', 'op': op, 'impl': a[:3000], 'model': b[:3000]}, found_input=False)


# ------------------------------------------------------------------ NodeLocationsForWays
NL_ALPHABETS = {
    'spaced': [10, 20, 30, 40, 50],
    'zero-consecutive': [0, 1, 2, 3, 4],
    'huge': [1 << 31, (1 << 32) + 1, 1 << 40, 1 << 50, (1 << 62) - 1],
}
NL_CHEAP = ('sparse_mem_array', 'flex_mem', 'sparse_mem_map', 'dense_mem_array')
NL_EXPENSIVE = ('sparse_mmap_array', 'sparse_file_array', 'sparse_file_array:f', 'dense_mmap_array', 'dense_file_array',
                'dense_file_array:f')


def batch_class(batches):
    """relation (by |id|, the order the handler's m_last_id looks at) of the later node batches to everything before"""
    bs = [[abs(i) for i in b] for b in batches if b]
    if len(bs) <= 1:
        return 'one-batch:' + ('asc' if bs and bs[0] == sorted(bs[0]) else 'unsorted')
    seen = list(bs[0])
    cl = set()
    for p in bs[1:]:
        lo, hi, last = min(seen), max(seen), seen[-1]
        if all(i > hi for i in p):
            rel = 'above'
        elif all(i < lo for i in p):
            rel = 'below'
        elif all(last < i < hi for i in p):
            rel = 'between-last-and-max'
        elif all(lo < i < hi for i in p):
            rel = 'between'
        else:
            rel = 'mixed'
        order = 'single' if len(p) == 1 else 'asc' if p == sorted(p) else 'desc' if p == sorted(p, reverse=True) else 'shuffled'
        cl.add(rel + ':' + order)
        seen += p
    first = 'asc' if bs[0] == sorted(bs[0]) else 'unsorted'
    return 'first-%s|%s' % (first, cl.pop() if len(cl) == 1 else 'several')


def nl_line(st_pos, st_neg, ign, batches, ways_after, alphabet_ids, locs):
    """nodes of batch j, then (if ways_after[j]) one way over every id of the alphabet (seen or not) + a neighbour"""
    spec = B.WaySpec(ign, st_neg == 'dummy')
    toks, expect, refsl = [], [], []
    for b, wa in zip(batches, ways_after):
        for i in b:
            toks.append('n%d:%d:%d' % (i, locs[i][0], locs[i][1]))
            spec.node(i, locs[i])
        for _ in range(wa):
            refs = list(alphabet_ids)
            toks.append('w' + ','.join(str(r) for r in refs))
            expect.append(spec.way(refs))
            refsl.append(refs)
    return dict(text='w %s %s %d %s' % (st_pos, st_neg, ign, ' '.join(toks)), expect=expect, refs=refsl,
                storage=st_pos.split('@')[0] + ('+dummy' if st_neg == 'dummy' else ''), klass=batch_class(batches))


def exhaustive_nlfw_lines(ctx, rng, flexq, quick):
    out = []
    plans = []
    for st in ('sparse_mem_array', flexq, 'sparse_mem_map', 'dense_mem_array'):
        for an in NL_ALPHABETS:
            if st.startswith('dense') and an == 'huge':
                continue
            kmax = (4 if (an == 'spaced' and st in ('sparse_mem_array', flexq)) else 3) if quick else (5 if an == 'spaced' else 4)
            plans.append((st, an, kmax, True))
    for st in NL_EXPENSIVE:
        for an in (('spaced', 'huge') if st.startswith('sparse') else ('spaced',)):
            plans.append((st, an, 3 if (quick and an == 'spaced') else (2 if quick else 4 if st.startswith('sparse') else 3), False))
    for st, an, kmax, all_signs in plans:
        alpha = NL_ALPHABETS[an]
        n0 = len(out)
        for k in range(1, kmax + 1):
            mags = alpha[:k]
            masks = range(1 << k) if all_signs else sorted({0, (1 << k) - 1, 0b0101 & ((1 << k) - 1), 0b1010 & ((1 << k) - 1)})
            for perm in itertools.permutations(range(k)):
                for cuts in itertools.product([0, 1], repeat=k - 1):
                    for mask in masks:
                        if 0 in mags and (mask >> mags.index(0)) & 1:
                            continue       # -0 is 0
                        ids = [(-mags[r] if (mask >> r) & 1 else mags[r]) for r in perm]
                        batches, cur = [], []
                        for j, i in enumerate(ids):
                            cur.append(i)
                            if j == k - 1 or cuts[j]:
                                batches.append(cur)
                                cur = []
                        allids = [(-m if (mask >> r) & 1 else m) for r, m in enumerate(mags)]
                        refs = allids + [allids[-1] + 1, -allids[0] if allids[0] else -7]
                        locs = {i: B.valid_loc(rng) for i in ids}
                        ign = (mask + len(batches)) & 1
                        neg = 'dummy' if (mask == 0 and not all_signs) else st
                        out.append(nl_line(st, neg, ign, batches, [1] * len(batches), refs, locs))
        ctx.count('nlfw-phases-exhaustive:%s|%s|k<=%d|%s' % (st.split('@')[0], an, kmax, 'all-signs' if all_signs else 'sign-masks'),
                  len(out) - n0)
    return out


def random_nlfw_lines(ctx, rng, flexq, n):
    out = []
    storages = list(NL_CHEAP[:1]) + [flexq] + list(NL_CHEAP[2:]) + list(NL_EXPENSIVE)
    for sno in range(n):
        big = rng.chance(1, 4)
        span = (1 << 40) if big else rng.choice([300, 5000, 400000])
        negs = rng.choice([0, 1, 1, 2])
        nb = 2 + rng.below(4)
        used = set()
        batches = []
        seen_mag = []
        for b in range(nb):
            cnt = rng.choice([1, 1, 2, 3, 6, 15, 30])
            rel = 'first' if b == 0 else rng.choice(['below', 'between-last-and-max', 'between', 'above', 'mixed'])
            lo = min(seen_mag) if seen_mag else 0
            hi = max(seen_mag) if seen_mag else 0
            last = seen_mag[-1] if seen_mag else 0
            mags = []
            tries = 0
            while len(mags) < cnt and tries < 50 * cnt:
                tries += 1
                if rel == 'first':
                    m = span // 4 + rng.below(span // 2)
                elif rel == 'below':
                    m = rng.below(max(lo, 1))
                elif rel == 'above':
                    m = hi + 1 + rng.below(span // 8 + 5)
                elif rel == 'between':
                    m = lo + rng.below(max(hi - lo, 1))
                elif rel == 'between-last-and-max':
                    m = last + 1 + rng.below(max(hi - last - 1, 1))
                else:
                    m = rng.below(hi + span // 8 + 5)
                if m not in used:
                    used.add(m)
                    mags.append(m)
            if not mags:
                continue
            order = rng.choice(['asc', 'asc', 'desc', 'shuffled'])
            if order == 'asc':
                mags.sort()
            elif order == 'desc':
                mags.sort(reverse=True)
            seen_mag += mags
            batches.append([(-m if (m and (negs == 2 or (negs == 1 and rng.chance(1, 2)))) else m) for m in mags])
        ids = [i for b in batches for i in b]
        locs = {i: B.valid_loc(rng) for i in ids}
        ign = rng.below(2)
        sts = [s for s in storages if not (s.startswith('dense') and big)]
        pick = [sts[(sno + 3 * j) % len(sts)] for j in range(3)] + ['sparse_mem_array', flexq]
        for st in dict.fromkeys(pick):
            spec = B.WaySpec(ign, False)
            toks, expect, refsl = [], [], []
            seen = []
            for b in batches:
                for i in b:
                    toks.append('n%d:%d:%d' % (i, locs[i][0], locs[i][1]))
                    spec.node(i, locs[i])
                    seen.append(i)
                for _ in range(1 + rng.below(2)):
                    refs = [rng.choice(seen) for _ in range(rng.choice([1, 3, 6, 10]))]
                    refs += seen[-3:] + [rng.choice(ids) + rng.choice([-1, 1]), -rng.choice(ids)]
                    if len(seen) <= 40:
                        refs = list(dict.fromkeys(refs + seen))
                    toks.append('w' + ','.join(str(r) for r in refs))
                    expect.append(spec.way(refs))
                    refsl.append(refs)
            out.append(dict(text='w %s %s %d %s' % (st, st, ign, ' '.join(toks)), expect=expect, refs=refsl,
                            storage=st.split('@')[0], klass=batch_class(batches)))
    return out


def check_nlfw_lines(ctx, hbin, model, cases, shards, state):
    texts = [c['text'] for c in cases]
    for t in texts:
        ctx.note_case(t)
    impl, e1 = B.run_sharded(ctx, [hbin, B.SCRATCH], texts, shards, timeout=600)
    if impl is None:
        ctx.violation('harness-crash:nlfw-phases', 'harness failed on the node/way phase streams: %s' % e1,
                      {'kind': 'harness-crash'}, found_input=False)
        return
    for c, outl in zip(cases, impl):
        w = outl.split()
        st, cls = c['storage'], c['klass']
        if not w or w[0] != 'ok' or len(w) - 1 != len(c['expect']):
            if state['reported'] < 4:
                state['reported'] += 1
                ctx.violation('nlfw-phases:%s:line-failed' % st,
                              'NodeLocationsForWays over %s: harness answered `%s` (expected %d way results)' % (st, outl[:300], len(c['expect'])),
                              {'kind': 'counterexample', 'op': c['text'], 'impl': outl[:3000]})
            continue
        bad = None
        for k, (want, got) in enumerate(zip(c['expect'], w[1:])):
            if got == want:
                ctx.count('nlfw-phases:%s|%s|%s' % (st, cls, 'throws' if got.endswith('!') else 'all-located'))
            else:
                ctx.count('nlfw-phases:%s|%s|WRONG' % (st, cls))
                if bad is None:
                    bad = k
        if bad is None:
            continue
        key = 'nlfw-phases:%s:%s' % (st, cls)
        if state['reported'] >= 4 or key in state['keys']:
            ctx.count('nlfw-phases-further-failing-lines')
            continue
        state['reported'] += 1
        state['keys'].add(key)
        want, got = c['expect'][bad], w[1 + bad]
        detail = ''
        try:
            wr, _ = B.parse_way_tok(want)
            gr, gthrew = B.parse_way_tok(got)
            diff = [(a, b) for a, b in zip(wr, gr) if a != b]
            if diff:
                (r, wl), (_, gl) = diff[0]
                detail = ': node ref %d ended as `%s`, the node with that id that arrived before this way has `%s`' % (r, gl, wl)
            elif gthrew != want.endswith('!'):
                detail = ': not_found %s' % ('thrown although every ref has its node' if gthrew else 'not thrown')
        except ValueError:
            pass
        ctx.violation(key,
                      'NodeLocationsForWays over %s, node batches `%s` (nodes, way, more nodes, way ...): way #%d got `%s`, the nodes seen '
                      'so far say `%s`%s' % (st, cls, bad, got[:160], want[:160], detail),
                      {'kind': 'counterexample', 'op': c['text'], 'impl': outl[:3000], 'expected': c['expect'], 'way_result': bad,
                       'class': cls, 'replay': 'echo "<op>" | <harness c12q> <scratch dir under /verif/.build>'})
    if model:
        mo, e2 = B.run_sharded(ctx, [model], texts, shards)
        if mo is None:
            ctx.violation('model-crash:nlfw-phases', 'model driver failed: %s' % e2, {'kind': 'broken-correspondence'}, found_input=False)
        else:
            dis = ctx.diff_streams('c12-nlfw-phases-model-vs-impl', texts, impl, mo)
            if dis and not ctx.violations:
                i, op, a, b = dis[0]
                ctx.violation('correspondence:nlfw-phases:%s' % cases[i]['storage'],
                              'model and implementation disagree on a node/way phase stream (impl=`%s` model=`%s`) and the property '
                              'monitor saw nothing wrong' % (a[:200], b[:200]),
                              {'kind': 'broken-correspondence', 'op': op, 'impl': a[:3000], 'model': b[:3000]}, found_input=False)


# ------------------------------------------------------------------ entry
def phases_stage(ctx, hbin, model, flexq, quick, shards=12):
    """runs after the older streams (own rng fork: their random streams are unchanged)"""
    rng = vlib.SplitMix64((ctx.seed * 0x9E3779B97F4A7C15 + 0xC12) & 0xFFFFFFFFFFFFFFFF)
    tm = ctx.extra.setdefault('timing_s', {})
    t0 = time.time()
    mlines = exhaustive_map_lines(ctx, rng, flexq, quick) + random_map_lines(ctx, rng, flexq, 40 if quick else 400)
    nlines = exhaustive_nlfw_lines(ctx, rng, flexq, quick) + random_nlfw_lines(ctx, rng, flexq, 40 if quick else 400)
    tm['phases:generate+oracle'] = round(time.time() - t0, 1)
    state = {'reported': 0, 'keys': set()}
    t0 = time.time()
    first = [l for l in mlines if not l.has_da]
    second = [l for l in mlines if l.has_da]
    check_map_lines(ctx, hbin, model, first, shards, state)
    if state['reported'] == 0 and not ctx.violations:
        check_map_lines(ctx, hbin, model, second, shards, state)
    else:
        ctx.count('phases-dump_as_array-lines-skipped-after-violation', len(second))
    tm['phases:maps'] = round(time.time() - t0, 1)
    t0 = time.time()
    state = {'reported': 0, 'keys': set()}
    check_nlfw_lines(ctx, hbin, model, nlines, shards, state)
    tm['phases:nlfw'] = round(time.time() - t0, 1)
    ctx.count('phases-lines:maps', len(mlines))
    ctx.count('phases-lines:nlfw', len(nlines))
    for l in mlines[:1] + mlines[-1:]:
        ctx.sample(l.text()[:400])
    for c in nlines[:1] + nlines[-1:]:
        ctx.sample(c['text'][:400])
