"""C02, text-format part (OPL + XML): the readers decode every spec-conformant file (DESIGN.md §3 C02).

proof stage (done by the dispatcher c02.py): lean/Osmium/Props/C02Text.lean
run_part:
  the executable specification renderers of the model (OplSpec.render / XmlSpec.render, every free
  encoding choice an explicit field of the choice vector: attribute order, separators, quoting,
  entity vs character reference, optional attributes, empty sections, line endings, comment lines,
  indentation, <a/> vs <a></a>, XML declaration, change sections) produce files for random
  (choices, D); the REAL Reader and the model reader decode them; both must give exactly D
  (computed here from the generator's own representation).  Monitors on the implementation alone:
  the same D under two different choice vectors decodes identically (order / quoting / white space
  irrelevance), and the OPL and XML readers agree on the D both formats can carry.
"""
import binascii
import os

import vlib
from props import c01_text as T

MODULES = ['Osmium.Props.C02Text']
EXES = ['model_text']
RULE = ('text part: each case = (format, choice vector, object sequence D); choice vectors are drawn uniformly over every '
        'coordinate (OPL: attribute permutation, separators, omission of defaults, 3 escape styles, coordinate padding, '
        'LF/CR/CRLF, comment/empty lines, missing final newline; XML: attribute permutation, quote style, 4 escape styles, '
        '3 white-space styles, <a/> vs <a></a>, optional attributes, 3 declaration styles, spaces around =, visible attribute, '
        'child order, change sections); distinct = distinct op lines, non-trivial = at least one object')


def nl(rng, n, m):
    return '.'.join(str(rng.below(m)) for _ in range(n)) or '-'


def opl_choices(rng):
    return ('order=%s,seps=%s,omit=%d,esc=%d,pad=%d,end=%s,junk=%s,nofinal=%d'
            % (nl(rng, rng.choice([0, 3, 12]), 12), nl(rng, rng.choice([0, 4, 12]), 4), rng.below(2), rng.below(3), rng.below(2),
               nl(rng, rng.choice([0, 10]), 3), nl(rng, rng.choice([0, 10]), 4), rng.below(2)))


def xml_choices(rng, osc):
    vis = rng.below(2)
    return ('order=%s,quotes=%s,esc=%d,ws=%d,expand=%d,omit=%d,decl=%d,eqsp=%d,vis=%d,tagsfirst=%d,osc=%d'
            % (nl(rng, rng.choice([0, 3, 10]), 10), nl(rng, rng.choice([0, 10]), 2), rng.below(4), rng.below(3), rng.below(2),
               rng.below(2), rng.below(3), rng.below(2), vis, rng.below(2), osc)), vis


def spec_domain(fmt, objs):
    """restrict D to what the format's specification can carry"""
    for o in objs:
        if fmt == 'xml':
            for f in ('changeset', 'id', 'num_changes', 'num_comments'):
                if f in o and o[f] == 2 ** 32 - 1 and (o['k'] == 'c' or f == 'changeset'):
                    o[f] = 2 ** 32 - 2          # known finding xml-u32-max (C01)
        if o['k'] == 'c':
            if fmt == 'opl':
                o['comments'] = []
    return objs


def run_part(ctx):
    rng = ctx.rng
    quick = ctx.tier == 'quick'
    ctx.assumptions += ['the specification renderers (Osmium.OplFmt.OplSpec.render, Osmium.XmlFmt.XmlSpec.render) are my reading of the OPL '
                        'manual and of OSM XML / XML 1.0',
                        'expat satisfies ExpatContract (C01 text part)']
    hbin = T.build_harness(ctx)
    if hbin is None:
        return
    scratch = T.scratch_dir('c02')
    try:
        _run(ctx, rng, quick, hbin, scratch)
    finally:
        T.cleanup(scratch)


def _run(ctx, rng, quick, hbin, scratch):
    if not ctx.exe_build_ok:
        ctx.violation('text-model-driver-build', 'the model driver (specification renderers) does not build', {'kind': 'broken-correspondence'}, found_input=False)
        return
    nfiles = 150 if quick else 4000
    cases = []
    for fmt in ('opl', 'xml'):
        for i in range(nfiles):
            osc = 1 if (fmt == 'xml' and rng.chance(1, 4)) else 0
            n = rng.choice([0, 1, 1, 2, 3, 7])
            op = T.Opts(31, 1, 0, osc, 0)
            gen, boxes, objs = T.gen_sequence(rng, fmt, op, n)
            objs = spec_domain(fmt, objs)
            if fmt == 'opl':
                ch, vis = opl_choices(rng), 1
            else:
                ch, vis = xml_choices(rng, osc)
            # what the file describes: visible only if the file says so
            eff = T.Opts(31, 1, 1 if (vis or osc) else 0, osc, 0)
            cases.append((fmt, ch, gen, boxes, objs, eff))
    # the same D under a second, independent choice vector (order / quoting / white space irrelevance)
    twins = []
    for (fmt, ch, gen, boxes, objs, eff) in cases[::4]:
        if fmt == 'opl':
            ch2 = opl_choices(rng)
        else:
            ch2, vis2 = xml_choices(rng, eff.osc)
            if (vis2 or eff.osc) != bool(eff.hist):
                ch2 = ch2.replace('vis=%d' % vis2, 'vis=%d' % (1 if eff.hist and not eff.osc else 0))
        twins.append((fmt, ch2, gen, boxes, objs, eff))
    allc = cases + twins
    r_ops = ['render %s %s %s' % (fmt, ch, T.op_objects(gen, boxes, objs)) for fmt, ch, gen, boxes, objs, eff in allc]
    rc, rendered, se = ctx.run_lines([ctx.model_exe('model_text')], '\n'.join(r_ops) + '\n')
    if rc != 0 or len(rendered) != len(r_ops) or any(not l.startswith('ok ') for l in rendered):
        bad = next((o for o, l in zip(r_ops, rendered) if not l.startswith('ok ')), r_ops[0])
        ctx.violation('text-spec-render', 'the specification renderer failed (rc %d): %s' % (rc, bad[:300]), {'kind': 'broken-correspondence', 'op': bad}, found_input=False)
        return
    rd_ops = ['rd %s %s %s' % (c[0], c[5], l[3:]) for c, l in zip(allc, rendered)]
    expect = [T.expected(c[0], c[5], c[2], c[3], c[4]) for c in allc]
    impl, model = T.run_both(ctx, hbin, scratch, rd_ops)
    if impl is None:
        return
    for o, c in zip(r_ops, allc):
        ctx.note_case(o, nontrivial=bool(c[4]))
        ctx.count('spec-file:' + c[0])
        for kv in c[1].split(','):
            k, v = kv.split('=')
            if k in ('esc', 'ws', 'omit', 'pad', 'expand', 'decl', 'eqsp', 'vis', 'tagsfirst', 'osc', 'nofinal'):
                ctx.count('choice:%s:%s=%s' % (c[0], k, v))
    ctx.sample(r_ops[1][:400])
    ctx.sample(r_ops[nfiles + 1][:400])
    reported = set()
    for o, c, exp, ri, rm, rdo in zip(r_ops, allc, expect, impl, model or [None] * len(r_ops), rd_ops):
        fmt = c[0]
        if ri != exp:
            i, x, y = T.first_diff(ri, exp)
            key = 'text-decode-spec:%s:%s' % (fmt, ('error:' + ri[4:40]) if ri.startswith('err') else T.field_key(x, y))
            if key not in reported:
                reported.add(key)
                ctx.violation(key, 'the real %s Reader does not decode a spec-conformant file to the data it describes: got `%s`, expected `%s` (`%s`)'
                              % (fmt.upper(), (ri if i < 0 else x)[:200], y[:200], o[:300]),
                              {'kind': 'counterexample', 'render_op': o[:20000], 'read_op': rdo[:20000], 'got': ri[:4000], 'expected': exp[:4000],
                               'replay': 'feed render_op to model_text, then `rd` its output to the text harness'})
        elif rm is not None and rm != exp:
            key = 'text-model-decode-spec:%s' % fmt
            if key not in reported:
                reported.add(key)
                i, x, y = T.first_diff(rm, exp)
                ctx.violation(key, 'the MODEL %s reader does not decode a spec-rendered file the real Reader decodes correctly: got `%s`, expected `%s` (`%s`)'
                              % (fmt.upper(), (rm if i < 0 else x)[:200], y[:200], o[:300]),
                              {'kind': 'broken-correspondence', 'render_op': o[:20000], 'got': rm[:4000], 'expected': exp[:4000]}, found_input=False)
    if model is not None:
        ctx.diff_streams('text-spec-reader-dump', rd_ops, impl, model)
    # twins decode identically (implementation alone)
    base = cases[::4]
    for k, (c, t) in enumerate(zip(base, twins)):
        a = impl[4 * k]
        b = impl[len(cases) + k]
        ctx.count('twin:' + c[0])
        if a != b and ('text-encoding-choice:' + c[0]) not in reported:
            reported.add('text-encoding-choice:' + c[0])
            ctx.violation('text-encoding-choice:' + c[0], 'the %s Reader decodes the same data differently under two encodings: `%s` vs `%s`'
                          % (c[0].upper(), r_ops[4 * k][:200], r_ops[len(cases) + k][:200]),
                          {'kind': 'counterexample', 'ops': [r_ops[4 * k][:20000], r_ops[len(cases) + k][:20000]], 'results': [a[:4000], b[:4000]]})
    # readers agree: the same n/w/r data through OPL and through XML
    ag_ops, ag_src = [], []
    for _ in range(40 if quick else 1000):
        op = T.Opts(31, 1, 1, 0, 0)
        gen, boxes, objs = T.gen_sequence(rng, 'xml', op, rng.choice([1, 2, 5]))
        objs = [o for o in spec_domain('xml', objs) if o['k'] != 'c']
        xc, _ = xml_choices(rng, 0)
        xc = xc.replace('vis=0', 'vis=1')
        ag_ops.append('render opl %s %s' % (opl_choices(rng), T.op_objects(b'', [], objs)))
        ag_ops.append('render xml %s %s' % (xc, T.op_objects(b'', [], objs)))
    rc, ag_r, se = ctx.run_lines([ctx.model_exe('model_text')], '\n'.join(ag_ops) + '\n')
    ag_rd = ['rd %s md=31,hist=1 %s' % (o.split()[1], l[3:]) for o, l in zip(ag_ops, ag_r)]
    rc, ag_i, se = ctx.run_lines([hbin, scratch], '\n'.join(ag_rd) + '\n')
    for k in range(0, len(ag_ops), 2):
        ctx.note_case(ag_ops[k])
        ctx.count('readers-agree')
        a = ag_i[k].split(' | ')[1:]
        b = ag_i[k + 1].split(' | ')[1:]
        if a != b or ag_i[k].startswith('err') or ag_i[k + 1].startswith('err'):
            ctx.violation('text-readers-disagree', 'OPL and XML readers disagree on files describing the same data: `%s` -> `%s` / `%s` -> `%s`'
                          % (ag_ops[k][:200], ag_i[k][:200], ag_ops[k + 1][:200], ag_i[k + 1][:200]),
                          {'kind': 'counterexample', 'ops': [ag_ops[k][:20000], ag_ops[k + 1][:20000]], 'results': [ag_i[k][:4000], ag_i[k + 1][:4000]]})
            break
