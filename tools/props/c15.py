"""C15 — id sets, relation maps and the item stash match their set/map models (DESIGN.md §3 C15).

1. proof stage: lean/Osmium/Props/C15.lean (all histories of the models) built + axiom audit.
2. correspondence: the real IdSetDense<uint32/uint64, chunk_bits 22/8/4>, IdSetSmall,
   RelationsMapStash/-Index(es) and ItemStash (harness/c15.cpp, ASan) and the compiled Lean models
   (lean/Driver/C15.lean) execute the same op scripts and are diffed line by line.
3. property monitors inside the harness: every container is compared, call by call, with a
   std::set / std::set<pair> / handle->content map kept next to it (that is the property itself);
   a hit is reported as ` !<tag>` on the output line, minimised here (delta debugging on the op
   script) and turned into a violation with the script as replay.

4. exhaustive small histories (every duplicate / sortedness class by construction, not by luck of the rng):
   * RelationsMapStash: ALL add() sequences up to length 4 (quick) / 5 (thorough; 6 over three ids) over an id alphabet
     that mixes 32-bit ids, 0xffffffff and ids above 2^32, each on fresh objects through all builders (`R hist`):
     size()/empty() of the stash, of every index and of RelationsMapIndexes, for_each(k) as a LIST for every id of the
     alphabet, absent ids and the 2^32-twins of recorded ids.  Three judges per history: the harness's std::set<pair>
     monitor, an independent set-of-pairs oracle here (`rel_expected`), and the Lean model (line equality).
   * IdSetSmall: all set() sequences x all merge partners (`S hist`); IdSetDense<32/64, 4/8>: all set/unset/cas/copy
     sequences over ids on both sides of a byte and a chunk boundary, with a Python set oracle (`dense_oracle`).
   Histogram `relhist:<dup|nodup>:<order class>:<width class>:<builder>:<outcome>` in the evidence.

Findings F2 and F3 are fixed in /repo (7c7de5b, 9f963df); corpus/C15/f2-*.ops and f3-*.ops stay as
regression probes: if the old behaviour returns the monitors raise VIOLATION with the stable keys
idset32-iterate-top-chunk / relmap32-probe-ge-2^32.
"""
import json
import os
import subprocess
import time

import vlib

DENSE = [(32, 22), (64, 22), (32, 8), (64, 8), (32, 4), (64, 4)]
SMALL_IBS = 200          # -DOSMIUM_VERIF_STASH_INITIAL_BUFFER_SIZE of the second harness build
DEFAULT_IBS = 1024 * 1024
MAX32 = 2 ** 32 - 1
KEY_F2 = 'idset32-iterate-top-chunk'
KEY_F3 = 'relmap32-probe-ge-2^32'


# ---------------------------------------------------------------------------------------------
# generators: every script is self-contained (starts with a reset of the object it uses)

def chunk_ids(cb):
    return 1 << (cb + 3)


def dense_pool(rng, w, cb, profile):
    """ids around chunk / byte boundaries; `profile` selects how far up the id space"""
    C = chunk_ids(cb)
    pool = set()
    deltas = (-17, -9, -8, -7, -2, -1, 0, 1, 2, 6, 7, 8, 9, 15, 16, 63, 64)
    if profile == 'low':
        if cb == 22:
            k0 = rng.choice([0, 0, 1, 5, 126 if w == 32 else 126])
            ks = [k0]                      # one chunk only: the model walks 4M bytes per chunk
        else:
            ks = [0, 1, 2, 3, 4 + rng.below(20)]
        for k in ks:
            for d in deltas:
                x = k * C + d
                if cb == 22 and not (k * C <= x < (k + 1) * C):
                    continue
                if 0 <= x < (1 << w):
                    pool.add(x)
            pool.add(k * C + rng.below(C))
    elif profile == 'high':
        if w == 64:
            base = 1 << 32
            for d in deltas:
                pool.add(base + d)
            if cb != 22:
                pool.update([base + C - 1, base + C, base + 3 * C + 5, 5, C])
        else:
            top = (1 << 32) - C            # first id of the top chunk; stay below it
            for d in (-C, -C + 1, -64, -9, -8, -7, -2, -1):
                pool.add(top + d)
            pool.update([0, 7, 8])
    elif profile == 'top':                 # w == 32 only: ids of the top chunk (finding F2)
        top = (1 << 32) - C
        pool.update([top, top + 1, top + 7, top + 8, (1 << 32) - 1, 4294967290])
        if cb != 22:                       # (cb 22: one allocated chunk only, the model walks 4M bytes per chunk)
            pool.update([top - 1, 5])
    lim = (1 << 20) if cb == 4 else (1 << w)
    pool = sorted(x for x in pool if 0 <= x < lim)
    rng.shuffle(pool)
    return pool[:6 + rng.below(12)]


def gen_dense(rng, w, cb, profile, nops, max_iter):
    p = 'D %d %d ' % (w, cb)
    pool = dense_pool(rng, w, cb, profile)
    ops = [p + 'clear']
    iters = 0
    for _ in range(nops):
        r = rng.below(100)
        x = rng.choice(pool)
        if r < 34:
            ops.append(p + 'set %d' % x)
        elif r < 48:
            ops.append(p + 'unset %d' % x)
        elif r < 62:
            ops.append(p + 'cas %d' % x)
        elif r < 76:
            ops.append(p + 'get %d' % x)
        elif r < 82:
            ops.append(p + 'size')
        elif r < 84:
            ops.append(p + 'empty')
        elif r < 93:
            if iters < max_iter:
                ops.append(p + 'iter')
                iters += 1
        elif r < 97:
            ops.append(p + 'copy')
        elif r < 98 and profile == 'low' and cb != 22:
            ops.append(p + 'clear')
    if iters < max_iter:
        ops.append(p + 'iter')
    ops.append(p + 'size')
    for x in pool[:4]:
        ops.append(p + 'get %d' % x)
    return ops


def gen_small(rng, nops):
    pool = [0, 1, 2, 3, 5, 8, 2 ** 32 - 1, 2 ** 32, 2 ** 63, 2 ** 64 - 1, rng.below(50), rng.below(2 ** 40)]
    ops = ['S clear']
    for _ in range(nops):
        r = rng.below(100)
        x = rng.choice(pool)
        if r < 45:
            ops.append('S set %d' % x)
        elif r < 60:
            ops.append('S get %d' % x)
        elif r < 72:
            ops += ['S sortu', 'S size', 'S list', 'S getb %d' % x]
        elif r < 84:
            other = [rng.choice(pool) for _ in range(rng.below(6))]
            ops += ['S sortu', 'S merge ' + ' '.join(map(str, other)), 'S list', 'S size']
        elif r < 90:
            ops.append('S size')
        elif r < 96:
            ops.append('S list')
        else:
            ops.append('S clear')
    ops += ['S sortu', 'S list']
    return ops


def gen_rel(rng, mode, nadds, probe_wide):
    small = [0, 1, 2, 5, 7, 9, 1000, MAX32 - 1, MAX32]
    big = [2 ** 32, 2 ** 32 + 5, 2 ** 32 + 7, 2 ** 33 + 1, 2 ** 63, 2 ** 64 - 1]
    ops = ['R reset']
    members, parents = set(), set()
    for _ in range(nadds):
        if mode == 'all32':
            m, r = rng.choice(small), rng.choice(small)
        elif mode == 'all64':
            m, r = rng.choice(big), rng.choice(big)
        else:
            m = rng.choice(small + big)
            r = rng.choice(small + big)
        if rng.chance(1, 6):
            m = rng.below(12)
        if rng.chance(1, 6):
            r = rng.below(12)
        members.add(m)
        parents.add(r)
        ops.append('R add %d %d' % (m, r))
    ops.append('R size')
    builders = ['m2p', 'p2m', 'both']
    rng.shuffle(builders)
    for b in builders:
        ops.append('R build ' + b)
        for which, keys in (('m2p', members), ('p2m', parents)):
            if b != 'both' and b != which:
                continue
            ks = set(keys) | {0, 3, MAX32, 2 ** 64 - 1}
            if probe_wide:
                # keys that agree with a recorded key in the low 32 bits (the narrowing cast)
                for k in list(keys):
                    if k <= MAX32:
                        ks.add(k + 2 ** 32)
                        ks.add(k + 2 ** 63)
                    else:
                        ks.add(k % 2 ** 32)
            ks = sorted(ks)
            for k in ks:
                ops.append('R look %s %d' % (which, k))
    return ops


def hexpayload(rng, n):
    if n == 0:
        return '-'
    b = rng.next() & 0xFF
    return ''.join('%02x' % ((b + 7 * i) & 0xFF) for i in range(n))


class StashSim:
    """bookkeeping for the GENERATOR only (which handles are live, when the collection policy
    fires) — not an oracle: results are never compared with it"""

    def __init__(self, ibs):
        self.cap = 64 if ibs < 64 else (ibs + 7) // 8 * 8
        self.reset()

    def reset(self):
        self.committed = 0
        self.live = {}
        self.live_list = []
        self.removed = 0
        self.issued = 0
        self.auto_gc = 0

    def should_gc(self):
        if self.removed < 10000:
            return False
        if self.removed > 5000000:
            return True
        if self.removed * 5 < len(self.live):
            return False
        return self.cap - self.committed < 10240

    def gc(self):
        self.removed = 0
        self.committed = sum(self.live.values())

    def add(self, n):
        if self.should_gc():
            self.gc()
            self.auto_gc += 1
        ps = (8 + n + 7) // 8 * 8
        if self.committed + ps > self.cap:
            c = self.cap * 2
            while self.committed + ps > c:
                c *= 2
            self.cap = max(self.cap, 64 if c < 64 else (c + 7) // 8 * 8)
        self.committed += ps
        self.issued += 1
        self.live[self.issued] = ps
        self.live_list.append(self.issued)
        return self.issued

    def pick_live(self, rng):
        while self.live_list:
            i = rng.below(len(self.live_list))
            h = self.live_list[i]
            if h in self.live:
                return h, i
            self.live_list[i] = self.live_list[-1]
            self.live_list.pop()
        return None, None

    def remove(self, h):
        del self.live[h]
        self.removed += 1


def gen_stash_short(rng, ibs, nops):
    sim = StashSim(ibs)
    ops = ['I new %d' % ibs]
    for _ in range(nops):
        r = rng.below(100)
        if r < 40 or not sim.live:
            n = rng.choice([0, 1, 2, 7, 8, 9, 15, 16, 17, rng.below(40), 100 + rng.below(200)])
            sim.add(n)
            ops.append('I add ' + hexpayload(rng, n))
        elif r < 58:
            h, _ = sim.pick_live(rng)
            ops.append('I get %d' % h)
        elif r < 63:
            # stale / invalid handles: precondition violations, must be `ub` on both sides
            ops.append('I get %d' % rng.choice([0, sim.issued + 1, sim.issued + 7, 1 + rng.below(max(1, sim.issued))]))
        elif r < 80:
            h, _ = sim.pick_live(rng)
            sim.remove(h)
            ops.append('I rm %d' % h)
        elif r < 83:
            ops.append('I rm %d' % rng.choice([0, sim.issued + 1, 1 + rng.below(max(1, sim.issued))]))
            # (if the handle happens to be live the removal is performed: keep the bookkeeping right)
            h = int(ops[-1].split()[2])
            if h in sim.live:
                sim.remove(h)
        elif r < 91:
            ops += ['I gc', 'I idx']
            sim.gc()
        elif r < 96:
            ops.append('I size')
        elif r < 98:
            ops.append('I idx')
        else:
            ops.append('I clear')
            sim.reset()
    ops += ['I gc', 'I idx', 'I size']
    sim.gc()
    for h in sorted(sim.live)[:20]:
        ops.append('I get %d' % h)
    return ops


def gen_stash_long(rng, ibs, cycles, keep_live=None):
    """a history in which the automatic collection inside add_item fires `cycles` times: should_gc
    needs >= 10000 removed items, removed*5 >= live items and < 10 KiB free buffer space"""
    sim = StashSim(ibs)
    ops = ['I new %d' % ibs]

    def add(n):
        sim.add(n)
        ops.append('I add ' + hexpayload(rng, n))

    for cyc in range(cycles):
        target = sim.auto_gc + 1
        # live items scattered between the removed ones; `keep_live` in (4*10000, 5*10000] makes
        # clause *3 of should_gc (removed * 5 < items) the deciding one
        keep = keep_live if keep_live else 200 + rng.below(1500)
        # phase 1: adds and removals until 10000 items are removed
        stop_at = 10000 + rng.below(40)
        while sim.removed < stop_at and sim.auto_gc < target:
            r = rng.below(100)
            if len(sim.live) < keep or (r < 45 and not keep_live):
                add(rng.choice([0, 1, 3, 8, 9, 16, rng.below(24)]))
            elif r < 97:
                h, _ = sim.pick_live(rng)
                sim.remove(h)
                ops.append('I rm %d' % h)
            else:
                h, _ = sim.pick_live(rng)
                ops.append('I get %d' % h)
        ops.append('I size')
        # phase 2: fill the buffer until the policy fires inside add_item
        guard = 0
        while sim.auto_gc < target and guard < 20000:
            guard += 1
            free = sim.cap - sim.committed
            add(600 + rng.below(500) if free > 40000 else rng.below(300))
            if rng.chance(1, 5) and sim.live and not keep_live:
                h, _ = sim.pick_live(rng)
                sim.remove(h)
                ops.append('I rm %d' % h)
        # phase 3: every surviving handle must still resolve to its content
        ops.append('I size')
        for h in sorted(sim.live):
            if rng.chance(1, 3 if not keep_live else 40):
                ops.append('I get %d' % h)
        ops.append('I get %d' % rng.choice([1, 2, 3, sim.issued + 1]))
    ops += ['I gc', 'I size']
    sim.gc()
    live = sorted(sim.live)
    for h in live[:30] + live[-30:]:
        ops.append('I get %d' % h)
    return ops, sim.auto_gc



# ---------------------------------------------------------------------------------------------
# exhaustive small histories

REL_ALPHABET = [1, 2, MAX32, 2 ** 33 + 1]          # two small ids, the largest 32-bit id, one id above 2^32
REL_SMALL_POOL = [0, 1, 2, 5, 1000, MAX32 - 1]
REL_WIDE_POOL = [2 ** 32, 2 ** 32 + 1, 2 ** 33 + 1, 2 ** 63, 2 ** 64 - 1]
SMALL_ALPHABET = [0, 5, MAX32, 2 ** 32, 2 ** 64 - 1]


def rel_probes(alpha):
    """every id of the alphabet, absent ids, and ids that agree with a recorded id in the low 32 bits"""
    ps = list(alpha)
    for a in alpha:
        for x in ((a + 2 ** 32) if a <= MAX32 else (a % 2 ** 32), a + 1 if a < 2 ** 64 - 1 else 0):
            if x not in ps:
                ps.append(x)
    for x in (0, 3, 2 ** 64 - 1):
        if x not in ps:
            ps.append(x)
    return ps


def _cnt_list(vs):
    return '%d:%s' % (len(vs), ','.join(map(str, vs))) if vs else '0'


def rel_expected(h, probes, cache):
    """the property itself, independent of harness and model: after the adds `h` (list of (member, parent)) every
    index holds exactly the SET of recorded pairs; for_each(k) delivers the partners of k ascending, each once.
    Returns the sections of the `R hist` output line."""
    n32 = sum(1 for m, r in h if m <= MAX32 and r <= MAX32)
    key = frozenset(h)
    got = cache.get(key)
    if got is None:
        n = len(key)
        head = '%d %d' % (n, 0 if n else 1)
        m2p = ' '.join([head] + [_cnt_list(sorted(r for m, r in key if m == k)) for k in probes])
        p2m = ' '.join([head] + [_cnt_list(sorted(m for m, r in key if r == k)) for k in probes])
        got = cache[key] = ['M ' + m2p, 'P ' + p2m, 'BM ' + m2p, 'BP ' + p2m, 'B ' + head]
    return ['S %d %d %d %d' % (len(h), n32, len(h) - n32, 0 if h else 1)] + got


def order_class(seq):
    if len(seq) < 2:
        return 'short'
    if all(x == seq[0] for x in seq):
        return 'all-equal'
    up = all(seq[i] <= seq[i + 1] for i in range(len(seq) - 1))
    down = all(seq[i] >= seq[i + 1] for i in range(len(seq) - 1))
    strict = all(seq[i] != seq[i + 1] for i in range(len(seq) - 1))
    if up:
        return 'ascending' if strict else 'ascending+equal-neighbour'
    if down:
        return 'descending' if strict else 'descending+equal-neighbour'
    return 'unordered'


def width_class(h):
    n32 = sum(1 for m, r in h if m <= MAX32 and r <= MAX32)
    return 'empty' if not h else 'all32' if n32 == len(h) else 'all64' if n32 == 0 else 'mixed32+64'


def rel_histories(alpha, maxlen):
    import itertools
    pairs = [(a, b) for a in alpha for b in alpha]
    for n in range(maxlen + 1):
        for h in itertools.product(pairs, repeat=n):
            yield h


def rel_hist_line(h, ptxt):
    return 'R hist %d %s%s' % (len(h), ''.join('%d %d ' % p for p in h), ptxt)


def rel_script(h, probes):
    """the same history in single-call ops (for the replay file: readable, and usable with --replay)"""
    ops = ['R reset'] + ['R add %d %d' % p for p in h] + ['R size']
    for b in ('m2p', 'p2m', 'both'):
        ops.append('R build ' + b)
        for which in ('m2p', 'p2m'):
            if b in ('both', which):
                ops += ['R look %s %d' % (which, k) for k in probes]
    return ops


def small_expected(ids, others, probes):
    a = set(ids)
    u = a | set(others)
    bits = lambda st: ''.join('1' if k in st else '0' for k in probes)
    lst = lambda st: ' '.join(map(str, [len(st)] + sorted(st)))
    return [None, 'get ' + bits(a), 'sorted ' + lst(a), 'getb ' + bits(a), 'merged ' + lst(u), 'getb ' + bits(u)]


def dense_oracle(w, ops):
    """expected outputs of a `D` script from a Python set (size() in the arithmetic of T)"""
    st = set()
    out = []
    for o in ops:
        f = o.split()
        a = f[3]
        if a == 'set':
            st.add(int(f[4]))
            out.append('ok')
        elif a == 'unset':
            st.discard(int(f[4]))
            out.append('ok')
        elif a == 'cas':
            x = int(f[4])
            out.append('0' if x in st else '1')
            st.add(x)
        elif a == 'get':
            out.append('1' if int(f[4]) in st else '0')
        elif a == 'size':
            out.append(str(len(st) % (1 << w)))
        elif a == 'empty':
            out.append('0' if st else '1')
        elif a == 'clear':
            st.clear()
            out.append('ok')
        elif a == 'copy':
            out.append('ok')
        elif a == 'iter':
            out.append(' '.join(map(str, [len(st)] + sorted(st))))
        else:
            out.append('?')
    return out


def gen_dense_exhaustive(w, cb, maxlen):
    import itertools
    C = chunk_ids(cb)
    ids = [7, 8, C - 1, C]                 # both sides of a byte boundary and of a chunk boundary
    acts = [(a, i) for a in ('set', 'unset', 'cas') for i in ids] + [('copy', None)]
    p = 'D %d %d ' % (w, cb)
    tail = [p + 'size', p + 'empty', p + 'iter'] + [p + 'get %d' % i for i in ids]
    ops = []
    for n in range(maxlen + 1):
        for h in itertools.product(acts, repeat=n):
            ops.append(p + 'clear')
            for a, i in h:
                ops.append(p + a if i is None else p + '%s %d' % (a, i))
            ops += tail
    return ops


def run_pair(impl_bin, model_bin, ops, timeout=3000):
    """the same op lines through the harness and the model driver, concurrently"""
    from concurrent.futures import ThreadPoolExecutor

    def job(binary):
        try:
            return run_bin(binary, ops, timeout=timeout)
        except subprocess.TimeoutExpired:
            return -9, [], 'timeout'
    with ThreadPoolExecutor(max_workers=2) as ex:
        fi = ex.submit(job, impl_bin)
        fm = ex.submit(job, model_bin) if model_bin else None
        ri = fi.result()
        rm = fm.result() if fm else (0, None, '')
    return ri, rm


def exhaustive_stage(ctx, bins, model_bin, quick):
    """all small histories; returns the number of op lines executed"""
    lines_total = 0
    seed_rng = vlib.SplitMix64((ctx.seed * 0x9E3779B97F4A7C15 + 0xC15) & 0xFFFFFFFFFFFFFFFF)
    hb = bins['c15']
    state = {'viol': 0, 'rel': 0, 'small': 0, 'dense': 0}

    def crash_violation(stream, ops, ri):
        rc, out, se = ri
        cut = ops[len(out):len(out) + 1] or ops[-1:]
        first = [l for l in se.split('\n') if 'ERROR' in l or 'runtime error' in l or 'Assertion' in l]
        ctx.violation('crash:' + cut[0][:150], 'the real code crashes / hangs (rc=%s; %s) in the exhaustive %s stream on: %s'
                      % (rc, (first or [se.strip()[:200]])[0][:300], stream, cut[0][:600]),
                      {'kind': 'counterexample', 'ops': cut, 'binary': 'c15', 'stderr': se[-3000:],
                       'replay': 'python3 tools/check.py C15 --replay <this file>'})

    # ---- relation maps -------------------------------------------------------------------------------
    plans = [('fixed', REL_ALPHABET, 4 if quick else 5)]
    # a second alphabet drawn from the seed: two small ids, 0xffffffff or its neighbour, one or two wide ids
    a2 = [seed_rng.choice(REL_SMALL_POOL)]
    a2.append(seed_rng.choice([x for x in REL_SMALL_POOL if x not in a2]))
    a2.append(seed_rng.choice(REL_WIDE_POOL))
    if quick:
        plans.append(('seeded', a2, 4))
    else:
        a2.append(seed_rng.choice([x for x in REL_WIDE_POOL if x not in a2] + [MAX32]))
        plans.append(('seeded', a2, 4))
        plans.append(('three-ids', [1, MAX32, 2 ** 33 + 1], 6))
    for pname, alpha, maxlen in plans:
        probes = rel_probes(alpha)
        ptxt = ' '.join(map(str, probes))
        cache = {}
        ctx.count('exhaustive:relmap-%s-alphabet-%s-maxlen-%d' % (pname, '/'.join(map(str, alpha)), maxlen), 0)
        gen = rel_histories(alpha, maxlen)
        done = False
        while not done:
            hs = []
            for h in gen:
                hs.append(h)
                if len(hs) >= 150000:
                    break
            else:
                done = True
            if not hs:
                break
            ops = [rel_hist_line(h, ptxt) for h in hs]
            ri, rm = run_pair(hb, model_bin, ops)
            lines_total += len(ops)
            ctx.count('exhaustive:relmap-%s-alphabet-%s-maxlen-%d' % (pname, '/'.join(map(str, alpha)), maxlen), len(ops))
            if ri[0] != 0 or len(ri[1]) != len(ops):
                crash_violation('relation-map', ops, ri)
                return lines_total
            impl, model = ri[1], rm[1]
            mdis = []
            for i, h in enumerate(hs):
                ctx.note_case(ops[i], nontrivial=len(h) > 0)
                res, tags = split_mon(impl[i])
                want = rel_expected(h, probes, cache)
                secs = res.split(' | ')
                dup = 'dup' if len(set(h)) < len(h) else 'nodup'
                wc = width_class(h)
                fwd = order_class(h)
                rev = order_class([(r, m) for m, r in h])
                bad = []
                for j, b in ((1, 'm2p'), (2, 'p2m'), (3, 'both-m2p'), (4, 'both-p2m')):
                    ok = j < len(secs) and secs[j] == want[j]
                    ctx.count('relhist:%s:%s:%s:%s:%s' % (dup, fwd if j in (1, 3) else rev, wc, b, 'ok' if ok else 'WRONG'))
                    if not ok:
                        bad.append(b)
                if len(secs) != len(want) or secs[0] != want[0] or secs[5:] != want[5:]:
                    bad.append('sizes')
                if (bad or tags) and state['rel'] < 1:       # histories come shortest first: the first hit is a minimal one
                    state['rel'] += 1
                    state['viol'] += 1
                    exp = ' | '.join(want)
                    ctx.violation('relmap-history:' + ' '.join('%d,%d' % p for p in h),
                                  'RelationsMapStash history [%s]: the indexes do not hold exactly the recorded pairs (wrong: %s; harness '
                                  'monitors: %s).  Output (S = stash size n32 n64 empty; M/P = build_member_to_parent/parent_to_member_index, '
                                  'BM/BP = build_indexes(): size empty, then for_each(k) as count:values for k in %s):  got `%s`  expected `%s`'
                                  % (' '.join('add(%d,%d)' % p for p in h), ','.join(bad) or '-', ','.join(tags) or '-', ptxt, res, exp),
                                  {'kind': 'counterexample', 'ops': [ops[i]], 'as_script': rel_script(h, probes), 'binary': 'c15',
                                   'expected': exp, 'got': impl[i], 'replay': 'python3 tools/check.py C15 --replay <this file>'})
                if model is not None and (i >= len(model) or model[i] != res):
                    mdis.append((i, bool(bad or tags)))
            if model is not None:
                ctx.diff_streams('c15-relmap-exhaustive', ops, [split_mon(l)[0] for l in impl], model)
                for i, flagged in mdis:
                    if not flagged:
                        ctx.violation('correspondence:relmap-exhaustive:' + ops[i][:100],
                                      'model and implementation disagree on `%s`: impl=`%s` model=`%s` (set-of-pairs oracle and monitors agree with the impl)'
                                      % (ops[i][:200], impl[i][:300], (model[i] if i < len(model) else '<missing>')[:300]),
                                      {'kind': 'broken-correspondence', 'ops': [ops[i]], 'binary': 'c15'}, found_input=False)
                        break
    ctx.sample(rel_hist_line(((1, 2 ** 33 + 1), (1, 2 ** 33 + 1), (2, 1)), ' '.join(map(str, rel_probes(REL_ALPHABET)))))

    # ---- IdSetSmall --------------------------------------------------------------------------------------
    import itertools
    probes = SMALL_ALPHABET + [1]
    ptxt = ' '.join(map(str, probes))
    nl, ol = (4, 2) if quick else (5, 3)
    hs = [(ids, oth) for n in range(nl + 1) for ids in itertools.product(SMALL_ALPHABET, repeat=n)
          for m in range(ol + 1) for oth in itertools.product(SMALL_ALPHABET, repeat=m)]
    for c0 in range(0, len(hs), 200000):
        part = hs[c0:c0 + 200000]
        ops = ['S hist %d %s%d %s%s' % (len(i), ''.join('%d ' % x for x in i), len(o), ''.join('%d ' % x for x in o), ptxt) for i, o in part]
        ri, rm = run_pair(hb, model_bin, ops)
        lines_total += len(ops)
        ctx.count('exhaustive:idsetsmall-histories', len(ops))
        if ri[0] != 0 or len(ri[1]) != len(ops):
            crash_violation('IdSetSmall', ops, ri)
            return lines_total
        impl, model = ri[1], rm[1]
        for i, (ids, oth) in enumerate(part):
            ctx.note_case(ops[i], nontrivial=len(ids) + len(oth) > 0)
            res, tags = split_mon(impl[i])
            secs = res.split(' | ')
            want = small_expected(ids, oth, probes)
            raw = secs[0].split()
            bad = len(secs) != 6 or secs[1:] != want[1:] or raw[0] != 'raw' or set(map(int, raw[2:])) != set(ids)
            ctx.count('smallhist:%s:%s:%s' % ('dup' if len(set(ids)) < len(ids) else 'nodup', order_class(ids),
                                              'WRONG' if bad or tags else 'ok'))
            if (bad or tags) and state['small'] < 1:
                state['small'] += 1
                state['viol'] += 1
                ctx.violation('idsetsmall-history:' + ','.join(map(str, ids)) + '/' + ','.join(map(str, oth)),
                              'IdSetSmall history set(%s); sort_unique(); merge_sorted({%s}): content / membership differ from the set (monitors: %s): '
                              'got `%s` expected `%s`' % (','.join(map(str, ids)), ','.join(map(str, oth)), ','.join(tags) or '-', res,
                                                          ' | '.join(['raw <any order>'] + want[1:])),
                              {'kind': 'counterexample', 'ops': [ops[i]], 'binary': 'c15', 'replay': 'python3 tools/check.py C15 --replay <this file>'})
        if model is not None:
            dis = ctx.diff_streams('c15-idsetsmall-exhaustive', ops, [split_mon(l)[0] for l in impl], model)
            if dis and not state['viol']:
                i, op, a, b = dis[0]
                ctx.violation('correspondence:idsetsmall-exhaustive:' + op[:100], 'model and implementation disagree on `%s`: impl=`%s` model=`%s`'
                              % (op[:200], a[:300], b[:300]), {'kind': 'broken-correspondence', 'ops': [op], 'binary': 'c15'}, found_input=False)

    # ---- IdSetDense ----------------------------------------------------------------------------------------
    for (w, cb) in ((32, 4), (64, 4), (32, 8), (64, 8)):
        ops = gen_dense_exhaustive(w, cb, 3 if quick else 4)
        ri, rm = run_pair(hb, model_bin, ops)
        lines_total += len(ops)
        ctx.count('exhaustive:idsetdense-%d-%d-ops' % (w, cb), len(ops))
        if ri[0] != 0 or len(ri[1]) != len(ops):
            crash_violation('IdSetDense', ops, ri)
            return lines_total
        impl, model = ri[1], rm[1]
        want = dense_oracle(w, ops)
        start = 0
        for i, o in enumerate(ops):
            if o.endswith(' clear'):
                start = i
                ctx.note_case('\n'.join(ops[i:i + 12]), nontrivial=False)
            res, tags = split_mon(impl[i])
            if (res != want[i] or tags) and state['dense'] < 1:
                state['dense'] += 1
                state['viol'] += 1
                cut = ops[start:i + 1]
                ctx.violation('idsetdense-history:' + ' / '.join(cut)[:160],
                              'IdSetDense<uint%d_t, %d> differs from the set after the history %s: got `%s` expected `%s` (monitors: %s)'
                              % (w, cb, ' ; '.join(cut), res, want[i], ','.join(tags) or '-'),
                              {'kind': 'counterexample', 'ops': cut, 'binary': 'c15', 'replay': 'python3 tools/check.py C15 --replay <this file>'})
        if model is not None:
            dis = ctx.diff_streams('c15-idsetdense-exhaustive', ops, [split_mon(l)[0] for l in impl], model)
            if dis and not state['viol']:
                i, op, a, b = dis[0]
                ctx.violation('correspondence:idsetdense-exhaustive:' + op[:100], 'model and implementation disagree at op %d `%s`: impl=`%s` model=`%s`'
                              % (i, op[:200], a[:300], b[:300]), {'kind': 'broken-correspondence', 'ops': ops[max(0, i - 12):i + 1], 'binary': 'c15'},
                              found_input=False)
    return lines_total



# ---------------------------------------------------------------------------------------------
# shape tie: the statement sequences of the container methods whose bodies are calls of std algorithms on a
# std::vector (outside the subset of tools/cxx2lean.py) are read off clang's typed AST on every run, printed in a
# normalised form (no comments / layout / implicit nodes) into lean/Osmium/Generated/C15Shape.lean, and the
# `src_shape_*` theorems of Props/C15.lean compare them with the statement sequences the model functions transcribe.
# An added early return, flag member, branch or call changes the text and breaks the theorem of that function.

SHAPE_TU = '''#include <osmium/index/relations_map.hpp>
#include <osmium/index/id_set.hpp>
template class osmium::index::IdSetSmall<unsigned long>;
namespace c15_inst {
inline void f(osmium::index::RelationsMapStash& s) {
    s.add(1, 2);
    auto a = s.build_indexes();
    auto b = s.build_member_to_parent_index();
    auto c = s.build_parent_to_member_index();
    a.member_to_parent().for_each(0, [](osmium::unsigned_object_id_type) {});
}
}
'''
SHAPE_CLASSES = {
    'flat_map32': ('flat_map', ['unsigned long', 'unsigned int', 'unsigned long', 'unsigned int']),
    'flat_map64': ('flat_map', ['unsigned long', 'unsigned long', 'unsigned long', 'unsigned long']),
    'stash': ('RelationsMapStash', None),
    'small': ('IdSetSmall', ['unsigned long']),
}
# (class label, method) -> Lean name; everything listed is always emitted (a method that is gone: ["<missing>"])
SHAPE_METHODS = [
    ('flat_map32', 'set'), ('flat_map32', 'sort_unique'), ('flat_map32', 'flip_in_place'), ('flat_map32', 'flip_copy'),
    ('flat_map32', 'clear'), ('flat_map32', 'get'), ('flat_map32', 'empty'), ('flat_map32', 'size'),
    ('flat_map64', 'set'), ('flat_map64', 'sort_unique'), ('flat_map64', 'flip_in_place'), ('flat_map64', 'flip_copy'),
    ('flat_map64', 'get'), ('flat_map64', 'empty'), ('flat_map64', 'size'),
    ('stash', 'add'), ('stash', 'append32to64'), ('stash', 'build_member_to_parent_index'),
    ('stash', 'build_parent_to_member_index'), ('stash', 'build_indexes'), ('stash', 'empty'), ('stash', 'size'), ('stash', 'sizes'),
    ('small', 'set'), ('small', 'get'), ('small', 'get_binary_search'), ('small', 'sort_unique'), ('small', 'merge_sorted'),
    ('small', 'clear'), ('small', 'size'), ('small', 'empty'),
]


def _sk_load(text):
    dec = json.JSONDecoder()
    i, objs = 0, []
    while i < len(text):
        while i < len(text) and text[i] in ' \n\r\t':
            i += 1
        if i >= len(text):
            break
        o, i = dec.raw_decode(text, i)
        objs.append(o)
    return objs


SK_TRANSPARENT = {'ImplicitCastExpr', 'ParenExpr', 'MaterializeTemporaryExpr', 'CXXBindTemporaryExpr', 'ExprWithCleanups',
               'ConstantExpr', 'FullExpr'}

def _kids(n):
    return [c for c in (n.get('inner') or []) if c and c.get('kind')]

def short_type(n):
    t = (n.get('type') or {}).get('qualType', '?')
    t = t.replace('const ', '').strip()
    out, depth = [], 0
    for ch in t:                     # drop template arguments
        if ch == '<':
            depth += 1
        elif ch == '>':
            depth -= 1
        elif depth == 0:
            out.append(ch)
    return ''.join(out).split('::')[-1].strip()

def sk_ex(n):
    k = n.get('kind')
    c = _kids(n)
    if k in SK_TRANSPARENT:
        return sk_ex(c[-1]) if c else '<%s>' % k
    if k == 'CXXThisExpr':
        return 'this'
    if k == 'MemberExpr':
        base = sk_ex(c[0]) if c else '?'
        return n.get('name', '?') if base == 'this' else base + '.' + n.get('name', '?')
    if k == 'DeclRefExpr':
        return (n.get('referencedDecl') or {}).get('name', '?')
    if k in ('CallExpr', 'CXXMemberCallExpr'):
        return sk_ex(c[0]) + '(' + ', '.join(sk_ex(a) for a in c[1:]) + ')'
    if k == 'CXXOperatorCallExpr':
        op = sk_ex(c[0])
        return op + '(' + ', '.join(sk_ex(a) for a in c[1:]) + ')'
    if k == 'BinaryOperator' or k == 'CompoundAssignOperator':
        return '(' + sk_ex(c[0]) + ' ' + n.get('opcode', '?') + ' ' + sk_ex(c[1]) + ')'
    if k == 'UnaryOperator':
        return ('(' + sk_ex(c[0]) + n.get('opcode', '?') + ')') if n.get('isPostfix') else ('(' + n.get('opcode', '?') + sk_ex(c[0]) + ')')
    if k == 'ConditionalOperator':
        return '(' + sk_ex(c[0]) + ' ? ' + sk_ex(c[1]) + ' : ' + sk_ex(c[2]) + ')'
    if k == 'IntegerLiteral':
        return str(n.get('value'))
    if k == 'CXXBoolLiteralExpr':
        return 'true' if n.get('value') else 'false'
    if k == 'CXXConstructExpr':
        if len(c) == 1:
            return sk_ex(c[0])                      # copy / move / converting construction: transparent
        return short_type(n) + '{' + ', '.join(sk_ex(a) for a in c) + '}'
    if k in ('CXXFunctionalCastExpr', 'CXXTemporaryObjectExpr', 'InitListExpr', 'CXXStaticCastExpr'):
        return short_type(n) + '{' + ', '.join(sk_ex(a) for a in c) + '}'
    if k == 'ArraySubscriptExpr':
        return sk_ex(c[0]) + '[' + sk_ex(c[1]) + ']'
    if k == 'CXXDefaultArgExpr':
        return '<default>'
    if k == 'LambdaExpr':
        body = [x for x in c if x.get('kind') == 'CompoundStmt']
        return 'lambda{' + '; '.join(sk_st(body[-1])) + '}' if body else 'lambda'
    if k == 'UnresolvedLookupExpr':
        return n.get('name', '?')
    return '<%s>' % k

def sk_st(n):
    """statement -> list of normalised lines"""
    k = n.get('kind')
    c = _kids(n)
    if k == 'CompoundStmt':
        return [l for s in c for l in sk_st(s)]
    if k == 'NullStmt':
        return []
    if k == 'DeclStmt':
        out = []
        for d in c:
            if d.get('kind') == 'VarDecl':
                init = [x for x in _kids(d)]
                out.append('let ' + d.get('name', '?') + (' = ' + sk_ex(init[-1]) if init else ''))
            elif d.get('kind') in ('UsingDecl', 'UsingShadowDecl', 'TypedefDecl', 'TypeAliasDecl', 'StaticAssertDecl'):
                pass
            else:
                out.append('<decl %s>' % d.get('kind'))
        return out
    if k == 'IfStmt':
        inner = n.get('inner') or []
        parts = [x for x in inner if x and x.get('kind')]
        cond, then = parts[0], parts[1]
        out = ['if ' + sk_ex(cond)] + sk_st(then)
        if n.get('hasElse') and len(parts) > 2:
            out += ['else'] + sk_st(parts[2])
        return out + ['endif']
    if k == 'ReturnStmt':
        return ['return' + (' ' + sk_ex(c[0]) if c else '')]
    if k == 'CXXForRangeStmt':
        var = [x for x in c if x.get('kind') == 'DeclStmt'][-1]
        vname = _kids(var)[0].get('name', '?')
        rng = _kids(_kids(c[0])[0])[-1] if c[0].get('kind') == 'DeclStmt' else c[0]
        return ['for ' + vname + ' in ' + sk_ex(rng)] + sk_st(c[-1]) + ['endfor']
    if k in ('ForStmt', 'WhileStmt', 'DoStmt', 'SwitchStmt', 'CXXTryStmt'):
        return [k] + [l for s in c for l in (sk_st(s) if s.get('kind', '').endswith('Stmt') else [sk_ex(s)])] + ['end' + k]
    if k in ('BreakStmt', 'ContinueStmt', 'GotoStmt'):
        return [k]
    if k == 'CXXThrowExpr':
        return ['throw ' + (short_type(c[0]) if c else '')]
    txt = sk_ex(n)
    return [] if txt == 'void{0}' else [txt]     # `assert(..)` under NDEBUG

def _walk(n, path=()):
    yield n, path
    for c in n.get('inner', []) or []:
        if c:
            yield from _walk(c, path + (n,))

def spec_args(n):
    """template arguments of a ClassTemplateSpecializationDecl as text"""
    a = []
    for c in n.get('inner') or []:
        if c and c.get('kind') == 'TemplateArgument':
            t = c.get('type', {}).get('qualType') or str(c.get('value'))
            a.append(t)
    return a

def sk_extract(objs, classes):
    """classes: {label: (class name, template args or None)} -> {label: {'fields': [...], 'methods': {name: lines}}}"""
    out = {}
    for o in objs:
        for n, p in _walk(o):
            if n.get('kind') not in ('CXXRecordDecl', 'ClassTemplateSpecializationDecl') or not n.get('completeDefinition', n.get('inner')):
                continue
            for label, (cname, targs) in classes.items():
                if n.get('name') != cname:
                    continue
                if targs is None:
                    if n.get('kind') != 'CXXRecordDecl' or any(x.get('kind') == 'ClassTemplateDecl' for x in p):
                        continue
                else:
                    if n.get('kind') != 'ClassTemplateSpecializationDecl' or spec_args(n) != targs:
                        continue
                rec = out.setdefault(label, {'fields': [], 'methods': {}})
                for m in n.get('inner') or []:
                    if not m:
                        continue
                    if m.get('kind') == 'FieldDecl' and m.get('name') not in rec['fields']:
                        rec['fields'].append(m.get('name'))
                    if m.get('kind') in ('CXXMethodDecl', 'FunctionTemplateDecl') and not m.get('isImplicit'):
                        body = [x for x in _kids(m) if x.get('kind') == 'CompoundStmt']
                        if body and m.get('name') not in rec['methods']:
                            rec['methods'][m['name']] = sk_st(body[0])
    return out



def _lean_str(x):
    return '"' + x.replace('\\', '\\\\').replace('"', '\\"') + '"'


def regen_shape(ctx):
    """-> None or an error text; writes lean/Osmium/Generated/C15Shape.lean"""
    import hashlib
    inc = os.path.join(vlib.REPO, 'include')
    h = hashlib.sha256()
    for rel in ('osmium/index/relations_map.hpp', 'osmium/index/id_set.hpp'):
        try:
            with open(os.path.join(inc, rel), 'rb') as f:
                h.update(f.read())
        except OSError as e:
            return str(e)
    with open(os.path.abspath(__file__), 'rb') as f:
        h.update(f.read())
    cache = os.path.join(vlib.BUILD, 'c15_shape-%s.json' % h.hexdigest()[:16])
    if os.path.exists(cache):
        with open(cache) as f:
            r = json.load(f)
    else:
        work = os.path.join(vlib.BUILD, 'c15_shape')
        os.makedirs(work, exist_ok=True)
        tu = os.path.join(work, 'tu-%d.cpp' % os.getpid())
        with open(tu, 'w') as f:
            f.write(SHAPE_TU)
        rc, so, se = vlib.sh(['clang++-14', '-std=gnu++17', '-fsyntax-only', '-I' + inc, '-D' + vlib.GUARD, '-DNDEBUG', '-Xclang',
                              '-ast-dump=json', '-Xclang', '-ast-dump-filter=osmium::index', tu], timeout=300)
        os.remove(tu)
        if rc != 0:
            return 'clang failed: ' + se[-600:]
        r = sk_extract(_sk_load(so), SHAPE_CLASSES)
        tmp = cache + '.tmp%d' % os.getpid()
        with open(tmp, 'w') as f:
            json.dump(r, f)
        os.rename(tmp, cache)
    lines = ['/- GENERATED by tools/props/c15.py from /repo/include on every run (clang typed AST of index/relations_map.hpp and',
             '   index/id_set.hpp -> normalised statement sequences: one string per statement, `if c` … `else` … `endif`,',
             '   `for x in r` … `endfor`; implicit casts / temporaries / comments / layout removed; `this->` dropped; NDEBUG) — do not edit.',
             '   Core-only. -/', 'namespace Osmium.Generated.C15Shape', '']
    for label in SHAPE_CLASSES:
        rec = r.get(label) or {'fields': ['<missing>'], 'methods': {}}
        lines += ['/-- the data members of `%s%s` -/' % (SHAPE_CLASSES[label][0], '<%s>' % ', '.join(SHAPE_CLASSES[label][1]) if SHAPE_CLASSES[label][1] else ''),
                  'def %s_fields : List String := [%s]' % (label, ', '.join(_lean_str(x) for x in rec['fields'])), '']
    for label, m in SHAPE_METHODS:
        body = (r.get(label) or {'methods': {}})['methods'].get(m)
        if body is None:
            body = ['<missing>']
        lines += ['def %s_%s : List String := [' % (label, m)] + [',\n'.join('  ' + _lean_str(x) for x in body) + ']', '']
    lines += ['end Osmium.Generated.C15Shape', '']
    vlib.write_if_changed(os.path.join(vlib.LEAN, 'Osmium', 'Generated', 'C15Shape.lean'), '\n'.join(lines))
    ctx.count('shape-tie:methods', len(SHAPE_METHODS))
    return None


# ---------------------------------------------------------------------------------------------

def split_mon(line):
    """'result !tag1 !tag2' -> ('result', ['tag1', 'tag2'])"""
    if ' !' not in line:
        return line, []
    parts = line.split(' !')
    return parts[0], parts[1:]


def run_bin(binary, ops, timeout=600):
    p = subprocess.run([binary], input='\n'.join(ops) + '\n', stdout=subprocess.PIPE, stderr=subprocess.PIPE,
                       text=True, timeout=timeout)
    out = p.stdout.split('\n')
    if out and out[-1] == '':
        out.pop()
    return p.returncode, out, p.stderr


def still_fails(binary, ops, tag):
    try:
        rc, out, _ = run_bin(binary, ops, timeout=120)
    except subprocess.TimeoutExpired:
        return False
    if tag == '<crash>':
        return rc != 0 and len(out) == len(ops) - 1      # dies in the last op
    if rc != 0 or len(out) != len(ops):
        return False
    return tag in split_mon(out[-1])[1]


def minimise(binary, ops, tag, budget_s=45, max_trials=400):
    """delta debugging: shortest sub-script (keeping the last op) on which the harness still reports
    the monitor tag at its last line"""
    t0 = time.time()
    trials = 0
    cur = list(ops)
    n = 2
    while len(cur) > 2:
        body = cur[:-1]
        chunk = max(1, len(body) // n)
        removed = False
        i = 0
        while i < len(body):
            if time.time() - t0 > budget_s or trials >= max_trials:
                return cur
            cand = body[:i] + body[i + chunk:] + [cur[-1]]
            trials += 1
            if cand and len(cand) < len(cur) and still_fails(binary, cand, tag):
                cur = cand
                body = cur[:-1]
                removed = True
            else:
                i += chunk
        if not removed:
            if chunk == 1:
                break
            n = min(len(body), n * 2)
    return cur


class Script:
    def __init__(self, name, binary_key, ops, kind):
        self.name = name
        self.bin = binary_key
        self.ops = ops
        self.kind = kind


def classify_known(script, idx, tag):
    """stable key if the monitor hit is one of the known findings, else None"""
    op = script.ops[idx].split()
    if tag == 'iterate' and op[0] == 'D' and op[1] == '32':
        cb = int(op[2])
        top = (1 << 32) - chunk_ids(cb)
        touched = False
        for l in script.ops[:idx]:
            f = l.split()
            if f[:3] != op[:3]:
                continue
            if f[3] == 'clear':
                touched = False
            elif f[3] in ('set', 'unset', 'cas') and int(f[4]) >= top:
                touched = True
        if touched:
            return KEY_F2
    if tag == 'lookup' and op[:2] == ['R', 'look'] and int(op[3]) > MAX32:
        all32 = True
        for l in script.ops[:idx]:
            f = l.split()
            if f[0] == 'R' and f[1] == 'reset':
                all32 = True
            elif f[0] == 'R' and f[1] == 'add' and (int(f[2]) > MAX32 or int(f[3]) > MAX32):
                all32 = False
        if all32:
            return KEY_F3
    return None


def run(ctx):
    rng = ctx.rng
    quick = ctx.tier == 'quick'
    ctx.rule = ('one case = one self-contained op script (history) on one container; distinct = distinct script texts. '
                'IdSetDense: T in {uint32,uint64} x chunk_bits in {22,8,4}, ids around chunk/byte boundaries, around 2^32 (uint64), '
                'just below and inside the top chunk (uint32); IdSetSmall; RelationsMapStash with all-32/mixed/all-64 pairs, the three '
                'builders, probes incl. keys = recorded key + 2^32; ItemStash short histories with stale-handle probes and long '
                'histories in which add_item collects automatically (>= 10000 removals), default and %d-byte initial buffer.  Exhaustive streams: '
                'one case = one whole history on fresh objects (relation maps: every add() sequence up to length 4/5 over a 3-4 id alphabet; '
                'IdSetSmall: every set() sequence x merge partner; IdSetDense: every set/unset/cas/copy sequence up to length 3/4, counted as trivial)'
                % SMALL_IBS)
    ctx.assumptions += [
        'uint64 id sets are only driven up to ids slightly above 2^32 (the real class allocates one pointer per chunk id); '
        'the model and the theorems cover all ids',
        'chunk_bits 4 scripts keep ids below 2^20 for the same reason',
        'ItemStash preconditions (valid, non-removed handle) are respected by construction: the harness answers `ub` from its '
        'own handle->content map without calling the class, the model from the asserts of get_item_offset',
    ]
    ctx.trusted += ['std::sort/std::unique/std::equal_range/std::set_union replaced by their specifications in the model '
                    '(List.mergeSort + adjacent dedup, dropWhile/takeWhile on a partitioned range)',
                    'harness reads ItemStash::m_buffer/m_index through `#define private public` (observation only)',
                    'shape tie (Generated/C15Shape.lean, `src_shape_*`): the normalising printer of clang\'s AST in tools/props/c15.py; the reading '
                    'of a statement sequence such as sort; unique; erase as the model function is by inspection (std algorithms by their specification)']

    # ---- 1. proofs ---------------------------------------------------------------------------
    err = regen_shape(ctx)
    if err:
        ctx.violation('shape-extraction-failed', 'the statement sequences of the container methods could not be read off the source: ' + err[:800],
                      {'kind': 'translator-failed', 'stderr': err}, found_input=False)
    proof_ok = ctx.proof_stage(exes=['model_c15'])

    # ---- 2. harness builds ---------------------------------------------------------------------
    bins = {}
    for key, flags in (('c15', []), ('c15s', ['-DOSMIUM_VERIF_STASH_INITIAL_BUFFER_SIZE=%d' % SMALL_IBS])):
        b, err = vlib.build_cpp(key, ['c15.cpp'], asan=True, ndebug=True, flags=flags)
        if b is None:
            ctx.violation('harness-build', 'harness does not compile against the current tree: ' + err[-800:],
                          {'kind': 'harness-build', 'stderr': err}, found_input=False)
            return
        bins[key] = b
    model_bin = ctx.model_exe('model_c15')

    # ---- replay mode -----------------------------------------------------------------------------
    if getattr(ctx, 'replay', None):
        with open(ctx.replay) as f:
            rp = json.load(f)
        ops = rp.get('ops') or []
        bkey = rp.get('binary', 'c15')
        rc, impl, se = run_bin(bins[bkey], ops)
        rcm, model, _ = run_bin(model_bin, ops)
        for i, o in enumerate(ops):
            a = impl[i] if i < len(impl) else '<missing>'
            m = model[i] if i < len(model) else '<missing>'
            vlib.log('%-40s impl: %-40s model: %s' % (o[:40], a[:80], m[:80]))
        bad = rc != 0 or any(split_mon(l)[1] for l in impl) or [split_mon(l)[0] for l in impl] != model
        if bad:
            ctx.violation(rp.get('key', 'replay'), 'replay still fails: ' + rp.get('what', ''), {'kind': 'replay', 'ops': ops, 'binary': bkey})
        return

    # ---- 2b. exhaustive small histories (own rng fork: the script streams below are unchanged) -------------
    ex_lines = exhaustive_stage(ctx, bins, model_bin if ctx.exe_build_ok else None, quick)

    # ---- 3. scripts ----------------------------------------------------------------------------------
    scripts = []
    cdir = os.path.join(vlib.ROOT, 'corpus', 'C15')
    if os.path.isdir(cdir):
        for fn in sorted(os.listdir(cdir)):
            if fn.endswith('.ops'):
                with open(os.path.join(cdir, fn)) as f:
                    lines = [l.strip() for l in f if l.strip() and not l.startswith('#')]
                bkey = 'c15s' if fn.startswith('small-') else 'c15'
                scripts.append(Script('corpus/' + fn, bkey, lines, 'corpus'))
    mult = 1 if quick else 10
    for (w, cb) in DENSE:
        if cb == 22:
            # quick: uint32 is covered by the `top` script, uint64 by the script around 2^32
            plan = [('low', 0 if quick else mult, 40, 1), ('high', 1 * mult if w == 64 else 0, 30, 1)]
        else:
            plan = [('low', 40 * mult, 60, 6), ('high', 2 * mult if cb == 8 else 0, 30, 2)]
        if w == 32 and cb in (22, 8):
            plan.append(('top', 1 * mult, 25, 1 if cb == 22 else 3))
        for profile, n, nops, max_iter in plan:
            if w == 64 and cb == 4 and profile == 'high':
                continue
            for i in range(n):
                scripts.append(Script('dense-%d-%d-%s-%d' % (w, cb, profile, i), 'c15',
                                      gen_dense(rng, w, cb, profile, nops, max_iter), 'dense:%d:%d:%s' % (w, cb, profile)))
    for i in range(60 * mult):
        scripts.append(Script('small-set-%d' % i, 'c15', gen_small(rng, 40), 'idsetsmall'))
    for i in range(80 * mult):
        mode = ['all32', 'mixed', 'all64', 'mixed'][i % 4]
        scripts.append(Script('rel-%s-%d' % (mode, i), 'c15', gen_rel(rng, mode, rng.below(26), probe_wide=(mode != 'all32' or i % 8 == 0)),
                              'relmap:' + mode))
    for i in range(60 * mult):
        bkey = 'c15s' if i % 2 else 'c15'
        scripts.append(Script('stash-short-%d' % i, bkey, gen_stash_short(rng, SMALL_IBS if i % 2 else DEFAULT_IBS, 120), 'stash:short'))
    for i in range(1 if quick else 4):
        ops, ngc = gen_stash_long(rng, SMALL_IBS, 1 if quick else 2)
        scripts.append(Script('stash-long-small-%d' % i, 'c15s', ops, 'stash:long'))
        ctx.count('generator:stash-long-expected-auto-gc', ngc)
    if not quick:
        # live items in (4*removed, 5*removed]: the `removed * 5 < items` clause of should_gc decides
        ops, ngc = gen_stash_long(rng, SMALL_IBS, 1, keep_live=40000 + 1 + rng.below(9990))
        scripts.append(Script('stash-policy', 'c15s', ops, 'stash:long'))
        ctx.count('generator:stash-long-expected-auto-gc', ngc)
    for i in range(0 if quick else 3):
        ops, ngc = gen_stash_long(rng, DEFAULT_IBS, 1)
        scripts.append(Script('stash-long-default-%d' % i, 'c15', ops, 'stash:long'))
        ctx.count('generator:stash-long-expected-auto-gc', ngc)

    # ---- run: one process per binary for the implementation, one for the model -------------------------
    per_bin = {}
    for s in scripts:
        per_bin.setdefault(s.bin, []).append(s)
        ctx.note_case('\n'.join(s.ops))
        ctx.count('scripts:' + s.kind)
    for s in scripts[:2] + scripts[len(scripts) // 2:len(scripts) // 2 + 2]:
        ctx.sample(' ; '.join(s.ops[:12]) + (' ; ...' if len(s.ops) > 12 else ''))
    total_ops = 0
    crashed = False
    from concurrent.futures import ThreadPoolExecutor

    def job(binary, ops, timeout):
        try:
            return run_bin(binary, ops, timeout=timeout)
        except subprocess.TimeoutExpired:
            return -9, [], 'timeout'

    futures = {}
    with ThreadPoolExecutor(max_workers=4) as ex:
        for bkey, ss in per_bin.items():
            all_ops = [o for s in ss for o in s.ops]
            futures[bkey] = (ex.submit(job, bins[bkey], all_ops, 1800),
                             ex.submit(job, model_bin, all_ops, 3000) if ctx.exe_build_ok else None)
    for bkey, ss in per_bin.items():
        all_ops = [o for s in ss for o in s.ops]
        total_ops += len(all_ops)
        rc, impl, se = futures[bkey][0].result()
        model = None
        if futures[bkey][1] is not None:
            rcm, model, sem = futures[bkey][1].result()
        pos = 0
        for s in ss:
            n = len(s.ops)
            s.impl = impl[pos:pos + n]
            s.model = model[pos:pos + n] if model is not None else None
            pos += n
        if rc != 0 or len(impl) != len(all_ops):
            crashed = True
            # the script in which the harness died (output is line-buffered): rerun it alone
            pos = 0
            for s in ss:
                if pos <= len(impl) < pos + len(s.ops):
                    try:
                        rc1, out1, se1 = run_bin(bins[bkey], s.ops, timeout=600)
                    except subprocess.TimeoutExpired:
                        rc1, out1, se1 = -9, [], 'timeout (hang)'
                    if rc1 != 0 or len(out1) != len(s.ops):
                        cut = s.ops[:len(out1) + 1]
                        if rc1 != -9:
                            cut = minimise(bins[bkey], cut, '<crash>')
                            rc1, out1, se1 = run_bin(bins[bkey], cut, timeout=600)
                        first = [l for l in se1.split('\n') if 'ERROR' in l or 'runtime error' in l or 'Assertion' in l]
                        ctx.violation('crash:' + ' / '.join(cut[-3:])[:150],
                                      'the real code crashes (rc=%s; %s) on the last op of this history (%d ops): %s'
                                      % (rc1, (first or [se1.strip()[:200]])[0][:300], len(cut), ' ; '.join(cut[-8:])[:1200]),
                                      {'kind': 'counterexample', 'ops': cut, 'binary': bkey, 'stderr': se1[-3000:],
                                       'replay': 'python3 tools/check.py C15 --replay <this file>'})
                    else:
                        ctx.violation('harness-crash:' + s.name, 'harness exited %s in the combined run but not on script %s alone: %s'
                                      % (rc, s.name, se[-400:]), {'kind': 'harness-crash', 'ops': s.ops, 'binary': bkey, 'stderr': se[-3000:]},
                                      found_input=False)
                    break
                pos += len(s.ops)
            else:
                ctx.violation('harness-crash', 'harness exited %s: %s' % (rc, se[-400:]), {'kind': 'harness-crash', 'stderr': se[-3000:]},
                              found_input=False)
    ctx.extra['ops_total'] = total_ops + ex_lines
    ctx.extra['ops_exhaustive_streams'] = ex_lines
    ctx.evaluations = total_ops + ex_lines
    if crashed:
        return

    # ---- 4. monitors (the property on the implementation) ------------------------------------------------
    known_seen = {}
    known_all = []
    unknown = []
    for s in scripts:
        for i, l in enumerate(s.impl):
            res, tags = split_mon(l)
            f = s.ops[i].split()
            ctx.count('op:%s:%s' % (f[0], f[3] if f[0] == 'D' else f[1]))
            if f[0] == 'D' and f[3] in ('cas', 'get'):
                ctx.count('branch:dense-%s=%s' % (f[3], res))
            elif f[0] == 'D' and f[3] == 'iter':
                n = int(res.split()[0]) if res.split() and res.split()[0].isdigit() else -1
                ctx.count('branch:dense-iter-%d-%d-len-%s' % (int(f[1]), int(f[2]), '0' if n == 0 else '1-4' if n < 5 else '5+'))
            elif f[0] == 'R' and f[1] == 'look':
                n = int(res.split()[0]) if res.split()[0].isdigit() else -1
                ctx.count('branch:relmap-look-len-%s' % ('0' if n == 0 else '1' if n == 1 else '2+'))
            elif f[0] == 'I' and res == 'ub':
                ctx.count('branch:stash-precondition-violated')
            elif f[0] == 'I' and f[1] == 'add' and i > 0:
                prev = split_mon(s.impl[i - 1])[0].split()
                cur = res.split()
                pf = s.ops[i - 1].split()
                if pf[:2] == ['I', 'add'] and len(prev) == 5 and len(cur) == 5:
                    if int(cur[2]) < int(prev[2]):
                        ctx.count('branch:stash-automatic-gc')
                    if int(cur[4]) > int(prev[4]):
                        ctx.count('branch:stash-buffer-grew')
                elif pf[:2] == ['I', 'rm'] and len(cur) == 5 and len(prev) == 3 and int(cur[2]) < int(prev[2]):
                    ctx.count('branch:stash-automatic-gc')
            for t in tags:
                k = classify_known(s, i, t)
                if k:
                    known_seen.setdefault(k, (s, i, t))
                    known_all.append((s, i, t))
                else:
                    unknown.append((s, i, t))
    for k, (s, i, t) in known_seen.items():
        cut = s.ops[:i + 1]
        m = minimise(bins[s.bin], cut, t, budget_s=15)
        what = {KEY_F2: 'IdSetDense<uint32_t>: once the top chunk is allocated last() wraps to 0 and iteration delivers nothing '
                        '(DESIGN.md F2, fixed by /repo 7c7de5b — regression): ',
                KEY_F3: 'RelationsMapIndex built from 32-bit-only pairs: for_each(k) with k >= 2^32 narrows k to 32 bits and reports '
                        'the entries of k mod 2^32 (DESIGN.md F3, fixed by /repo 9f963df — regression): '}[k]
        ctx.violation(k, what + ' ; '.join(m), {'kind': 'counterexample', 'ops': m, 'binary': s.bin, 'monitor': t,
                                                'replay': 'python3 tools/check.py C15 --replay <this file>'})
    done = set()
    for s, i, t in unknown:
        if (s.name, t) in done or len(done) >= 4:
            continue
        done.add((s.name, t))
        cut = s.ops[:i + 1]
        m = minimise(bins[s.bin], cut, t)
        rcx, outx, _ = run_bin(bins[s.bin], m)
        ctx.violation('monitor:%s:%s' % (t, ' / '.join(m)[:160]),
                      'the implementation disagrees with the set/map model (monitor `%s`) on the history: %s  -> last output `%s`'
                      % (t, ' ; '.join(m)[:1500], outx[-1] if outx else ''),
                      {'kind': 'counterexample', 'ops': m, 'binary': s.bin, 'monitor': t, 'script': s.name,
                       'replay': 'python3 tools/check.py C15 --replay <this file>'})

    # ---- 5. correspondence diff ------------------------------------------------------------------------
    if not ctx.exe_build_ok:
        if proof_ok:
            ctx.violation('model-driver-build', 'model driver does not build', {'kind': 'broken-correspondence'}, found_input=False)
        return
    ndiff = 0
    for s in scripts:
        impl = [split_mon(l)[0] for l in s.impl]
        dis = ctx.diff_streams('c15-' + s.kind.split(':')[0], s.ops, impl, s.model)
        if dis:
            ndiff += 1
            has_mon = any(u[0] is s for u in unknown) or any(v[0] is s for v in known_all)
            if not has_mon and ndiff <= 3:
                i, op, a, b = dis[0]
                ctx.violation('correspondence:%s:%s' % (s.kind, op[:100]),
                              'model and implementation disagree in script %s at op %d `%s`: impl=`%s` model=`%s` (no property monitor hit in this script)'
                              % (s.name, i, op[:100], a[:200], b[:200]),
                              {'kind': 'broken-correspondence', 'ops': s.ops[:i + 1], 'binary': s.bin, 'first': [list(d) for d in dis[:5]]},
                              found_input=False)
