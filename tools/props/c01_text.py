"""C01, text-format part (OPL + XML): write -> read round trip (DESIGN.md §3 C01).

proof stage (done by the dispatcher c01.py): lean/Osmium/Props/C01Text.lean
run_part:
  (a) byte-exact: real Writer (harness/text.cpp, op `wr`) vs model writers (lean/Driver/Text.lean) on
      type-directed generated object sequences x option vectors (OPL: metadata subsets, locations_on_ways;
      XML: metadata subsets, history / force_visible_flag, locations_on_ways, change files);
  (b) cross: the bytes written by the real Writer are read by the model reader, the bytes written by the
      model are read by the real Reader; both must give `project opts D` (computed here, independently,
      from the generator's own object representation); mutated OPL lines go through both parsers (error
      classes must agree); the documents also go through the real expat and the model's event
      semantics (ExpatContract tie);
  (c) monitors on the implementation alone: real write -> real read over options x file compression
      none/gzip/bzip2 must give `project opts D`.
Known-bad corners of the domain are probed separately with stable violation keys.
"""
import binascii
import os

import vlib

MODULES = ['Osmium.Props.C01Text']
EXES = ['model_text']
RULE = ('text part: each case = (format, option vector, object sequence) [+ compression for the monitor]; sequences are '
        'type-directed random mixes of nodes/ways/relations/changesets with boundary ids/uids/versions/timestamps, every '
        'escape class in every string position and 0/1/many tags, nodes, members, comments; distinct = distinct op lines, '
        'non-trivial = at least one object')

UNDEF = 2147483647
I64MAX = 2 ** 63 - 1


def hx(b):
    return binascii.hexlify(bytes(b)).decode() or '-'


# ------------------------------------------------------------------------------------------ generators
IDS = [1, -1, 2, -2, 2 ** 31, -2 ** 31, 2 ** 32, -2 ** 32, 2 ** 63 - 1, 2 ** 63 - 2, -2 ** 63 + 1, 0, 17, 123456789012]
U31 = [0, 1, 2, 2 ** 31 - 1, 7, 1000]
U32 = [0, 1, 2 ** 32 - 2, 12345, 2 ** 31]
TS = [0, 1, 2 ** 32 - 1, 1700000000, 86399, 951782400, 4107542400]
ESC = [' ', ',', '=', '@', '%', '\n', '\t', '"', "'", '<', '>', '&', '\r', '#', ';', '/', '\\', '+', '-', '0', 'a', 'Z', '~', '\x7f']
NONASCII = ['\u00e9', '\u0080', '\u07ff', '\u0800', '\u20ac', '\ud7ff', '\ue000', '\ufffd', '\U00010000', '\U0001f680', '\U000fffff']
C0 = ['\x01', '\x02', '\x1f', '\x0b']


def gen_string(rng, fmt, maxlen=12):
    """valid UTF-8 without NUL, <= 1024 bytes; XML: only XML Chars"""
    k = rng.below(10)
    if k == 0:
        return b''
    if k == 1:
        n = 1
    elif k == 2:
        n = rng.choice([200, 255, 256, 340])      # long: up to 1024 bytes with 3-byte characters
    else:
        n = 1 + rng.below(maxlen)
    out = []
    for _ in range(n):
        c = rng.below(8)
        if c < 3:
            out.append(rng.choice(ESC))
        elif c < 5:
            out.append(chr(0x61 + rng.below(26)))
        elif c < 7:
            ch = rng.choice(NONASCII)
            out.append(ch)
        else:
            if fmt == 'opl' and rng.chance(1, 2):
                out.append(rng.choice(C0))
            elif rng.chance(1, 3):
                out.append(rng.choice(['\U0010ffff', '\U00100000', '\U00101234']))
            else:
                out.append(chr(0x20 + rng.below(0x5f)))
    s = ''.join(out).encode('utf-8')
    while len(s) > 1024:
        out.pop()
        s = ''.join(out).encode('utf-8')
    return s


def gen_loc(rng, allow_undef=True):
    k = rng.below(6)
    if k == 0 and allow_undef:
        return (UNDEF, UNDEF)
    if k == 1:
        return (rng.choice([-1800000000, 1800000000, 0, 1, -1, 10000000, 99999999, 100000000, 123456789]),
                rng.choice([-900000000, 900000000, 0, 1, -1, 10000000, 5, 70, 900]))
    return (rng.below(3600000001) - 1800000000, rng.below(1800000001) - 900000000)


def gen_tags(rng, fmt):
    n = rng.choice([0, 0, 1, 1, 2, 3, 6])
    return [(gen_string(rng, fmt), gen_string(rng, fmt)) for _ in range(n)]


def gen_meta(rng, fmt):
    uid = rng.choice(U31 + [rng.below(2 ** 31)])
    return {'id': rng.choice(IDS + [rng.below(2 ** 40) - 2 ** 39]), 'version': rng.choice(U31 + [rng.below(2 ** 31)]),
            'visible': rng.chance(3, 4), 'timestamp': rng.choice(TS + [rng.below(2 ** 32)]),
            'changeset': rng.choice(U32 + [rng.below(2 ** 32 - 1)]), 'uid': uid,
            'user': gen_string(rng, fmt), 'tags': gen_tags(rng, fmt)}


def gen_object(rng, fmt, kinds='nwrc', with_undef_refs=True):
    k = rng.choice(kinds)
    if k == 'n':
        o = gen_meta(rng, fmt)
        o['k'] = 'n'
        o['loc'] = gen_loc(rng)
        return o
    if k == 'w':
        o = gen_meta(rng, fmt)
        o['k'] = 'w'
        n = rng.choice([0, 1, 2, 3, 8])
        o['nodes'] = [(rng.choice(IDS + [rng.below(10 ** 10)]), gen_loc(rng, with_undef_refs)) for _ in range(n)]
        return o
    if k == 'r':
        o = gen_meta(rng, fmt)
        o['k'] = 'r'
        n = rng.choice([0, 1, 2, 5])
        o['members'] = [(1 + rng.below(3), rng.choice(IDS + [rng.below(10 ** 10)]), gen_string(rng, fmt)) for _ in range(n)]
        return o
    uid = rng.choice([0, 0, 1, 2 ** 31 - 1, rng.below(2 ** 31)])
    ncm = rng.choice([0, 1, 3])
    return {'k': 'c', 'id': rng.choice(U32 + [rng.below(2 ** 32 - 1)]), 'created': rng.choice(TS), 'closed': rng.choice(TS),
            'num_changes': rng.choice(U32), 'uid': uid, 'user': b'' if uid == 0 else gen_string(rng, fmt),
            'bl': gen_loc(rng), 'tr': gen_loc(rng), 'tags': gen_tags(rng, fmt),
            'comments': [(rng.choice(TS), rng.choice(U31), gen_string(rng, fmt), gen_string(rng, fmt, 30)) for _ in range(ncm)],
            'num_comments': rng.choice([ncm, ncm, 0, 7])}


def dloc(l):
    return '%d,%d' % l


def dtags(ts):
    return ''.join(' T%s=%s' % (hx(k), hx(v)) for k, v in ts)


def dump(o):
    """the canonical dump (Osmium.Osm.dump / harness/osm_dump.hpp)"""
    if o['k'] == 'c':
        return ('c %d a%d z%d n%d m%d u%d %s B%s;%s%s' % (o['id'], o['created'], o['closed'], o['num_changes'], o['num_comments'],
                                                        o['uid'], hx(o['user']), dloc(o['bl']), dloc(o['tr']), dtags(o['tags']))
                + ''.join(' C%d:%d:%s:%s' % (d, u, hx(us), hx(t)) for d, u, us, t in o['comments']))
    s = '%s %d v%d %s t%d c%d u%d %s%s' % (o['k'], o['id'], o['version'], 'V' if o['visible'] else 'D', o['timestamp'],
                                          o['changeset'], o['uid'], hx(o['user']), dtags(o['tags']))
    if o['k'] == 'n':
        return s + ' L' + dloc(o['loc'])
    if o['k'] == 'w':
        return s + ''.join(' N%d@%s' % (r, dloc(l)) for r, l in o['nodes'])
    return s + ''.join(' M%d:%d:%s' % (t, r, hx(role)) for t, r, role in o['members'])


def dump_header(gen, hist, boxes):
    return 'h %s %s%s' % (hx(gen), 'H' if hist else 'S', ''.join(' B%s;%s' % (dloc(a), dloc(b)) for a, b in boxes))


class Opts:
    def __init__(self, md=31, low=0, hist=0, osc=0, fvf=0):
        self.md, self.low, self.hist, self.osc, self.fvf = md, low, hist, osc, fvf

    def __str__(self):
        return 'md=%d,low=%d,hist=%d,osc=%d,fvf=%d' % (self.md, self.low, self.hist, self.osc, self.fvf)


def both_defined(l):
    return l[0] != UNDEF and l[1] != UNDEF


def project(fmt, op, o):
    """independent statement of what must come back: every field the options drop is reset to its default"""
    o = dict(o)
    if o['k'] == 'c':
        if fmt == 'opl':
            o['comments'] = []
        else:
            if o['uid'] == 0:
                o['user'] = b''
        return o
    md = op.md
    if not md & 1:
        o['version'] = 0
    if not md & 2:
        o['timestamp'] = 0
    if not md & 4:
        o['changeset'] = 0
    if not md & 8:
        o['uid'] = 0
    if not md & 16:
        o['user'] = b''
    if fmt == 'opl':
        if md == 0:
            o['visible'] = True
    else:
        if not (op.osc or op.hist or op.fvf):
            o['visible'] = True
    if o['k'] == 'w':
        o['nodes'] = [(r, l if (op.low and both_defined(l)) else (UNDEF, UNDEF)) for r, l in o['nodes']]
    if o['k'] == 'n' and not both_defined(o['loc']):
        o['loc'] = (UNDEF, UNDEF)
    return o


def norm_box(b):
    """osmium::Box().extend(bl).extend(tr)"""
    cur = ((UNDEF, UNDEF), (UNDEF, UNDEF))
    for l in b:
        if -1800000000 <= l[0] <= 1800000000 and -900000000 <= l[1] <= 900000000:
            if both_defined(cur[0]):
                cur = ((min(cur[0][0], l[0]), min(cur[0][1], l[1])), (max(cur[1][0], l[0]), max(cur[1][1], l[1])))
            else:
                cur = (l, l)
    return cur


def expected(fmt, op, gen, boxes, objs):
    if fmt == 'opl':
        h = dump_header(b'', False, [])
    else:
        h = dump_header(gen, bool(op.osc), [norm_box(b) for b in boxes])
    return 'ok ' + h + ''.join(' | ' + dump(project(fmt, op, o)) for o in objs)


def op_objects(gen, boxes, objs):
    return '/ ' + dump_header(gen, False, boxes) + ''.join(' / ' + dump(o) for o in objs)


def option_vectors(rng, fmt, quick):
    mds = [31, 0, 1, 2, 4, 8, 16, 30, 27, 23, 15, 5, 26] if quick else list(range(32))
    out = []
    if fmt == 'opl':
        for md in mds:
            for low in (0, 1):
                out.append(Opts(md, low))
    else:
        for md in mds:
            for (hist, osc, fvf) in ((0, 0, 0), (1, 0, 0), (0, 1, 0), (0, 0, 1), (1, 1, 0)):
                for low in (0, 1):
                    out.append(Opts(md, low, hist, osc, fvf))
    return out


def gen_sequence(rng, fmt, op, n):
    kinds = 'nwr' if (fmt == 'xml' and op.osc) else 'nnwwrrc'
    objs = [gen_object(rng, fmt, kinds, True) for _ in range(n)]
    if fmt == 'xml':
        for o in objs:
            # 2^32-1 / INT64_MAX in XML: findings xml-u32-max / xml-id-int64-max (fixed in /repo 5d56c57); the shared
            # Conv model of C13 decides what the MODEL reader does with them, so they are kept out of the
            # model-compared streams and probed on the implementation alone (below)
            for f in ('changeset', 'id', 'num_changes', 'num_comments'):
                if f in o and o[f] == 2 ** 32 - 1 and (o['k'] == 'c' or f == 'changeset'):
                    o[f] = 2 ** 32 - 2
    gen = rng.choice([b'gen', b'lib "x" <1&2>', 'gén'.encode()])
    boxes = []
    if fmt == 'xml':
        for _ in range(rng.choice([0, 0, 1, 2])):
            a, b = gen_loc(rng, False), gen_loc(rng, False)
            boxes.append(((min(a[0], b[0]), min(a[1], b[1])), (max(a[0], b[0]), max(a[1], b[1]))))
    return gen, boxes, objs


def mutate(rng, line):
    """small edit of an OPL line (stays NUL-free)"""
    b = bytearray(line)
    alphabet = b' \tvdctiuTxyNMnwr,=@%-.0123456789VDZeE:#a'
    for _ in range(1 + rng.below(2)):
        k = rng.below(4)
        p = rng.below(len(b) + 1)
        if k == 0 and b:
            del b[min(p, len(b) - 1)]
        elif k == 1:
            b.insert(p, rng.choice(alphabet))
        elif k == 2 and b:
            b[min(p, len(b) - 1)] = rng.choice(alphabet)
        else:
            # duplicate a field
            parts = bytes(b).split(b' ')
            if len(parts) > 1:
                q = 1 + rng.below(len(parts) - 1)
                parts.insert(1 + rng.below(len(parts)), parts[q])
                b = bytearray(b' '.join(parts))
    return bytes(b).replace(b'\n', b'').replace(b'\r', b'').replace(b'\x00', b'')


# ------------------------------------------------------------------------------------------ run
def build_harness(ctx):
    hbin, err = vlib.build_cpp('text', ['text.cpp'])
    if hbin is None:
        ctx.violation('text-harness-build', 'harness/text.cpp does not compile against the current tree: ' + err[-600:],
                      {'kind': 'harness-build', 'stderr': err}, found_input=False)
    return hbin


def scratch_dir(tag):
    d = os.path.join(vlib.BUILD, 'text-%s-%d' % (tag, os.getpid()))
    os.makedirs(d, exist_ok=True)
    return d


def cleanup(d):
    for f in os.listdir(d):
        os.remove(os.path.join(d, f))
    os.rmdir(d)


_small = {}


def small_twin_check(ctx, scratch, ops, outs, what):
    """Re-run reading ops with the harness compiled with tiny initial parser buffers (hook
    OSMIUM_VERIF_PARSER_INITIAL_BUFFER_SIZE): buffer capacity is unobservable, so the answers must be
    the same; a raw pointer/reference kept across a buffer growth shows up as a difference."""
    if 'bins' not in _small:
        bins = []
        for size in (64, 200):
            b, err = vlib.build_cpp('text_small%d' % size, ['text.cpp'],
                                    flags=['-DOSMIUM_VERIF_PARSER_INITIAL_BUFFER_SIZE=%d' % size, '-DOSMIUM_VERIF_PBF_INITIAL_BUFFER_SIZE=%d' % size])
            if b is None:
                ctx.violation('text-harness-build-small', 'harness/text.cpp (small initial buffers) does not compile: ' + err[-600:],
                              {'kind': 'harness-build', 'stderr': err}, found_input=False)
                bins = []
                break
            import shutil
            local = os.path.join(scratch, 'text-harness-small%d' % size)
            shutil.copy2(b, local)
            bins.append((size, local))
        _small['bins'] = bins
    idx = [i for i, o in enumerate(ops) if o.split(' ', 1)[0] in ('rd', 'rt')]
    if not idx:
        return
    for size, sbin in _small['bins']:
        rops = [ops[i] for i in idx]
        rc, out, se = ctx.run_lines([sbin, scratch], '\n'.join(rops) + '\n')
        ctx.count('small-buffer-twin:%s:%d' % (what, size), len(rops))
        if rc != 0 or len(out) != len(rops):
            k = min(len(out), len(rops) - 1)
            ctx.violation('buffer-size-dependent:text-crash', 'text harness built with %d-byte initial parser buffers exited %d at op `%s`: %s'
                          % (size, rc, rops[k][:300], se[-400:]), {'kind': 'counterexample', 'op': rops[k][:20000], 'stderr': se[-2000:]})
            continue
        for i, a in zip(idx, out):
            if a != outs[i]:
                ctx.violation('buffer-size-dependent:text', 'the result of reading depends on the initial size of the parser buffer (%d bytes vs default): `%s` -> `%s` but `%s`'
                              % (size, ops[i][:200], a[:300], outs[i][:300]),
                              {'kind': 'counterexample', 'op': ops[i][:20000], 'small': a[:4000], 'default': outs[i][:4000],
                               'replay': 'feed the op to harness/text.cpp built with -DOSMIUM_VERIF_PARSER_INITIAL_BUFFER_SIZE=%d' % size})
                break


def run_both(ctx, hbin, scratch, ops):
    """-> (impl lines, model lines or None)"""
    text = '\n'.join(ops) + '\n'
    rc, impl, se = ctx.run_lines([hbin, scratch], text)
    if rc != 0 or len(impl) != len(ops):
        ctx.violation('text-harness-crash', 'harness exited %d after %d of %d ops: %s' % (rc, len(impl), len(ops), se[-400:]),
                      {'kind': 'harness-crash', 'stderr': se[-2000:], 'op': ops[min(len(impl), len(ops) - 1)][:2000]}, found_input=False)
        return None, None
    small_twin_check(ctx, scratch, ops, impl, 'stream')
    model = None
    if ctx.exe_build_ok:
        rc, model, se = ctx.run_lines([ctx.model_exe('model_text')], text)
        if rc != 0 or len(model) != len(ops):
            ctx.violation('text-model-crash', 'model driver exited %d: %s' % (rc, se[-400:]), {'kind': 'broken-correspondence'}, found_input=False)
            model = None
    return impl, model


def first_diff(a, b):
    pa, pb = a.split(' | '), b.split(' | ')
    for i in range(max(len(pa), len(pb))):
        x = pa[i] if i < len(pa) else '<missing>'
        y = pb[i] if i < len(pb) else '<missing>'
        if x != y:
            return i, x, y
    return -1, '', ''


def field_key(x, y):
    """which dump field differs first -> stable key fragment"""
    tx, ty = x.split(), y.split()
    for i in range(max(len(tx), len(ty))):
        a = tx[i] if i < len(tx) else ''
        b = ty[i] if i < len(ty) else ''
        if a != b:
            kind = tx[0] if tx else '?'
            f = (a or b)[:1]
            if i == 1:
                f = 'id'
            elif i == 7 and kind != 'c':
                f = 'user'
            return '%s.%s' % (kind, f)
    return '?'


def run_part(ctx):
    rng = ctx.rng
    quick = ctx.tier == 'quick'
    ctx.assumptions += ['expat satisfies ExpatContract (XML 1.0 tokenisation, reference decoding, attribute-value normalisation); '
                        'checked on every generated document by running the real expat against the event semantics of the model',
                        'gzip / bzip2 are inverse pairs (file compression is outside the model; monitored on the implementation)',
                        'text domain: locations undefined or valid (as_string / valid() gate them), '
                        'XML strings of XML Chars only, no changesets inside change files']
    ctx.trusted += ['harness/text.cpp + lean/Driver/Text.lean (object syntax = canonical dump of harness/osm_dump.hpp / Osmium.Osm.dump)']
    hbin = build_harness(ctx)
    if hbin is None:
        return
    scratch = scratch_dir('c01')
    try:
        _run(ctx, rng, quick, hbin, scratch)
    finally:
        cleanup(scratch)


def _run(ctx, rng, quick, hbin, scratch):
    cases = []      # (fmt, op, gen, boxes, objs)
    nseq = 3 if quick else 12
    for fmt in ('opl', 'xml'):
        for op in option_vectors(rng, fmt, quick):
            for _ in range(nseq):
                n = rng.choice([0, 1, 1, 2, 4, 9])
                gen, boxes, objs = gen_sequence(rng, fmt, op, n)
                cases.append((fmt, op, gen, boxes, objs))
    # corpus: fixed regression sequences (one op line each: "<fmt> <opts> / h ... / obj ...")
    corpus_ops = []
    cdir = os.path.join(vlib.ROOT, 'corpus', 'C01')
    if os.path.isdir(cdir):
        for f in sorted(os.listdir(cdir)):
            if f.endswith('.ops'):
                with open(os.path.join(cdir, f)) as fh:
                    corpus_ops += [l.strip() for l in fh if l.strip() and not l.startswith('#')]

    # ---------------------------------------------------------------- (a) byte-exact writers
    wr_ops = ['wr %s %s %s' % (fmt, op, op_objects(gen, boxes, objs)) for fmt, op, gen, boxes, objs in cases]
    wr_ops += ['wr ' + l for l in corpus_ops]
    for o, c in zip(wr_ops, cases):
        ctx.note_case(o, nontrivial=bool(c[4]))
        ctx.count('wr:%s' % c[0])
        ctx.count('opts:%s:md=%d' % (c[0], c[1].md))
        for ob in c[4]:
            ctx.count('object:%s:%s' % (c[0], ob['k']))
    ctx.sample(wr_ops[1][:400])
    ctx.sample(wr_ops[len(wr_ops) // 2 + 3][:400])
    impl, model = run_both(ctx, hbin, scratch, wr_ops)
    if impl is None:
        return
    for o, l in zip(wr_ops, impl):
        if not l.startswith('ok'):
            ctx.violation('text-writer-error:%s:%s' % (o.split()[1], l[:40]),
                          'the real Writer reports an error on an in-domain sequence: %s for `%s`' % (l, o[:300]),
                          {'kind': 'counterexample', 'op': o, 'impl': l})
            break
    if model is not None:
        dis = ctx.diff_streams('text-writer-bytes', wr_ops, impl, model)
        if dis:
            i, o, a, b = dis[0]
            fmt = o.split()[1]
            try:
                ba, bb = binascii.unhexlify(a[3:].replace('-', '')), binascii.unhexlify(b[3:].replace('-', ''))
                p = next((k for k in range(min(len(ba), len(bb))) if ba[k] != bb[k]), min(len(ba), len(bb)))
                ctxt = 'impl …%r / model …%r' % (ba[max(0, p - 40):p + 30], bb[max(0, p - 40):p + 30])
            except Exception:
                ctxt = 'impl %s / model %s' % (a[:80], b[:80])
            ctx.violation('text-writer-bytes:' + fmt, 'real %s Writer and model writer produce different bytes (%d cases; first `%s`): %s'
                          % (fmt.upper(), len(dis), o[:200], ctxt),
                          {'kind': 'broken-correspondence', 'stream': 'text-writer-bytes', 'op': o, 'impl': a[:4000], 'model': b[:4000]},
                          found_input=False)

    # ---------------------------------------------------------------- (b) cross reads
    rd_ops, rd_expect, rd_src = [], [], []
    for k, (fmt, op, gen, boxes, objs) in enumerate(cases):
        exp = expected(fmt, op, gen, boxes, objs)
        for who, lines in (('impl', impl), ('model', model)):
            if lines is None or not lines[k].startswith('ok '):
                continue
            if who == 'model' and lines[k] == impl[k]:
                continue            # identical bytes: one read op is enough
            rd_ops.append('rd %s %s %s' % (fmt, op, lines[k][3:]))
            rd_expect.append(exp)
            rd_src.append((who, wr_ops[k]))
    rimpl, rmodel = run_both(ctx, hbin, scratch, rd_ops)
    if rimpl is None:
        return
    for o in rd_ops:
        ctx.note_case(o)
    ctx.count('rd:files', len(rd_ops))
    reported = set()
    for o, exp, (who, wop), ri, rm in zip(rd_ops, rd_expect, rd_src, rimpl, rmodel or [None] * len(rd_ops)):
        fmt = o.split()[1]
        if ri != exp:
            i, x, y = first_diff(ri, exp)
            key = 'text-roundtrip:%s:%s' % (fmt, ('error:' + ri[4:40]) if ri.startswith('err') else field_key(x, y))
            if key not in reported:
                reported.add(key)
                ctx.violation(key, 'a file written by the %s %s writer does not read back (real Reader) as `project opts D`: got `%s`, expected `%s` (writer op `%s`)'
                              % (who, fmt.upper(), (ri if i < 0 else x)[:200], y[:200], wop[:300]),
                              {'kind': 'counterexample', 'write_op': wop, 'read_op': o[:20000], 'got': ri[:4000], 'expected': exp[:4000],
                               'replay': 'feed write_op to the text harness, then `rd` its output'})
        if rm is not None and rm != exp and ri == exp:
            key = 'text-model-reader:%s' % fmt
            if key not in reported:
                reported.add(key)
                i, x, y = first_diff(rm, exp)
                ctx.violation(key, 'the MODEL %s reader does not give `project opts D` on a file the real Reader reads correctly: got `%s`, expected `%s` (`%s`)'
                              % (fmt.upper(), (rm if i < 0 else x)[:200], y[:200], wop[:300]),
                              {'kind': 'broken-correspondence', 'write_op': wop, 'got': rm[:4000], 'expected': exp[:4000]}, found_input=False)
    if rmodel is not None:
        ctx.diff_streams('text-reader-dump', rd_ops, rimpl, rmodel)

    # ---- OPL parser on mutated lines: same object or same error class
    mut_ops = []
    for k, (fmt, op, gen, boxes, objs) in enumerate(cases):
        if fmt != 'opl' or not impl[k].startswith('ok ') or impl[k] == 'ok -':
            continue
        lines = binascii.unhexlify(impl[k][3:]).split(b'\n')
        for l in lines[:3]:
            if l and len(l) < 600:
                for _ in range(2 if quick else 6):
                    mut_ops.append('rd opl md=31 ' + hx(mutate(rng, l) + b'\n'))
    dup_lines = [b'c1 k1 k2', b'c1 x1 x2', b'c1 X1 X2', b'c1 Y1 Y1', b'c1 y1 y1', b'c1 s s', b'c1 e e', b'c1 d1 d1', b'c1 i1 i1', b'c1 u u',
                 b'c1 T T', b'n1 x1 x2 y3', b'n1 y1 y2', b'w1 Nn1,n2 Nn3', b'r1 Mn1@,w2@a Mn3@', b'n1 T Ta=b']
    for kind in (b'n', b'w', b'r'):
        for f in (b'v1', b'dV', b'c1', b't', b'i1', b'ua', b'T'):
            dup_lines.append(kind + b'1 ' + f + b' ' + f)
            dup_lines.append(kind + b'1 ' + f + b' dD ' + f if f != b'dV' else kind + b'1 dV v1 dD')
    other_lines = [b'n1\tv1  dV\t\tx1.5 y2 ', b'#c\n\n\nn2\r\nw3 Nn1x1y2,n2x,n3\rr4 Mn1@a,w2@,r3@%20%', b'n1 x y', b'w5 Nn1xy', b'x1', b'n', b'n1 q',
                   b'n1 Ta', b'n1 Ta=b,', b'r1 Mx1@', b'r1 Mn@', b'r1 Mn1', b'w1 Nn', b'w1 Nn1,', b'w1 N', b'n1 x181 y5', b'n1 x1e9 y1',
                   b'n1 v4294967295', b'n1 v4294967296', b'n-9223372036854775808', b'n9223372036854775808', b'n1 v-0', b'n1 v-1',
                   b'c4294967295 k4294967295 d4294967295 i4294967295', b'n1 t2000-01-01T00:00:00Z', b'n1 t2000-01-01T00:00:00', b'n1 t2000-13-01T00:00:00Z']
    ndup0 = len(mut_ops)
    for s in dup_lines + other_lines:
        mut_ops.append('rd opl md=31 ' + hx(s + b'\n'))
    mimpl, mmodel = run_both(ctx, hbin, scratch, mut_ops)
    if mimpl is None:
        return
    for o, r in zip(mut_ops, mimpl):
        ctx.note_case(o)
        ctx.count('opl-mutant:' + (r.split(':')[1] if r.startswith('err') else 'ok'))
    if mmodel is not None:
        dis = ctx.diff_streams('opl-parser-mutants', mut_ops, mimpl, mmodel)
        if dis:
            i, o, a, b = dis[0]
            line = binascii.unhexlify(o.split()[3].replace('-', ''))
            ctx.violation('opl-parser-correspondence', 'real OPL parser and model parser disagree on %d mutated lines; first %r: impl `%s` model `%s`'
                          % (len(dis), line[:200], a[:200], b[:200]),
                          {'kind': 'broken-correspondence', 'stream': 'opl-parser-mutants', 'op': o, 'impl': a, 'model': b}, found_input=False)
    # duplicate attributes must be rejected (law on the implementation)
    for o, r in zip(mut_ops[ndup0:ndup0 + len(dup_lines)], mimpl[ndup0:ndup0 + len(dup_lines)]):
        if not r.startswith('err:opl_error'):
            line = binascii.unhexlify(o.split()[3])
            ctx.violation('opl-duplicate-attribute-accepted', 'the OPL parser accepts a line with a duplicate attribute: %r -> %s' % (line, r[:200]),
                          {'kind': 'counterexample', 'op': o, 'impl': r})
            break

    # ---- ExpatContract tie: real expat vs the event semantics of the markup, and vs the tokenizer
    ex_cases = [k for k, c in enumerate(cases) if c[0] == 'xml' and impl[k].startswith('ok ')]
    if quick:
        ex_cases = ex_cases[::3]
    ex_ops = ['expat ' + impl[k][3:] for k in ex_cases]
    ev_ops = ['events ' + impl[k][3:] for k in ex_cases]
    mk_ops = ['markup %s %s' % (cases[k][1], op_objects(cases[k][2], cases[k][3], cases[k][4])) for k in ex_cases]
    rc, ex_out, se = ctx.run_lines([hbin, scratch], '\n'.join(ex_ops) + '\n')
    if ctx.exe_build_ok and rc == 0:
        rc2, ev_out, se2 = ctx.run_lines([ctx.model_exe('model_text')], '\n'.join(ev_ops + mk_ops) + '\n')
        tok_out, mk_out = ev_out[:len(ev_ops)], ev_out[len(ev_ops):]
        d1 = ctx.diff_streams('expat-vs-markup-events', mk_ops, ex_out, mk_out)
        d2 = ctx.diff_streams('expat-vs-tokenizer', ev_ops, ex_out, tok_out)
        for name, dis in (('markup-events', d1), ('tokenizer', d2)):
            if dis:
                i, o, a, b = dis[0]
                ctx.violation('expat-contract:' + name, 'the real expat and the model\'s %s disagree on %d documents (first `%s`): expat `%s…` model `%s…`'
                              % (name, len(dis), o[:160], a[:120], b[:120]),
                              {'kind': 'broken-correspondence', 'op': o[:8000], 'expat': a[:8000], 'model': b[:8000]}, found_input=False)
        ctx.count('expat:documents', len(ex_ops))
        for o in ex_ops:
            ctx.note_case(o)

    # ---------------------------------------------------------------- (c) monitor: real write -> real read x compression
    mon_ops, mon_expect = [], []
    stride = 5 if quick else 1
    for k, (fmt, op, gen, boxes, objs) in enumerate(cases):
        if k % stride:
            continue
        for comp in ('none', 'gz', 'bz2'):
            if comp != 'none' and quick and (k // stride) % 3:
                continue
            # hand-over mode: whole buffer / item by item / items and buffers interleaved
            mon_ops.append('rt %s %s %s:%d %s' % (fmt, op, comp, (k // stride + len(comp)) % 3, op_objects(gen, boxes, objs)))
            mon_expect.append(expected(fmt, op, gen, boxes, objs))
    rc, mon, se = ctx.run_lines([hbin, scratch], '\n'.join(mon_ops) + '\n')
    if rc != 0 or len(mon) != len(mon_ops):
        ctx.violation('text-harness-crash', 'harness exited %d in the round-trip monitor: %s' % (rc, se[-400:]),
                      {'kind': 'harness-crash', 'stderr': se[-2000:]}, found_input=False)
        return
    small_twin_check(ctx, scratch, mon_ops, mon, 'monitor')
    for o, exp, r in zip(mon_ops, mon_expect, mon):
        ctx.note_case(o)
        w = o.split()
        ctx.count('rt:%s:%s' % (w[1], w[3]))
        ctx.count('rt-handover-mode:%s' % w[3].split(':')[-1])
        if r != exp:
            i, x, y = first_diff(r, exp)
            key = 'text-roundtrip:%s:%s' % (w[1], ('error:' + r[4:40]) if r.startswith('err') else field_key(x, y))
            if key not in reported:
                reported.add(key)
                ctx.violation(key, 'real %s write -> read (compression %s) is not `project opts D`: got `%s`, expected `%s` (`%s`)'
                              % (w[1].upper(), w[3], (r if i < 0 else x)[:200], y[:200], o[:300]),
                              {'kind': 'counterexample', 'op': o[:20000], 'got': r[:4000], 'expected': exp[:4000], 'replay': 'echo "<op>" | <text harness> <scratch dir>'})

    # ---------------------------------------------------------------- probes of the known-bad corners of the domain
    node = 'n %d v1 V t1 c%d u1 61 L1,2'
    probes = [
        ('opl-low-undefined-location', 'rt opl md=31,low=1 none / h 67 S / w 5 v1 V t1 c1 u1 61 N1@2147483647,2147483647 N2@5,6',
         'ok h - S | w 5 v1 V t1 c1 u1 61 N1@2147483647,2147483647 N2@5,6',
         'OPL with locations_on_ways=true writes a node reference without location as "n1xy"; opl_parse_way_nodes then calls set_lon_partial on "y" and the Reader throws invalid_location'),
        ('xml-id-int64-max', 'rt xml md=31 none / h 67 S / ' + node % (I64MAX, 1),
         'ok h 67 S | ' + node % (I64MAX, 1),
         'XML: object id INT64_MAX is written but string_to_object_id rejects it (id != LLONG_MAX test meant to catch strtoll overflow)'),
        ('xml-u32-max:changeset', 'rt xml md=31 none / h 67 S / ' + node % (5, 2 ** 32 - 1),
         'ok h 67 S | ' + node % (5, 2 ** 32 - 1),
         'XML: changeset id 2^32-1 is written but string_to_ulong rejects it (value < numeric_limits<uint32_t>::max())'),
    ]
    rc, pr, se = ctx.run_lines([hbin, scratch], '\n'.join(p[1] for p in probes) + '\n')
    for (key, o, exp, why), r in zip(probes, pr):
        ctx.note_case(o)
        if r != exp:
            ctx.violation(key, '%s: `%s` -> `%s`, expected `%s`' % (why, o, r, exp),
                          {'kind': 'counterexample', 'op': o, 'got': r, 'expected': exp, 'replay': 'echo "<op>" | <text harness> <scratch dir>'})
