"""C10 — assembled areas are valid multipolygons covering exactly the input's region
(DESIGN.md §3 C10, PARTIAL by design: the ring-building search is validated, not proved).

1. proof stage: lean/Osmium/Props/C10.lean (exact-integer geometry, segment order, duplicate
   cancellation, sweep with `break`, shoelace/fix_direction, permutation invariance of the spec).
2. correspondence (a): the REAL NodeRefSegment functions / SegmentList::sort,
   erase_duplicate_segments, find_intersections / extract_segments_from_way / ProtoRing
   (harness/c10.cpp, -fno-access-control) vs the compiled Lean model on the same op lines: every
   4-point configuration on a 5x5 grid, random coordinates up to +-2^29, segment lists, ways, rings;
   plus the part of create_rings() before ring building (stats of the real Assembler vs `preCheck`).
3. monitors on the implementation (b): the real osmium::area::Assembler / MultipolygonManager on
   generated way sets.  An independent Python oracle (orientation predicates, even-odd ray cast)
   decides what MUST happen: odd-multiplicity segments with a crossing -> rejected + reported;
   a node of odd degree -> rejected + reported; otherwise -> assembled, and the produced area must
   satisfy the validity spec.  The same produced area is judged by the executable Lean
   specification `Valid` (model driver, op `judge`); oracle and Lean spec must agree.
4. (c) permutations / reversals / re-cuttings / role changes of one segment multiset must give the
   same ring set.
5. ring building step by step (op `rb`): the REAL create_locations_list / find_split_locations /
   create_rings_simple_case (get_next_segment, add_new_ring, find_enclosing_ring, fix_direction) /
   add_new_ring_complex on a BasicAssembler vs the compiled Lean model (exact diff: m_locations,
   open-ring reports, m_split_locations, every ring as (segment, reverse) sequence with its
   outer/inner link and m_sum, the partial rings of the complex case), plus monitors that state the
   proved properties on the implementation's output (stable order of m_locations, open ends = odd
   nodes, split locations = nodes of degree >= 4, rings closed / >= 3 segments / partition / connected
   components / orientation / nesting, partial rings = maximal paths between split locations and
   contiguous in the final rings of the real create_rings_complex_case).
"""
import json
import os

import vlib

B29 = 2 ** 29

# --------------------------------------------------------------------------------------------------
# independent geometry oracle (integers only; classic orientation predicates)
# --------------------------------------------------------------------------------------------------


def orient(a, b, c):
    v = (b[0] - a[0]) * (c[1] - a[1]) - (b[1] - a[1]) * (c[0] - a[0])
    return (v > 0) - (v < 0)


def in_box(a, b, p):
    return min(a[0], b[0]) <= p[0] <= max(a[0], b[0]) and min(a[1], b[1]) <= p[1] <= max(a[1], b[1])


def nseg(a, b):
    return (a, b) if a < b else (b, a)


def meets(s, t):
    """Do the closed segments s and t share a point that is not merely a common end point?
    (identical segments do: they overlap)"""
    p0, p1 = s
    q0, q1 = t
    if max(p0[0], p1[0]) < min(q0[0], q1[0]) or max(q0[0], q1[0]) < min(p0[0], p1[0]):
        return False
    if max(p0[1], p1[1]) < min(q0[1], q1[1]) or max(q0[1], q1[1]) < min(p0[1], p1[1]):
        return False
    o1 = orient(p0, p1, q0)
    o2 = orient(p0, p1, q1)
    o3 = orient(q0, q1, p0)
    o4 = orient(q0, q1, p1)
    if o1 == 0 and o2 == 0:
        # same line: compare along the dominant axis
        ax = 0 if p0[0] != p1[0] else 1
        a, b = sorted((p0[ax], p1[ax]))
        c, d = sorted((q0[ax], q1[ax]))
        return max(a, c) < min(b, d)
    if o1 * o2 < 0 and o3 * o4 < 0:
        return True
    # an end point of one lies on the other segment (lines not parallel: at most one shared point)
    for pt, (a, b), o in ((q0, s, o1), (q1, s, o2), (p0, t, o3), (p1, t, o4)):
        if o == 0 and in_box(a, b, pt):
            other_ends = (a, b)
            if pt not in other_ends:
                return True
    return False


def ring_segs(r):
    return [nseg(r[i], r[i + 1]) for i in range(len(r) - 1)]


def shoelace(r):
    return sum(r[i][0] * r[i + 1][1] - r[i][1] * r[i + 1][0] for i in range(len(r) - 1))


def inside2(p2, ring):
    """even-odd test of the doubled point p2 against the ring (ring coordinates doubled on the fly)"""
    c = False
    px, py = p2
    for i in range(len(ring) - 1):
        ax, ay = 2 * ring[i][0], 2 * ring[i][1]
        bx, by = 2 * ring[i + 1][0], 2 * ring[i + 1][1]
        if (ay > py) != (by > py):
            # x coordinate of the crossing > px ?
            lhs = (px - ax) * (by - ay)
            rhs = (py - ay) * (bx - ax)
            if (lhs < rhs) if by > ay else (lhs > rhs):
                c = not c
    return c


def side_of(r, r2):
    ins = [inside2((r[i][0] + r[i + 1][0], r[i][1] + r[i + 1][1]), r2) for i in range(len(r) - 1)]
    if not ins:
        return None
    if all(ins):
        return True
    if not any(ins):
        return False
    return None


def odd_segments(segs):
    cnt = {}
    for s in segs:
        cnt[s] = cnt.get(s, 0) + 1
    return sorted(s for s, n in cnt.items() if n % 2 == 1)


def first_meeting_pair(segs):
    ss = sorted(segs)
    n = len(ss)
    for i in range(n):
        si = ss[i]
        hi = si[1][0]
        for j in range(i + 1, n):
            sj = ss[j]
            if sj[0][0] > hi:
                break
            if meets(si, sj):
                return si, sj
    return None


def odd_degree_nodes(segs):
    deg = {}
    for a, b in segs:
        deg[a] = deg.get(a, 0) + 1
        deg[b] = deg.get(b, 0) + 1
    return sorted(p for p, d in deg.items() if d % 2 == 1), sum(1 for d in deg.values() if d > 2)


def judge_area(odd, area):
    """independent statement of the validity spec; area = [(kind, [points])...] in output order.
    Returns list of failing clauses."""
    bad = []
    rings = [r for _, r in area]
    if not rings:
        return ['no-rings']
    if any(r[0] != r[-1] for r in rings):
        bad.append('ring-not-closed')
    if any(len(r) < 4 for r in rings):
        bad.append('ring-too-short')
    segs = [s for r in rings for s in ring_segs(r)]
    if len(set(segs)) != len(segs):
        bad.append('segment-twice')
    if first_meeting_pair(list(set(segs))) is not None:
        bad.append('segments-cross')
    for k, r in area:
        s = shoelace(r)
        if (k == 'O' and s <= 0) or (k == 'I' and s >= 0):
            bad.append('orientation')
            break
    n = len(rings)
    side = [[None] * n for _ in range(n)]
    cons = True
    for i in range(n):
        for j in range(n):
            if i != j:
                side[i][j] = side_of(rings[i], rings[j])
                if side[i][j] is None:
                    cons = False
    if not cons:
        bad.append('rings-cross')
    depth = [sum(1 for j in range(n) if j != i and side[i][j] is True) for i in range(n)]
    cur_outer = None
    for i, (k, r) in enumerate(area):
        if k == 'O':
            cur_outer = i
            if depth[i] % 2 != 0 and 'outer-at-odd-depth' not in bad:
                bad.append('outer-at-odd-depth')
        else:
            if cur_outer is None or side[i][cur_outer] is not True or depth[i] != depth[cur_outer] + 1:
                if 'inner-not-in-outer' not in bad:
                    bad.append('inner-not-in-outer')
    if sorted(set(segs)) != list(odd) or len(set(segs)) != len(segs):
        bad.append('not-even-odd-fill')
    return bad


def covered(p2, area):
    """is the doubled point inside the multipolygon (inside an outer ring and in none of its inner rings)?"""
    res = False
    cur = False
    for k, r in area:
        if k == 'O':
            if cur:
                res = True
            cur = inside2(p2, r)
        elif cur and inside2(p2, r):
            cur = False
    return res or cur


def evenodd(p2, segs):
    c = False
    px, py = p2
    for a, b in segs:
        ax, ay, bx, by = 2 * a[0], 2 * a[1], 2 * b[0], 2 * b[1]
        if (ay > py) != (by > py):
            lhs = (px - ax) * (by - ay)
            rhs = (py - ay) * (bx - ax)
            if (lhs < rhs) if by > ay else (lhs > rhs):
                c = not c
    return c


def on_any(p2, segs):
    for a, b in segs:
        A = (2 * a[0], 2 * a[1])
        Bp = (2 * b[0], 2 * b[1])
        if orient(A, Bp, p2) == 0 and in_box(A, Bp, p2):
            return True
    return False


# --------------------------------------------------------------------------------------------------
# generators
# --------------------------------------------------------------------------------------------------


def rect_ring(x0, y0, x1, y1):
    return [(x0, y0), (x1, y0), (x1, y1), (x0, y1), (x0, y0)]


def make_shape(rng, box):
    """a simple ring inside box=(x0,y0,x1,y1) and a box strictly inside the ring"""
    x0, y0, x1, y1 = box
    w, h = x1 - x0, y1 - y0
    style = rng.below(7)
    if style == 0 or w < 6 or h < 6:
        return rect_ring(x0, y0, x1, y1), (x0 + 1, y0 + 1, x1 - 1, y1 - 1)
    if style == 1:
        # rectangle with extra collinear nodes
        pts = []
        for (a, b) in (((x0, y0), (x1, y0)), ((x1, y0), (x1, y1)), ((x1, y1), (x0, y1)), ((x0, y1), (x0, y0))):
            pts.append(a)
            n = max(abs(b[0] - a[0]), abs(b[1] - a[1]))
            ks = sorted(set(1 + rng.below(n - 1) for _ in range(rng.below(3))))
            dx = (b[0] > a[0]) - (b[0] < a[0])
            dy = (b[1] > a[1]) - (b[1] < a[1])
            for k in ks:
                pts.append((a[0] + dx * k, a[1] + dy * k))
        pts.append(pts[0])
        return pts, (x0 + 1, y0 + 1, x1 - 1, y1 - 1)
    if style == 2:
        c = 1 + rng.below(min(w, h) // 3)
        pts = [(x0 + c, y0), (x1 - c, y0), (x1, y0 + c), (x1, y1 - c), (x1 - c, y1), (x0 + c, y1), (x0, y1 - c), (x0, y0 + c)]
        pts.append(pts[0])
        return pts, (x0 + c, y0 + c, x1 - c, y1 - c)
    if style == 3:
        # bumpy: core rectangle, side vertices pushed outwards
        m = 1 + rng.below(min(w, h) // 4)
        cx0, cy0, cx1, cy1 = x0 + m, y0 + m, x1 - m, y1 - m
        pts = [(cx0, cy0)]
        for x in sorted(set(cx0 + 1 + rng.below(cx1 - cx0 - 1) for _ in range(1 + rng.below(3)))):
            pts.append((x, cy0 - rng.below(m + 1)))
        pts.append((cx1, cy0))
        for y in sorted(set(cy0 + 1 + rng.below(cy1 - cy0 - 1) for _ in range(1 + rng.below(3)))):
            pts.append((cx1 + rng.below(m + 1), y))
        pts.append((cx1, cy1))
        for x in sorted(set(cx0 + 1 + rng.below(cx1 - cx0 - 1) for _ in range(1 + rng.below(3))), reverse=True):
            pts.append((x, cy1 + rng.below(m + 1)))
        pts.append((cx0, cy1))
        for y in sorted(set(cy0 + 1 + rng.below(cy1 - cy0 - 1) for _ in range(1 + rng.below(3))), reverse=True):
            pts.append((cx0 - rng.below(m + 1), y))
        pts.append(pts[0])
        return pts, (cx0 + 1, cy0 + 1, cx1 - 1, cy1 - 1)
    if style == 4:
        # L shape: the box minus its upper right quarter; inner box in the lower half
        mx = x0 + w // 2
        my = y0 + h // 2
        pts = [(x0, y0), (x1, y0), (x1, my), (mx, my), (mx, y1), (x0, y1), (x0, y0)]
        return pts, (x0 + 1, y0 + 1, x1 - 1, my - 1)
    if style == 5:
        # diamond-like convex polygon through the side midpoints (+ optional corners cut unevenly)
        mx = x0 + w // 2
        my = y0 + h // 2
        pts = [(mx, y0), (x1, my), (mx, y1), (x0, my), (mx, y0)]
        q = min(w, h) // 4
        return pts, (mx - max(q - 1, 0) // 1, my - max(q - 1, 0), mx + max(q - 1, 0), my + max(q - 1, 0))
    # triangle / trapezoid
    t = rng.below(w // 2)
    pts = [(x0, y0), (x1, y0), (x1 - t, y1), (x0 + min(t + 1, w // 2), y1), (x0, y0)]
    return pts, (x0 + w // 3 + 1, y0 + 1, x1 - w // 3 - 1, y0 + h // 2)


def gen_nested(rng, size, max_depth, max_rings):
    """rings of a valid multipolygon on the grid [0,size]^2: disjoint siblings, nested holes/islands"""
    rings = []
    meta = []  # (depth, parent index)

    def fill(box, depth, parent):
        x0, y0, x1, y1 = box
        if x1 - x0 < 3 or y1 - y0 < 3 or depth > max_depth or len(rings) >= max_rings:
            return
        k = 1 + rng.below(3)
        horizontal = (x1 - x0) >= (y1 - y0)
        lo, hi = (x0, x1) if horizontal else (y0, y1)
        span = hi - lo
        if span < 4 * k:
            k = 1
        cuts = [lo + span * i // k for i in range(k + 1)]
        for i in range(k):
            if len(rings) >= max_rings:
                return
            a, b = cuts[i], cuts[i + 1]
            gap = 1 if i + 1 < k else 0
            b -= gap
            if b - a < 3:
                continue
            sub = (a, y0, b, y1) if horizontal else (x0, a, x1, b)
            sx0, sy0, sx1, sy1 = sub
            # shrink randomly
            if sx1 - sx0 > 4:
                d = rng.below((sx1 - sx0 - 3) // 2 + 1)
                sx0 += rng.below(d + 1)
                sx1 -= rng.below(d + 1)
            if sy1 - sy0 > 4:
                d = rng.below((sy1 - sy0 - 3) // 2 + 1)
                sy0 += rng.below(d + 1)
                sy1 -= rng.below(d + 1)
            ring, inner = make_shape(rng, (sx0, sy0, sx1, sy1))
            rings.append(ring)
            meta.append((depth, parent))
            me = len(rings) - 1
            if rng.chance(3, 4):
                fill(inner, depth + 1, me)

    fill((0, 0, size, size), 0, None)
    return rings, meta


def valid_ringset(rings):
    segs = [s for r in rings for s in ring_segs(r)]
    if len(set(segs)) != len(segs):
        return False
    if any(a == b for a, b in segs):
        return False
    for r in rings:
        if len(set(r[:-1])) != len(r) - 1 or len(r) < 4:
            return False
    return first_meeting_pair(segs) is None


def add_touching(rng, rings, tries):
    """move a vertex of one ring onto a vertex of another ring (shared node) when the result is
    still a valid arrangement"""
    done = 0
    for _ in range(tries):
        if len(rings) < 2:
            return done
        i = rng.below(len(rings))
        j = rng.below(len(rings))
        if i == j:
            continue
        ri = rings[i]
        rj = rings[j]
        vi = rng.below(len(ri) - 1)
        # the closest vertex of rj
        p = ri[vi]
        target = min(rj[:-1], key=lambda q: (q[0] - p[0]) ** 2 + (q[1] - p[1]) ** 2)
        if target in ri:
            continue
        new = list(ri)
        new[vi] = target
        if vi == 0:
            new[-1] = target
        cand = rings[:i] + [new] + rings[i + 1:]
        if valid_ringset(cand):
            rings[i] = new
            done += 1
    return done


def checkerboard(n, m):
    return [rect_ring(i, j, i + 1, j + 1) for i in range(n) for j in range(m) if (i + j) % 2 == 0]


def fan(rng, k):
    """k triangles sharing one node"""
    dirs = [(4, 0), (4, 2), (3, 4), (0, 4), (-3, 4), (-4, 1), (-4, -2), (-2, -4), (1, -4), (4, -3)]
    rings = []
    k = min(k, len(dirs) // 2)
    start = rng.below(len(dirs))
    for t in range(k):
        a = dirs[(start + 2 * t) % len(dirs)]
        b = dirs[(start + 2 * t + 1) % len(dirs)]
        rings.append([(10, 10), (10 + a[0], 10 + a[1]), (10 + b[0], 10 + b[1]), (10, 10)])
    return rings


def eye(rng):
    """outer ring with an inner ring touching it in two (or more) nodes"""
    outer = [(0, 0), (6, 0), (12, 0), (12, 8), (6, 8), (0, 8), (0, 0)]
    inner = [(6, 0), (9, 4), (6, 8), (3, 4), (6, 0)]
    rings = [outer, inner]
    if rng.chance(1, 2):
        rings.append([(5, 3), (7, 3), (7, 5), (5, 5), (5, 3)])
    return rings


def affine(rng, rings, big):
    """random injective integer affine map (preserves validity), result within +-2^29"""
    pts = [p for r in rings for p in r]
    mx = max(max(abs(p[0]), abs(p[1])) for p in pts) + 1
    while True:
        if big:
            lim = max(1, (B29 // 4) // mx)
            a = 1 + rng.below(lim)
            d = 1 + rng.below(lim)
            b = rng.below(2 * lim + 1) - lim if rng.chance(1, 2) else 0
            c = rng.below(2 * lim + 1) - lim if rng.chance(1, 2) else 0
        else:
            a = rng.choice([1, 1, 2, 3, -1, -2])
            d = rng.choice([1, 1, 2, 3, -1, -2])
            b = rng.choice([0, 0, 1, -1, 2])
            c = rng.choice([0, 0, 1, -1, 2])
        if a * d - b * c != 0:
            break
    ext = (abs(a) + abs(b) + abs(c) + abs(d)) * mx
    room = B29 - ext
    tx = rng.below(2 * room + 1) - room if big else rng.below(41) - 20
    ty = rng.below(2 * room + 1) - room if big else rng.below(41) - 20
    if rng.chance(1, 4):
        tx = ty = 0

    def f(p):
        return (a * p[0] + b * p[1] + tx, c * p[0] + d * p[1] + ty)
    return [[f(p) for p in r] for r in rings]


def cut_into_ways(rng, segs):
    """random re-cutting of a segment multiset into ways (walks over unused segments; a way may run
    through touching points from one ring into another, may be closed, may be a single segment)"""
    adj = {}
    for idx, (a, b) in enumerate(segs):
        adj.setdefault(a, []).append(idx)
        adj.setdefault(b, []).append(idx)
    used = [False] * len(segs)
    order = list(range(len(segs)))
    rng.shuffle(order)
    ways = []
    stop_den = rng.choice([2, 3, 5, 9, 1000])
    for s in order:
        if used[s]:
            continue
        used[s] = True
        a, b = segs[s]
        if rng.chance(1, 2):
            a, b = b, a
        way = [a, b]
        while not rng.chance(1, stop_den):
            nxt = [i for i in adj[way[-1]] if not used[i]]
            if not nxt:
                break
            i = rng.choice(nxt)
            used[i] = True
            p, q = segs[i]
            way.append(q if p == way[-1] else p)
        ways.append(way)
    return ways


def euler_circuit(rng, segs):
    """Hierholzer: one closed walk using every segment once, or None if not connected / odd degrees"""
    adj = {}
    for idx, (a, b) in enumerate(segs):
        adj.setdefault(a, []).append((idx, b))
        adj.setdefault(b, []).append((idx, a))
    if any(len(v) % 2 for v in adj.values()):
        return None
    for v in adj.values():
        rng.shuffle(v)
    used = [False] * len(segs)
    start = segs[0][0]
    stack = [start]
    out = []
    while stack:
        v = stack[-1]
        while adj[v] and used[adj[v][-1][0]]:
            adj[v].pop()
        if adj[v]:
            idx, w = adj[v].pop()
            used[idx] = True
            stack.append(w)
        else:
            out.append(stack.pop())
    if not all(used):
        return None
    return out


class Case:
    __slots__ = ('family', 'ways', 'roles', 'ids', 'mode', 'cfg', 'expect', 'group', 'note')


def ways_to_op(case):
    toks = ['asm', case.mode, str(case.cfg)]
    for k, w in enumerate(case.ways):
        toks.append('w%d:%s' % (10 + k if case.ids is None else case.ids[k], case.roles[k]))
        for (nid, p) in w:
            toks.append('%d:%d:%d' % (nid, p[0], p[1]))
    return ' '.join(toks)


def assign_nodes(rng, ways, dup_ids):
    ids = {}
    out = []
    nxt = [1000]
    for w in ways:
        ow = []
        for p in w:
            if p not in ids or (dup_ids and rng.chance(1, 12)):
                ids[p] = nxt[0]
                nxt[0] += 1
            ow.append((ids[p], p))
        out.append(ow)
    return out


def loc_valid(p):
    return -1800000000 <= p[0] <= 1800000000 and -900000000 <= p[1] <= 900000000


def count_invalid(case):
    ways = case.ways[:1] if case.mode in ('w', 'v') else case.ways
    return sum(1 for w in ways for (_, p) in w if not loc_valid(p))


def effective_segments(case):
    """segments the assembler extracts (first occurrence of a way id only; mode w/v: first way)"""
    ways = case.ways
    if case.mode in ('w', 'v'):
        ways = ways[:1]
    seen = set()
    segs = []
    for k, w in enumerate(ways):
        wid = 10 + k if case.ids is None else case.ids[k]
        if wid in seen:
            continue
        seen.add(wid)
        prev = None
        for (_, p) in w:
            if not loc_valid(p):
                continue
            if prev is not None and prev != p:
                segs.append(nseg(prev, p))
            prev = p
    return segs


def make_case(rng, family, point_ways, mode=None, group=None, roles=None, cfg=None):
    c = Case()
    c.family = family
    c.ways = assign_nodes(rng, point_ways, dup_ids=rng.chance(1, 5))
    c.ids = None
    if roles is None:
        rk = rng.below(4)
        roles = [('o' if rk == 0 else 'e' if rk == 1 else rng.choice('oieu')) for _ in point_ways]
    c.roles = roles
    c.mode = mode or ('m' if rng.chance(1, 4) else 'r')
    c.cfg = cfg if cfg is not None else rng.choice([1, 1, 3, 3, 0, 2, 11])
    c.group = group
    c.note = ''
    return c


def cell_boundary(rng, n, m, tri):
    """boundary of a random set of grid cells (optionally of half-cell triangles): every lattice point has even
    degree and no two boundary segments cross, so it is always a valid arrangement — with touching corners, holes,
    islands and nesting in random combinations.  Returned as a list of 2-point 'rings' (single segments)."""
    p = rng.choice([2, 3, 4, 5, 6])
    cnt = {}

    def add(a, b):
        s = nseg(a, b)
        cnt[s] = cnt.get(s, 0) + 1
    for i in range(n):
        for j in range(m):
            c00, c10, c11, c01 = (i, j), (i + 1, j), (i + 1, j + 1), (i, j + 1)
            if not tri:
                if rng.below(8) < p:
                    add(c00, c10); add(c10, c11); add(c11, c01); add(c01, c00)
            else:
                if (i + j) % 2 == 0:
                    tris = ((c00, c10, c11), (c00, c11, c01))
                else:
                    tris = ((c00, c10, c01), (c10, c11, c01))
                for t in tris:
                    if rng.below(8) < p:
                        add(t[0], t[1]); add(t[1], t[2]); add(t[2], t[0])
    return [[a, b] for (a, b), k in sorted(cnt.items()) if k % 2 == 1]


def gen_notched(rng):
    """A big ring B with wedge-shaped notches and extra nodes on its sides, small rings touching B from the outside in
    two or more of those nodes (inside a notch at its apex / outside a plain node), and holes at many positions inside
    B: B has to be put together from several partial rings (join_forward/join_backward branches of merge_two_rings)
    and the holes have to be classified against it."""
    W = 100
    sides = []      # per side: list of (t, depth) events; depth > 0 = notch apex pushed inwards
    special = []    # (node, outward direction, is_notch)
    for side in range(4):
        ev = []
        if side == 0 or rng.chance(1, 6):
            n = (2 if side == 0 else 1) + rng.below(2)
            ts = sorted(set(15 + 10 * rng.below(8) for _ in range(n)))
            for t in ts:
                ev.append((t, (10 + 10 * rng.below(5)) if rng.chance(1, 2) else 0))
        sides.append(ev)

    def pt(side, t, d):
        # side 0: right (x=W, t=y upwards), 1: top (t = W-x), 2: left (t = W-y), 3: bottom (t = x)
        if side == 0:
            return (W - d, t)
        if side == 1:
            return (W - t, W - d)
        if side == 2:
            return (d, W - t)
        return (t, d)
    outward = [(1, 0), (0, 1), (-1, 0), (0, -1)]
    along = [(0, 1), (-1, 0), (0, -1), (1, 0)]
    corners = [(W, 0), (W, W), (0, W), (0, 0)]   # start corner of each side
    B = []
    for side in range(4):
        B.append(corners[side])
        for (t, d) in sides[side]:
            if d > 0:
                a = 4 + rng.below(3)
                B.append(pt(side, t - a, 0))
                B.append(pt(side, t, d))
                B.append(pt(side, t + a, 0))
                special.append((pt(side, t, d), side, d, a))
            else:
                B.append(pt(side, t, 0))
                special.append((pt(side, t, 0), side, 0, 0))
    B.append(B[0])
    rings = [B]
    ntouch = 0
    for (node, side, d, a) in special:
        if not rng.chance(4, 5):
            continue
        ox, oy = outward[side]
        ax, ay = along[side]
        if d > 0:
            # triangle inside the notch: from the apex towards the opening
            L = max(2, d * 3 // 4)
            h = 1 if a * 3 // 4 < 3 else 1 + rng.below(2)
            tri = [node, (node[0] + ox * L + ax * h, node[1] + oy * L + ay * h), (node[0] + ox * L - ax * h, node[1] + oy * L - ay * h), node]
        else:
            L = 10 + rng.below(25)
            h = 3 + rng.below(4)
            tri = [node, (node[0] + ox * L + ax * h, node[1] + oy * L + ay * h), (node[0] + ox * L - ax * h, node[1] + oy * L - ay * h), node]
        rings.append(tri)
        ntouch += 1
    if not valid_ringset(rings):
        return None
    for _ in range(2 + rng.below(4)):
        for _try in range(6):
            sz = 3 + rng.below(10)
            x = 2 + rng.below(W - sz - 3)
            y = 2 + rng.below(W - sz - 3)
            hole = rect_ring(x, y, x + sz, y + sz) if rng.chance(2, 3) else [(x, y), (x + sz, y + sz // 2), (x + sz // 2, y + sz), (x, y)]
            if valid_ringset(rings + [hole]) and side_of(hole, B) is True and all(side_of(hole, r) is False for r in rings[1:]):
                rings.append(hole)
                break
    if rng.chance(1, 2):
        rings = [[(p[1], p[0]) for p in r] for r in rings]
    return rings


def gen_valid_rings(rng, quick):
    """one random valid multipolygon (list of closed rings) + family name"""
    f = rng.below(44)
    if f >= 36:
        rings = gen_notched(rng)
        if rings is None:
            return None, 'notched'
        if rng.chance(1, 2):
            rings = affine(rng, rings, big=rng.chance(1, 3))
        return rings, 'notched'
    if f >= 34:
        # a vertex of one outer ring a tiny fraction of a unit below the long, nearly horizontal bottom edge of another
        # outer ring that has a hole right above it; everything near the corner of the +-2^29 square
        sgn = rng.choice([1, -1])
        x0 = -B29 + rng.below(3)
        y0 = (-B29 + 10 + rng.below(50)) if sgn < 0 else (B29 - 200 - rng.below(50))
        x1 = B29 - 1 - rng.below(1000)
        dy = 1 + rng.below(2)
        kx = 1 + rng.below(4)
        hgt = 60 + rng.below(40)
        Z = [(x0, y0), (x1, y0 + dy), (x1, y0 + hgt), (x0, y0 + hgt), (x0, y0)]
        P = (x0 + kx, y0)   # the edge passes kx*dy/(x1-x0) above P
        Y = [P, (P[0] + 1 + rng.below(3), y0 - 3), (x0, y0 - 3 - rng.below(3)), P]
        R = [(P[0], y0 + 5), (P[0] + 4, y0 + 6 + rng.below(3)), (P[0] + 1, y0 + 9 + rng.below(9)), (P[0], y0 + 5)]
        rings = [Z, Y, R]
        if not valid_ringset(rings):
            return None, 'near-touch'
        return rings, 'near-touch'
    if f >= 26:
        tri = rng.chance(1, 2)
        n = 2 + rng.below(4 if quick else 6)
        m = 2 + rng.below(4 if quick else 6)
        segs = cell_boundary(rng, n, m, tri)
        if not segs:
            return None, 'cells'
        return affine(rng, segs, big=rng.chance(1, 3)), 'tri-cells' if tri else 'cells'
    if f < 11:
        size = rng.choice([8, 12, 16, 24, 32])
        rings, meta = gen_nested(rng, size, rng.choice([1, 2, 3, 3, 4]), rng.choice([3, 5, 8, 12]))
        name = 'nested'
        if not rings:
            rings = [rect_ring(0, 0, 4, 4)]
        if rng.chance(1, 2):
            t = add_touching(rng, rings, rng.choice([2, 4, 8]))
            if t:
                name = 'nested-touching'
    elif f < 13:
        n = 2 + rng.below(4)
        m = 2 + rng.below(4 if quick else 5)
        rings = checkerboard(n, m)
        name = 'checkerboard'
    elif f < 15:
        rings = fan(rng, 2 + rng.below(4))
        name = 'fan'
    elif f < 17:
        rings = eye(rng)
        name = 'eye'
    elif f < 19:
        # a chain of rings, each touching the next in one node
        rings = []
        x = 0
        for _ in range(2 + rng.below(5)):
            w = 2 + rng.below(3)
            rings.append([(x, 0), (x + w, -1 - rng.below(2)), (x + 2 * w, 0), (x + w, 1 + rng.below(2)), (x, 0)])
            x += 2 * w
        name = 'chain'
    elif f < 20:
        # nested + a checkerboard inside a big outer ring
        rings = [rect_ring(-2, -2, 8, 8)] + checkerboard(3, 3)
        if rng.chance(1, 2):
            rings[0] = [(-2, -2), (8, -2), (8, 8), (3, 8), (-2, 8), (-2, -2)]
        name = 'board-in-ring'
    elif f < 22:
        # triangles nested in each other, all sharing their apex node
        k = 2 + rng.below(4)
        rings = [[(0, 0), (j, -j * j), (j, j * j), (0, 0)] for j in range(1, k + 1)]
        if rng.chance(1, 2):
            rings.append(rect_ring(-3, -2, -1, 2))
        name = 'nested-fan'
    elif f < 24:
        # necklace: squares standing on a corner around a loop, each touching the next
        k = rng.choice([4, 6, 8, 10]) if quick else rng.choice([4, 6, 8, 12, 16, 24, 28])
        side = k // 4
        cells = [(i, 0) for i in range(side)] + [(side, j) for j in range(side)] + \
                [(side - i, side) for i in range(side)] + [(0, side - j) for j in range(side)]
        rings = []
        for (i, j) in cells:
            cx, cy = 4 * i, 4 * j
            rings.append([(cx - 2, cy), (cx, cy - 2), (cx + 2, cy), (cx, cy + 2), (cx - 2, cy)])
        if rng.chance(1, 2):
            rings.append(rect_ring(-4, -4, 4 * side + 4, 4 * side + 4))
        name = 'necklace'
    else:
        # a hole touching its outer ring in a node, with an island touching the hole
        rings = [[(0, 0), (12, 0), (12, 12), (6, 12), (0, 12), (0, 0)],
                 [(6, 12), (2, 6), (6, 2), (10, 6), (6, 12)],
                 [(6, 2), (7, 6), (6, 8), (5, 6), (6, 2)]]
        if rng.chance(1, 2):
            rings.append([(6, 8), (6, 10), (7, 9), (6, 8)])
        name = 'touching-levels'
    if not valid_ringset(rings):
        return None, name
    rings = affine(rng, rings, big=rng.chance(1, 3))
    return rings, name


def variants(rng, segs, n):
    out = []
    for _ in range(n):
        out.append(cut_into_ways(rng, segs))
    return out


# --------------------------------------------------------------------------------------------------
# parsing the harness output
# --------------------------------------------------------------------------------------------------


def parse_asm(line):
    """-> dict(ret, areas=[(from_way, id, [(kind, [(id,(x,y))...])])], stats={}, problems=[...], notes)"""
    res = {'raw': line, 'areas': [], 'stats': {}, 'problems': [], 'notes': '-'}
    for tok in line.split(' '):
        if tok.startswith('ret='):
            res['ret'] = tok[4:]
        elif tok.startswith('areas='):
            res['nareas'] = int(tok[6:])
        elif tok.startswith('A') and '[' in tok:
            head, body = tok.split('[', 1)
            body = body[:-1]
            rings = []
            if body:
                for r in body.split('|'):
                    k, pts = r.split(':', 1)
                    nodes = []
                    for p in pts.split(','):
                        i, x, y = p.split('@')
                        nodes.append((int(i), (int(x), int(y))))
                    rings.append((k, nodes))
            fw, oid = head[1:].split(':')
            res['areas'].append((fw == '1', int(oid), rings))
        elif tok.startswith('stats='):
            for kv in tok[6:].split(','):
                k, v = kv.split('=')
                res['stats'][k] = int(v)
        elif tok.startswith('problems='):
            res['problems'] = [] if tok[9:] == '-' else tok[9:].split(';')
        elif tok.startswith('notes='):
            res['notes'] = tok[6:]
    return res


def canon_rings(area):
    """ring set up to rotation: outer rings with their inner rings, by location"""
    def canon(r):
        pts = [p for p in r[:-1]]
        k = pts.index(min(pts))
        return tuple(pts[k:] + pts[:k])
    groups = []
    cur = None
    for k, r in area:
        if k == 'O':
            cur = [canon(r), []]
            groups.append(cur)
        elif cur is not None:
            cur[1].append(canon(r))
    return sorted((o, tuple(sorted(i))) for o, i in groups)


# --------------------------------------------------------------------------------------------------
# the check
# --------------------------------------------------------------------------------------------------

KNOWN_MAXDEPTH_KEY = 'valid-not-assembled:find_candidates-max_depth'


KNOWN_TIE_KEY = 'invalid-area:find_enclosing_ring-tie-at-shared-node'


def tie_at_shared_min_node(area):
    """Below (same x, y not larger than) the minimum node L of some inner ring there is a node V in which segments of
    at least two different OUTER rings start (rings touching in V, V possibly = L): find_enclosing_ring() computes the
    same height V.y for all of them."""
    outers = [r for k, r in area if k == 'O']
    for k, r in area:
        if k != 'I':
            continue
        L = min(r[:-1])
        at = {}
        for oi, o in enumerate(outers):
            for a, b in ring_segs(o):
                if a[0] == L[0] and a[1] <= L[1] and b[0] > a[0]:
                    at.setdefault(a, set()).add(oi)
        if any(len(v) >= 2 for v in at.values()):
            return True
    return False


KNOWN_ROUND_KEY = 'invalid-area:find_enclosing_ring-double-rounding'


def near_coincident_heights(area):
    """some inner ring is not inside the outer ring it is attached to, and directly below its minimum node segments of two
    different outer rings pass at exact heights closer than 1e-6 while the coordinates exceed 2^22"""
    from fractions import Fraction
    cur = None
    outers = [r for k, r in area if k == 'O']
    for k, r in area:
        if k == 'O':
            cur = r
            continue
        if cur is None or side_of(r, cur) is True:
            continue
        L = min(r[:-1])
        if max(abs(L[0]), abs(L[1])) < 2 ** 22:
            continue
        hs = []
        for oi, o in enumerate(outers):
            for a, b in ring_segs(o):
                if a[0] <= L[0] < b[0]:
                    y = a[1] + Fraction((b[1] - a[1]) * (L[0] - a[0]), b[0] - a[0])
                    if y <= L[1]:
                        hs.append((y, oi))
        hs.sort()
        for (y1, o1), (y2, o2) in zip(hs, hs[1:]):
            if o1 != o2 and y2 - y1 < Fraction(1, 10 ** 6):
                return True
    return False


def viol(ctx, key, what, replay, found_input=True):
    """record at most two violations per kind (the key prefix): one failing input is enough"""
    kind = key.split(':', 1)[0] if key not in (KNOWN_MAXDEPTH_KEY, KNOWN_TIE_KEY, KNOWN_ROUND_KEY) else key
    if not hasattr(ctx, '_kinds'):
        ctx._kinds = {}
    seen = ctx._kinds
    seen[kind] = seen.get(kind, 0) + 1
    ctx.count('violation-kind:' + kind)
    if seen[kind] > 2:
        return None
    return ctx.violation(key, what, replay, found_input=found_input)


def evaluate_case(ctx, case, op, res, lean_pre, lean_judge):
    """property monitors for one assembler run.  Returns the judge verdict string of the oracle."""
    segs = effective_segments(case)
    odd = odd_segments(segs)
    st = res['stats']
    area = []
    if res['areas']:
        area = [(k, [p for _, p in nodes]) for k, nodes in res['areas'][0][2]]
    assembled = bool(area)
    problems = res['problems']
    kinds = set(p.split(':', 1)[0] for p in problems)
    short = op if len(op) <= 300 else op[:300] + '...'
    replay = {'kind': 'counterexample', 'op': op, 'impl': res['raw'][:4000], 'family': case.family,
              'replay': 'echo "<op>" | <harness c10>   (or: tools/check.py C10 --replay <this file>)'}
    if count_invalid(case) and not (case.cfg & 4):
        ctx.count('verdict:invalid-location')
        if assembled or (case.mode in 'wr' and 'invalid' not in kinds):
            viol(ctx, 'invalid-location-accepted:' + short[:90], 'a way with an invalid location was %s: %s'
                          % ('assembled' if assembled else 'rejected without report_invalid_location', short), replay)
        return 'invalid-location'
    if len(res['areas']) > 1:
        viol(ctx, 'several-areas:' + short[:90], 'one input produced %d areas' % len(res['areas']), replay)
        return 'several'
    if not odd:
        ctx.count('verdict:nothing-left')
        if assembled:
            viol(ctx, 'area-from-nothing:' + short[:90], 'all segments cancel but an area with rings was produced: ' + short, replay)
        return 'nothing'
    pair = first_meeting_pair(odd)
    if pair is not None:
        ctx.count('verdict:crossing')
        if assembled:
            viol(ctx, 'crossing-accepted:%s' % (pair,), 'segments %s and %s of the input cross/overlap but an area with rings was produced: %s'
                          % (pair[0], pair[1], short), dict(replay, expected='rejected'))
        elif 'isect' not in kinds:
            viol(ctx, 'crossing-not-reported:%s' % (pair,), 'input with crossing segments %s / %s rejected without report_intersection: %s'
                          % (pair[0], pair[1], short), dict(replay, expected='report_intersection'))
        return 'crossing'
    oddn, touching = odd_degree_nodes(odd)
    if oddn:
        ctx.count('verdict:open-ring')
        if assembled:
            viol(ctx, 'open-accepted:%s' % (oddn[0],), 'node %s has odd degree (open ring) but an area with rings was produced: %s'
                          % (oddn[0], short), dict(replay, expected='rejected'))
        elif 'open' not in kinds:
            viol(ctx, 'open-not-reported:%s' % (oddn[0],), 'input with an open ring at %s rejected without report_ring_not_closed: %s'
                          % (oddn[0], short), dict(replay, expected='report_ring_not_closed'))
        return 'open'
    # a valid arrangement exists
    if touching > 100:
        ctx.count('verdict:valid-but-over-100-touching-points(outside the quantifier)')
        return 'over100'
    ctx.count('verdict:valid-arrangement')
    ctx.count('touching-points:%s' % ('0' if touching == 0 else '1-3' if touching <= 3 else '4-10' if touching <= 10 else '11-30' if touching <= 30 else '31-100'))
    if not assembled:
        if 'maxdepth' in res['notes']:
            viol(ctx, KNOWN_MAXDEPTH_KEY,
                          'a valid arrangement (%d segments, %d touching points, no crossing, no open ring) is NOT assembled%s: '
                          'find_candidates() exceeded max_depth=20 and create_rings() returned false. Input: %s'
                          % (len(odd), touching, ' and nothing is reported to the problem reporter' if 'open' not in kinds else ' (reported as open rings)', short),
                          dict(replay, expected='assembled'))
        else:
            viol(ctx, 'valid-not-assembled:%s:%s' % (case.family, short[:80]),
                          'a valid arrangement (%d segments, %d touching points) is not assembled (notes=%s problems=%s): %s'
                          % (len(odd), touching, res['notes'], ';'.join(problems)[:200], short), dict(replay, expected='assembled'))
        return 'not-assembled'
    bad = judge_area(odd, area)
    ctx.count('rings:outer=%s,inner=%s' % (min(st.get('outer', 0), 9), min(st.get('inner', 0), 9)))
    if bad == ['inner-not-in-outer'] and near_coincident_heights(area):
        viol(ctx, KNOWN_ROUND_KEY,
             'the assembled area is not a valid multipolygon: an inner ring is attached to an outer ring that does not contain it. Below the '
             'minimum node of the inner ring, segments of two outer rings pass at heights that differ by less than 1e-6 of a coordinate unit: '
             'find_enclosing_ring() compares them as doubles (basic_assembler.hpp: `const double y = ...`), which cannot tell them apart for '
             'coordinates of this magnitude. Input: %s -> %s' % (short, res['raw'][:600]), dict(replay, failing_clauses=bad))
        return 'bad:' + ','.join(bad)
    if bad == ['inner-not-in-outer'] and tie_at_shared_min_node(area):
        viol(ctx, KNOWN_TIE_KEY,
             'the assembled area is not a valid multipolygon: an inner ring is attached to an outer ring that does not directly enclose it '
             '(the covered region differs from the even-odd fill). Several outer rings touch in a node at or directly below the minimum node '
             'of the inner ring: find_enclosing_ring() gives all their segments starting there the same y and picks by list order. '
             'Input: %s -> %s' % (short, res['raw'][:600]), dict(replay, failing_clauses=bad))
        return 'bad:' + ','.join(bad)
    if bad:
        viol(ctx, 'invalid-area:%s:%s' % (','.join(bad), short[:80]),
                      'the assembled area violates the validity spec (%s): %s -> %s' % (','.join(bad), short, res['raw'][:600]),
                      dict(replay, failing_clauses=bad))
        return 'bad:' + ','.join(bad)
    # region equality on sample points (independent of the ring-nesting formulation)
    pts = [p for _, r in area for p in r]
    xs = [p[0] for p in pts]
    ys = [p[1] for p in pts]
    for _ in range(6):
        p2 = (2 * min(xs) - 1 + ctx.rng.below(2 * (max(xs) - min(xs)) + 3), 2 * min(ys) - 1 + ctx.rng.below(2 * (max(ys) - min(ys)) + 3))
        if on_any(p2, odd):
            continue
        if covered(p2, area) != evenodd(p2, odd):
            viol(ctx, 'region-mismatch:%s' % short[:80], 'point %s/2: covered by the area = %s but even-odd fill of the input = %s: %s'
                          % (p2, covered(p2, area), evenodd(p2, odd), short), dict(replay, point2=p2))
            break
    # every ring node is an input node at that location
    nodeset = set(n for w in case.ways for n in w)
    for k, nodes in res['areas'][0][2]:
        for nd in nodes:
            if nd not in nodeset:
                viol(ctx, 'foreign-node:%s' % short[:80], 'ring node %s is not an input node: %s' % (nd, short), replay)
                break
    return 'ok'



# --------------------------------------------------------------------------------------------------
# ring building step by step (op `rb`)
# --------------------------------------------------------------------------------------------------


def rb_op(segs):
    return 'rb ' + ' '.join('%d %d %d %d' % (a + b) for a, b in segs)


def parse_rb(line):
    """-> dict of the fields of an rb output line"""
    f = {'raw': line, 'kind': 'early'}
    toks = line.split(' ')
    i = 0
    while i < len(toks):
        t = toks[i]
        if '=' in t:
            k, v = t.split('=', 1)
            f[k] = v
        else:
            f.setdefault('flags', []).append(t)
        i += 1
    if 'flags' in f:
        for fl in f['flags']:
            if fl in ('simple', 'complex', 'toomany'):
                f['kind'] = fl
    elif 'ret' in f:
        f['kind'] = 'rejected'
    if f.get('ret') == '0':
        f['kind'] = 'rejected'
    return f


def parse_entries(tok):
    out = []
    for e in tok.split(','):
        i, r = e.split('.')
        out.append((int(i), r == '1'))
    return out


def parse_locs(tok):
    if tok == '-':
        return []
    return [tuple(int(c) for c in p.split(':')) for p in tok.split(';')]


def entry_start_stop(segs, e):
    a, b = segs[e[0]]
    return (b, a) if e[1] else (a, b)


def components(segs):
    """connected components of the graph 'segments sharing an end point' -> list of frozensets of indices"""
    at = {}
    for i, (a, b) in enumerate(segs):
        at.setdefault(a, []).append(i)
        at.setdefault(b, []).append(i)
    seen = set()
    comps = []
    for i in range(len(segs)):
        if i in seen:
            continue
        stack = [i]
        seen.add(i)
        comp = set()
        while stack:
            j = stack.pop()
            comp.add(j)
            for p in segs[j]:
                for k in at[p]:
                    if k not in seen:
                        seen.add(k)
                        stack.append(k)
        comps.append(frozenset(comp))
    return comps


def check_rb_impl(ctx, op, f):
    """the PROVED properties of ring building, stated on the implementation's output (independent of the model)"""
    short = op if len(op) <= 300 else op[:300] + '...'
    replay = {'kind': 'counterexample', 'op': op, 'impl': f['raw'][:4000]}

    def bad(key, what):
        viol(ctx, 'rb-%s:%s' % (key, short[:80]), '%s: %s -> %s' % (what, short, f['raw'][:600]), replay)
        return False
    v = [int(t) for t in op.split()[1:]]
    inp = [nseg((v[i], v[i + 1]), (v[i + 2], v[i + 3])) for i in range(0, len(v), 4)]
    odd = odd_segments(inp)
    if int(f['n']) != len(odd):
        return bad('segments', 'segment list after duplicate cancellation has %s segments, %d have odd multiplicity' % (f['n'], len(odd)))
    if not odd:
        ctx.count('rb:nothing-left')
        return True
    pair = first_meeting_pair(odd)
    if (int(f['ix']) > 0) != (pair is not None):
        return bad('intersections', 'find_intersections=%s but the oracle says crossing pair = %s' % (f['ix'], pair))
    if pair is not None:
        ctx.count('rb:crossing')
        return True
    segs = parse_seglist(f['segs'])
    if sorted(segs) != odd:
        return bad('segments', 'segment list is not the list of odd-multiplicity segments')
    n = len(segs)
    # stage A: m_locations
    locs = parse_entries(f['locs'])
    if sorted(locs) != [(i, r) for i in range(n) for r in (False, True)]:
        return bad('locations-perm', 'm_locations is not a permutation of all (item, reverse) pairs')
    keyed = [((segs[i][1] if r else segs[i][0]), i, r) for i, r in locs]
    if keyed != sorted(keyed):
        return bad('locations-order', 'm_locations is not sorted by location with ties in push order (stable)')
    deg = {}
    for a, b in segs:
        deg[a] = deg.get(a, 0) + 1
        deg[b] = deg.get(b, 0) + 1
    oddn = sorted(p for p, d in deg.items() if d % 2 == 1)
    split = sorted(p for p, d in deg.items() if d >= 4)
    if parse_locs(f['opens']) != oddn or int(f['open']) != len(oddn) or (f['ret'] == '1') != (not oddn):
        return bad('open-rings', 'open ends reported %s (ret=%s), nodes of odd degree %s' % (f['opens'], f['ret'], oddn))
    if parse_locs(f['splits']) != split:
        return bad('split-locations', 'm_split_locations = %s, nodes of degree >= 4: %s' % (f['splits'], split))
    if oddn:
        ctx.count('rb:open-ring')
        return True
    comps = components(segs)
    if f['kind'] == 'simple':
        ctx.count('rb:simple')
        if 'rings' not in f:
            return bad('simple-no-rings', 'simple case produced no rings')
        rings = []
        for tok in f['rings'].split('|'):
            k, ent, sm = tok.split(':')
            rings.append((k, parse_entries(ent), int(sm)))
        used = sorted(i for _, ent, _ in rings for i, _ in ent)
        if used != list(range(n)):
            return bad('partition', 'the rings do not contain every segment exactly once')
        area = []
        for idx, (k, ent, sm) in enumerate(rings):
            pts = [entry_start_stop(segs, ent[0])[0]]
            for e in ent:
                st, sp = entry_start_stop(segs, e)
                if st != pts[-1]:
                    return bad('chain', 'ring %d is not a chain (segment %s does not start where the previous one stopped)' % (idx, e))
                pts.append(sp)
            if pts[0] != pts[-1]:
                return bad('closed', 'ring %d is not closed' % idx)
            if len(ent) < 3:
                return bad('min3', 'ring %d has fewer than 3 segments' % idx)
            if frozenset(i for i, _ in ent) not in comps:
                return bad('component', 'ring %d is not a connected component of the segment graph' % idx)
            if shoelace(pts) != sm:
                return bad('sum', 'm_sum of ring %d is %d, shoelace sum %d' % (idx, sm, shoelace(pts)))
            if (k == 'O' and sm <= 0) or (k != 'O' and sm >= 0):
                return bad('orientation', 'ring %d (%s) has m_sum %d after fix_direction' % (idx, k, sm))
            if k != 'O':
                oi = int(k[1:])
                if oi >= idx or rings[oi][0] != 'O':
                    return bad('outer-link', 'inner ring %d is attached to ring %d which is not an earlier outer ring' % (idx, oi))
            area.append((k, pts, idx))
        if rings[0][0] != 'O' or 0 not in [i for i, _ in rings[0][1]]:
            return bad('first-ring', 'the first ring is not an outer ring containing the minimum segment')
        ctx.count('rb:simple:rings=%s,inner=%s' % (min(len(rings), 9), min(sum(1 for k, _, _ in rings if k != 'O'), 9)))
        # nesting: judged like an assembled area (outer rings followed by their inner rings)
        out = []
        for k, pts, idx in area:
            if k == 'O':
                out.append(('O', pts))
                for k2, pts2, _ in area:
                    if k2 == 'I%d' % idx:
                        out.append(('I', pts2))
        jb = judge_area(odd, out)
        if jb == ['inner-not-in-outer'] and near_coincident_heights(out):
            viol(ctx, KNOWN_ROUND_KEY, 'create_rings_simple_case: an inner ring is attached to an outer ring that does not contain it; below its minimum '
                 'node two outer rings pass at heights < 1e-6 apart (find_enclosing_ring compares doubles). Input: %s -> %s' % (short, f['raw'][:600]),
                 dict(replay, failing_clauses=jb))
        elif jb:
            return bad('invalid-nesting', 'the rings of the simple case violate the validity spec (%s)' % ','.join(jb))
        return True
    if f['kind'] == 'toomany':
        ctx.count('rb:over-100-split-locations')
        return True
    if f['kind'] != 'complex' or 'pieces' not in f:
        return bad('no-case', 'neither simple nor complex case taken')
    ctx.count('rb:complex')
    pieces = [parse_entries(t) for t in f['pieces'].split('|')]
    used = sorted(i for p in pieces for i, _ in p)
    if used != list(range(n)):
        return bad('pieces-partition', 'the partial rings do not contain every segment exactly once')
    splitset = set(split)
    for idx, ent in enumerate(pieces):
        st0 = entry_start_stop(segs, ent[0])[0]
        cur = st0
        for j, e in enumerate(ent):
            st, sp = entry_start_stop(segs, e)
            if st != cur:
                return bad('piece-chain', 'partial ring %d is not a chain' % idx)
            if j > 0 and st in splitset:
                return bad('piece-through-split', 'partial ring %d runs through the split location %s' % (idx, st))
            cur = sp
        if cur != st0 and (cur not in splitset or st0 not in splitset):
            return bad('piece-end', 'partial ring %d is open but does not end in split locations on both sides' % idx)
    ctx.count('rb:complex:pieces=%s,splits=%s' % (min(len(pieces), 9) if len(pieces) < 10 else '10+', min(len(split), 9) if len(split) < 10 else '10+'))
    # the final rings of the REAL create_rings_complex_case are chains of these pieces
    fin = f.get('final', '')
    if fin.startswith('1:'):
        finals = [parse_entries(t) for t in fin[2:].split('|')]
        pos = {}
        for ri, ent in enumerate(finals):
            for k, (i, _) in enumerate(ent):
                pos[i] = (ri, k)
        for idx, ent in enumerate(pieces):
            rs = set(pos[i][0] for i, _ in ent)
            if len(rs) != 1:
                return bad('piece-split-over-rings', 'partial ring %d is spread over several final rings' % idx)
            ks = [pos[i][1] for i, _ in ent]
            L = len(finals[next(iter(rs))])
            fwd = all((ks[j + 1] - ks[j]) % L == 1 for j in range(len(ks) - 1))
            bwd = all((ks[j] - ks[j + 1]) % L == 1 for j in range(len(ks) - 1))
            if not (fwd or bwd):
                return bad('piece-not-contiguous', 'partial ring %d is not a contiguous chain of a final ring' % idx)
        ctx.count('rb:complex:final-rings-checked')
    return True


def gen_rb_inputs(ctx, quick):
    """segment lists for the rb stream: (family, [segments], group)"""
    rng = ctx.rng
    out = []
    gid = [0]

    def variants(name, segs, nvar):
        gid[0] += 1
        base = list(segs)
        out.append((name, base, gid[0]))
        for _ in range(nvar):
            sv = [(b, a) if rng.chance(1, 2) else (a, b) for a, b in base]
            pts = sorted(set(p for s in base for p in s))
            for _k in range(rng.below(3)):
                a = rng.choice(pts)
                b = rng.choice(pts)
                if a != b:
                    sv += [(a, b), (b, a)] if rng.chance(1, 2) else [(a, b), (a, b)]
            rng.shuffle(sv)
            out.append((name, sv, gid[0]))

    nvalid = 700 if quick else 40000
    for _ in range(nvalid):
        rings, name = gen_valid_rings(rng, quick)
        if rings is None:
            continue
        segs = [s for r in rings for s in ring_segs(r)]
        variants(name, segs, rng.choice([0, 1, 1, 2]))
        if rng.chance(1, 4) and len(segs) > 3:
            k = rng.below(len(segs))
            variants(name + '-minus-segment', segs[:k] + segs[k + 1:], 0)
        if rng.chance(1, 6):
            # the same with one segment three times (one copy survives) and one twice (cancels)
            k = rng.below(len(segs))
            j = rng.below(len(segs))
            variants(name + '-dups', segs + [segs[k], segs[k]] + ([segs[j]] if j != k else []), 1)
    # non-touching nests: the simple case with find_enclosing_ring at every depth, small and huge coordinates
    for _ in range(500 if quick else 30000):
        size = rng.choice([12, 16, 24, 32, 48])
        rings, meta = gen_nested(rng, size, rng.choice([2, 3, 4, 5]), rng.choice([4, 8, 12, 16]))
        if not rings or not valid_ringset(rings):
            continue
        rings = affine(rng, rings, big=rng.chance(1, 2))
        variants('simple-nested', [s for r in rings for s in ring_segs(r)], 1 if rng.chance(1, 3) else 0)
    # every degree pattern on tiny grids: closed walks (figure-eights, touching loops), open chains, soups
    for _ in range(900 if quick else 60000):
        g = rng.choice([3, 3, 4, 5])
        segs = []
        for _w in range(1 + rng.below(3)):
            nn = 3 + rng.below(6)
            ps = []
            while len(ps) < nn:
                p = (rng.below(g), rng.below(g))
                if not ps or ps[-1] != p:
                    ps.append(p)
            if ps[0] != ps[-1] and rng.chance(4, 5):
                ps.append(ps[0])
            segs += [(ps[i], ps[i + 1]) for i in range(len(ps) - 1)]
        variants('walks', segs, 1 if rng.chance(1, 4) else 0)
    # explicit figure-eights / bow-ties with a node at the crossing, and chains of them
    for _ in range(60 if quick else 2000):
        k = 1 + rng.below(4)
        segs = []
        x = 0
        for _j in range(k + 1):
            w = 1 + rng.below(3)
            h = 1 + rng.below(3)
            loop = [(x, 0), (x + w, h), (x + 2 * w, 0), (x + w, -h), (x, 0)] if rng.chance(1, 2) else [(x, 0), (x + 2 * w, h), (x + 2 * w, -h), (x, 0)]
            segs += ring_segs(loop)
            x += 2 * w
        variants('figure-eight', segs, 1)
    return out


def ring_building_stream(ctx, hbin, model_bin, quick):
    rng = ctx.rng
    inputs = []
    cdir = os.path.join(vlib.ROOT, 'corpus', 'C10')
    if os.path.isdir(cdir):
        for fn in sorted(os.listdir(cdir)):
            if fn.endswith('.ops'):
                with open(os.path.join(cdir, fn)) as fh:
                    for l in fh:
                        l = l.strip()
                        if l.startswith('rb '):
                            inputs.append(('corpus:' + fn, l, None))
    for name, segs, g in gen_rb_inputs(ctx, quick):
        segs = [s for s in segs if s[0] != s[1] and max(abs(c) for p in s for c in p) <= B29]
        if segs:
            inputs.append((name, rb_op(segs), g))
    ops = [op for _, op, _ in inputs]
    text = '\n'.join(ops) + '\n'
    res = {}
    import threading

    def runner(key, cmd):
        try:
            res[key] = ctx.run_lines(cmd, text, timeout=600)
        except Exception as e:   # timeout
            res[key] = (-1, [], 'exception: %r' % (e,))
    th = [threading.Thread(target=runner, args=('impl', [hbin]))]
    if model_bin:
        th.append(threading.Thread(target=runner, args=('model', [model_bin])))
    for t in th:
        t.start()
    for t in th:
        t.join()
    rc_, impl, se = res['impl']
    if rc_ != 0 or len(impl) != len(ops):
        # the harness flushes before every rb op and a watchdog ends it after 20 s: the op it died on is the next one
        if len(impl) < len(ops):
            op = ops[len(impl)]
            viol(ctx, 'rb-crash:' + op[:90], 'the real ring-building code crashes, runs out of memory or does not terminate within 20 s (rc=%s %s) on `%s`'
                 % (rc_, se[-200:], op[:600]), {'kind': 'counterexample', 'op': op, 'stderr': se[-2000:]})
        else:
            viol(ctx, 'harness-crash:rb', 'harness exited %d after %d of %d rb ops: %s' % (rc_, len(impl), len(ops), se[-300:]),
                 {'kind': 'harness-crash', 'stderr': se[-2000:]}, found_input=False)
            return
        # the lines printed before the crash are still judged
        inputs = inputs[:len(impl)]
        ops = ops[:len(impl)]
        res.pop('model', None)
        if not ops:
            return
    ctx.count('op:rb', len(ops))
    ctx.sample(ops[0][:400])
    ctx.sample(ops[len(ops) // 2][:400])
    parsed = []
    for (name, op, g), line in zip(inputs, impl):
        ctx.note_case(op)
        ctx.count('rb-family:' + name)
        try:
            if line.startswith('exception:'):
                parsed.append({'raw': line, 'kind': 'exception'})
                viol(ctx, 'rb-crash:' + op[:90], 'the real ring-building code throws %s on `%s`' % (line, op[:600]), {'kind': 'counterexample', 'op': op, 'impl': line})
                continue
            f = parse_rb(line)
            parsed.append(f)
            check_rb_impl(ctx, op, f)
        except Exception as e:
            parsed.append({'raw': line, 'kind': 'unparsable'})
            viol(ctx, 'rb-output:' + op[:80], 'unexpected harness output %r for `%s`: %s' % (e, op[:300], line[:300]), {'kind': 'harness', 'op': op}, found_input=False)
    # order independence: the same segment multiset in another order / direction / with cancelling pairs gives the SAME line
    groups = {}
    for (name, op, g), line in zip(inputs, impl):
        if g is not None:
            groups.setdefault(g, []).append((op, line))
    for g, members in groups.items():
        ref = members[0]
        for op, line in members[1:]:
            if line != ref[1]:
                viol(ctx, 'rb-order-dependence:%s' % ref[0][:80], 'the same segment multiset listed in another order/direction gives different ring-building results:\n  A: %s -> %s\n  B: %s -> %s'
                     % (ref[0][:400], ref[1][:400], op[:400], line[:400]), {'kind': 'counterexample', 'op': op, 'op_reference': ref[0]})
                break
        if len(members) > 1:
            ctx.count('rb:order-groups')
    if 'model' in res:
        rcm, model, sem = res['model']
        impl_c = [l.split(' final=')[0] for l in impl]
        dis = ctx.diff_streams('c10-ring-building-model-vs-impl', ops, impl_c, model)
        if dis and not [v for v in ctx.violations if v.key.startswith('rb-')]:
            i, op, a, b = dis[0]
            viol(ctx, 'correspondence:rb:' + op[:90],
                 'model and implementation disagree on ring building (%d lines, first: `%s`\n  impl =%s\n  model=%s) and no property monitor fired on the implementation'
                 % (len(dis), op[:400], a[:600], b[:600]), {'kind': 'broken-correspondence', 'stream': 'c10-ring-building-model-vs-impl', 'first': dis[:5]}, found_input=False)


def run(ctx):
    rng = ctx.rng
    quick = ctx.tier == 'quick'
    ctx.level = 'proof'
    ctx.rule = ('seg: every ordered pair of non-degenerate segments with end points on a 5x5 grid (360 000 lines) + random pairs with '
                'coordinates up to +-2^29 (biased to shared end points / collinear / parallel); list: random segment lists with duplicates; '
                'extract/ring: random ways and rings; asm: generated way sets (valid multipolygons cut into ways, permuted, reversed, with '
                'cancelling duplicate pairs; the same with a crossing / an open ring; random closed-walk soups); every asm input is decided by an '
                'independent oracle and every produced area is judged by the oracle and by the Lean specification `Valid`. '
                'rb: ring building step by step on segment lists (valid multipolygons nested to depth 5 / touching / checkerboards / fans / cell boundaries, '
                'the same minus a segment, with triple and double segments, closed and open walks on tiny grids, figure-eights; each also shuffled, with '
                'segment directions swapped and cancelling pairs added): m_locations, open-ring reports, m_split_locations, the rings of the simple case '
                '(segment, reverse) with outer/inner link and m_sum, the partial rings of the complex case — diffed exactly against the model, and judged by '
                'monitors that state the proved properties on the output of the real code. '
                'distinct = distinct op lines (seg lines with both segments equal or disjoint bounding boxes are counted as trivial)')
    ctx.assumptions += [
        'coordinates within +-2^29 (the property quantifier): int64 intermediates cannot overflow (theorem no_overflow)',
        'at most 100 touching points (BasicAssembler::max_split_locations); inputs above that are generated rarely and not judged',
        'the intersection POINT returned by calculate_intersection for a proper crossing (float arithmetic) is not modelled, only the decision',
        'ring building: create_locations_list, find_split_locations, get_next_segment, add_new_ring, create_rings_simple_case, add_new_ring_complex and the cutting '
        'loops of create_rings_complex_case are modelled and proved (termination, closed rings, >= 3 segments, partition, connected components, orientation); '
        'find_enclosing_ring (double arithmetic) is modelled executably with Lean Float and compared bit-exactly through its effects, but nothing is proved about '
        'which outer ring it picks; try_to_merge / join_connected_rings / find_candidates / find_inner_outer_complex are NOT modelled: their output is judged by the executable spec',
        'locations in segments are valid() (extract_segments_from_way skips the others), in particular never the undefined location (2147483647, 2147483647) '
        'that find_split_locations uses as initial previous_location',
        'std::stable_sort / std::lower_bound / std::equal_range behave as specified (model: stable insertion sort, first element not smaller, elements neither smaller nor larger); '
        'theorem locations_list_unique shows the stable-sorted list is unique',
        'm_sum is an unbounded integer in the model; the int64 partial sums of the real code can exceed 2^63 only for rings with > 16 segments whose partial polygons wind '
        'several times around a region of ~2^60 units (not generated); the final sum fits whenever twice the ring area does',
    ]
    ctx.trusted += ['hand transcription of node_ref_segment.hpp / segment_list.hpp / proto_ring.hpp into lean/Osmium/Model/Area.lean, checked by the correspondence streams',
                    'harness/c10.cpp compiled with -fno-access-control (reads private members, does not change behaviour)']

    # ---- 1. proofs ---------------------------------------------------------------------------------
    proof_ok = ctx.proof_stage(exes=['model_c10'])

    # ---- 2. harness ----------------------------------------------------------------------------------
    hbin, err = vlib.build_cpp('c10', ['c10.cpp'], flags=['-fno-access-control'])
    if hbin is None:
        viol(ctx, 'harness-build', 'harness does not compile against the current tree: ' + err[-600:],
                      {'kind': 'harness-build', 'stderr': err}, found_input=False)
        return
    model_bin = ctx.model_exe('model_c10') if ctx.exe_build_ok else None

    if getattr(ctx, 'replay', None):
        with open(ctx.replay) as f:
            rp = json.load(f)
        op = rp.get('op')
        if op:
            rc, impl, se = ctx.run_lines([hbin], op + '\n')
            vlib.log('replay op : ' + op[:2000])
            vlib.log('  impl    : ' + (impl[0][:2000] if impl else '<none>'))
            if model_bin:
                rc2, model, se2 = ctx.run_lines([model_bin], op + '\n')
                vlib.log('  model   : ' + (model[0] if model else '<none>'))
            if op.startswith('asm') and impl:
                case = case_from_op(op)
                evaluate_case(ctx, case, op, parse_asm(impl[0]), None, None)
            elif op.startswith('seg') and impl:
                check_seg_line(ctx, op, impl[0])
            elif op.startswith('rb') and impl:
                check_rb_impl(ctx, op, parse_rb(impl[0]))
        return

    # ---- 3. correspondence (a): segment functions ------------------------------------------------------
    seg_ops = []
    pts = [(x, y) for x in range(5) for y in range(5)]
    for a in pts:
        for b in pts:
            if a == b:
                continue
            for c in pts:
                for d in pts:
                    if c == d:
                        continue
                    seg_ops.append('seg %d %d %d %d %d %d %d %d' % (a + b + c + d))
    nrand = 30000 if quick else 2000000

    def rc():
        k = rng.below(4)
        if k == 0:
            return rng.below(2 * B29 + 1) - B29
        if k == 1:
            return rng.choice([-B29, B29, B29 - 1, -B29 + 1, 0, 1, -1])
        if k == 2:
            return rng.below(21) - 10
        return rng.below(2001) - 1000
    for _ in range(nrand):
        a = (rc(), rc())
        b = (rc(), rc())
        if a == b:
            continue
        k = rng.below(8)
        if k == 0:
            c, d = a, (rc(), rc())
        elif k == 1:
            c, d = (rc(), rc()), b
        elif k == 2:
            # collinear: points a + t(b-a)/g
            import math
            g = math.gcd(b[0] - a[0], b[1] - a[1])
            ux, uy = (b[0] - a[0]) // g, (b[1] - a[1]) // g
            t1 = rng.below(2 * g + 5) - g // 2 - 2
            t2 = rng.below(2 * g + 5) - g // 2 - 2
            c, d = (a[0] + t1 * ux, a[1] + t1 * uy), (a[0] + t2 * ux, a[1] + t2 * uy)
        elif k == 3:
            # parallel
            sx, sy = rng.below(7) - 3, rng.below(7) - 3
            c, d = (a[0] + sx, a[1] + sy), (b[0] + sx, b[1] + sy)
        elif k == 4:
            # end point of t on s (T junction) when the midpoint is integral
            m = ((a[0] + b[0]) // 2, (a[1] + b[1]) // 2)
            c, d = m, (rc(), rc())
        else:
            c, d = (rc(), rc()), (rc(), rc())
        if c == d or max(abs(v) for v in c + d) > B29:
            continue
        seg_ops.append('seg %d %d %d %d %d %d %d %d' % (a + b + c + d))

    list_ops = []
    for _ in range(4000 if quick else 80000):
        n = 1 + rng.below(14)
        g = rng.choice([2, 3, 4, 6, 1000])
        segs = []
        while len(segs) < n:
            a = (rng.below(g), rng.below(g))
            b = (rng.below(g), rng.below(g))
            if a != b:
                segs.append((a, b))
                while rng.chance(1, 3) and len(segs) < n:
                    segs.append((b, a) if rng.chance(1, 2) else (a, b))
        rng.shuffle(segs)
        list_ops.append('list ' + ' '.join('%d %d %d %d' % (a + b) for a, b in segs))
    ext_ops = []
    for _ in range(2000 if quick else 40000):
        n = rng.below(9)
        nodes = []
        for i in range(n):
            k = rng.below(10)
            if k == 0:
                p = (rng.choice([1800000001, -1800000001, 2147483647, 5]), rng.choice([5, 900000001, 2147483647, -900000001]))
            elif k < 4 and nodes:
                p = (nodes[-1][1], nodes[-1][2])
            else:
                p = (rng.below(5) * rng.choice([1, 400000000]) - 3, rng.below(5) - 2)
            nodes.append((i + 1, p[0], p[1]))
        ext_ops.append('extract ' + ' '.join('%d:%d:%d' % nd for nd in nodes))
    ring_ops = []
    for _ in range(2000 if quick else 40000):
        n = 3 + rng.below(6)
        g = rng.choice([4, 8, 1000, B29])
        ps = []
        while len(ps) < n:
            p = (rng.below(2 * g + 1) - g, rng.below(2 * g + 1) - g)
            if not ps or p != ps[-1]:
                ps.append(p)
        if ps[0] != ps[-1]:
            ps.append(ps[0])
        ring_ops.append('ring %s ' % rng.choice('oi') + ' '.join('%d %d' % p for p in ps))
    basic_ops = seg_ops + list_ops + ext_ops + ring_ops
    text = '\n'.join(basic_ops) + '\n'
    res = {}

    import threading

    def runner(key, cmd, txt):
        res[key] = ctx.run_lines(cmd, txt)
    th = [threading.Thread(target=runner, args=('impl', [hbin], text))]
    if model_bin:
        th.append(threading.Thread(target=runner, args=('model', [model_bin], text)))
    for t in th:
        t.start()

    # ---- 4. generate assembler cases while the basic streams run -----------------------------------------
    cases = gen_cases(ctx, quick)
    for t in th:
        t.join()
    rc_, impl, se = res['impl']
    if rc_ != 0 or len(impl) != len(basic_ops):
        viol(ctx, 'harness-crash', 'harness exited %d after %d of %d lines: %s' % (rc_, len(impl), len(basic_ops), se[-500:]),
                      {'kind': 'harness-crash', 'stderr': se[-2000:], 'op': basic_ops[len(impl)] if len(impl) < len(basic_ops) else ''}, found_input=False)
        return
    model = res['model'][1] if 'model' in res else None
    ctx.count('op:seg', len(seg_ops))
    ctx.count('op:list', len(list_ops))
    ctx.count('op:extract', len(ext_ops))
    ctx.count('op:ring', len(ring_ops))
    ctx.sample(seg_ops[123457 % len(seg_ops)])
    ctx.sample(seg_ops[-1])
    ctx.sample(list_ops[5])
    ctx.sample(ring_ops[3])

    # monitors on the implementation: decision of calculate_intersection vs the oracle, order laws
    for op, line in zip(seg_ops, impl):
        check_seg_line(ctx, op, line)
    for op, line in zip(list_ops, impl[len(seg_ops):]):
        check_list_line(ctx, op, line)

    if model is not None:
        # canonicalise: the model prints "1:?" for a proper crossing and appends "# case case"
        impl_c = []
        model_c = []
        for k, (a, b) in enumerate(zip(impl, model)):
            if k < len(seg_ops):
                left, _, cs = b.partition(' # ')
                for cname in cs.split():
                    ctx.count('branch:intersect:' + cname)
                bw = left.split(' ')
                aw = a.split(' ')
                if len(aw) == len(bw):
                    for i in (7, 8):
                        if bw[i] == '1:?' and aw[i].startswith('1:'):
                            aw[i] = '1:?'
                impl_c.append(' '.join(aw))
                model_c.append(left)
            else:
                impl_c.append(a)
                model_c.append(b)
        dis = ctx.diff_streams('c10-segments-model-vs-impl', basic_ops, impl_c, model_c)
        if dis and not ctx.violations:
            i, op, a, b = dis[0]
            viol(ctx, 'correspondence:' + op[:100],
                          'model and implementation disagree (%d lines, first: `%s` impl=%s model=%s) and no property violation was found on the implementation around it'
                          % (len(dis), op[:300], a[:300], b[:300]), {'kind': 'broken-correspondence', 'stream': 'c10-segments-model-vs-impl', 'first': dis[:5]}, found_input=False)
    elif proof_ok:
        viol(ctx, 'model-driver-build', 'model driver does not build', {'kind': 'broken-correspondence'}, found_input=False)

    # ---- 4b. ring building step by step (before the assembler runs: a defect there is reported at its origin) ----
    ring_building_stream(ctx, hbin, model_bin, quick)

    # ---- 5. assembler runs ------------------------------------------------------------------------------
    asm_ops = []
    ccases = []
    cdir = os.path.join(vlib.ROOT, 'corpus', 'C10')
    if os.path.isdir(cdir):
        for fn in sorted(os.listdir(cdir)):
            if fn.endswith('.ops'):
                with open(os.path.join(cdir, fn)) as f:
                    for l in f:
                        l = l.strip()
                        if l.startswith('asm'):
                            asm_ops.append(l)
                            ccases.append(case_from_op(l, family='corpus:' + fn))
    asm_ops += [ways_to_op(c) for c in cases]
    cases = ccases + cases
    atext = '\n'.join(asm_ops) + '\n'
    th = [threading.Thread(target=runner, args=('aimpl', [hbin], atext))]
    if model_bin:
        th.append(threading.Thread(target=runner, args=('amodel', [model_bin], atext)))
    for t in th:
        t.start()
    for t in th:
        t.join()
    rc_, aimpl, se = res['aimpl']
    if rc_ != 0 or len(aimpl) != len(asm_ops):
        at = asm_ops[len(aimpl)] if len(aimpl) < len(asm_ops) else ''
        viol(ctx, 'harness-crash:asm', 'harness exited %d after %d of %d assembler ops: %s; op: %s' % (rc_, len(aimpl), len(asm_ops), se[-300:], at[:500]),
                      {'kind': 'harness-crash', 'stderr': se[-2000:], 'op': at})
        return
    amodel = res['amodel'][1] if 'amodel' in res else None
    parsed = [parse_asm(l) for l in aimpl]
    judge_ops = []
    judge_idx = []
    oracle_verdicts = []
    for k, (c, op, r) in enumerate(zip(cases, asm_ops, parsed)):
        ctx.note_case(op)
        ctx.count('family:' + c.family)
        ctx.count('mode:' + c.mode)
        v = evaluate_case(ctx, c, op, r, None, None)
        oracle_verdicts.append(v)
        if r['areas'] and r['areas'][0][2]:
            body = r['raw'].split('[', 1)[1].split(']', 1)[0]
            judge_ops.append('judge ' + op[4:] + ' ## ' + body)
            judge_idx.append(k)
        st = r['stats']
        ctx.count('case:' + ('complex' if st.get('complex') else 'touching' if st.get('touchcase') else 'simple' if st.get('simple') else 'rejected-early'))
    for s in (asm_ops[0], asm_ops[len(asm_ops) // 2]):
        ctx.sample(s[:400])

    # correspondence: stats of the real assembler vs the model's preCheck
    if amodel is not None:
        impl_c = []
        model_c = []
        for c, r, m in zip(cases, parsed, amodel):
            st = r['stats']
            if not st:
                impl_c.append('no-stats')
                model_c.append(m)
                continue
            if m.startswith('invalid=') and ' ' not in m:
                impl_c.append('invalid=%d' % st['invalid'] if c.mode in 'wr' else m)
                model_c.append(m)
                continue
            mk = dict(kv.split('=') for kv in m.split(' ')) if '=' in m else {}
            if c.mode in 'wr':
                impl_c.append('invalid=%d nodes=%d overlap=%d ix=%d open=%s touching=%d' % (
                    st['invalid'], st['nodes'], st['overlap'], st['ix'],
                    # join_connected_rings() adds to open_rings when it finds no candidate; the pre-check value is what is compared
                    st['open'] if st['touchcase'] == 0 else mk.get('open', '?'), st['touching']))
                model_c.append('invalid=%s nodes=%s overlap=%s ix=%s open=%s touching=%s' % tuple(mk.get(k, '?') for k in ('invalid', 'nodes', 'overlap', 'ix', 'open', 'touching')))
            else:
                # MultipolygonManager sums stats with area_stats::operator+= (which drops some fields)
                impl_c.append('nodes=%d ix=%d touching=%d' % (st['nodes'], st['ix'], st['touching']))
                model_c.append('nodes=%s ix=%s touching=%s' % tuple(mk.get(k, '?') for k in ('nodes', 'ix', 'touching')))
            # erased pairs: duplicate_segments counts a pair unless both copies are role inner of different ways
            if c.mode in 'wr' and mk and 'pairs' in mk and st['dupsegs'] > int(mk['pairs']):
                viol(ctx, 'dupsegs-count:' + asm_ops[0][:60], 'duplicate_segments=%d exceeds the number of erased pairs %s' % (st['dupsegs'], mk['pairs']),
                              {'kind': 'counterexample', 'op': ways_to_op(c)})
        dis = ctx.diff_streams('c10-precheck-model-vs-impl', asm_ops, impl_c, model_c)
        if dis and not ctx.violations:
            i, op, a, b = dis[0]
            viol(ctx, 'correspondence:asm:' + op[:90],
                          'model preCheck and the real assembler statistics disagree (%d lines, first: `%s` impl=%s model=%s)' % (len(dis), op[:400], a, b),
                          {'kind': 'broken-correspondence', 'stream': 'c10-precheck-model-vs-impl', 'first': dis[:5]}, found_input=False)

    # the executable Lean specification judges every produced area
    if model_bin and judge_ops:
        rcj, jout, sej = ctx.run_lines([model_bin], '\n'.join(judge_ops) + '\n')
        want = []
        for k in judge_idx:
            v = oracle_verdicts[k]
            want.append('ok' if v in ('ok', 'over100') else v if v.startswith('bad:') else '?')
        got = []
        for k, j in zip(judge_idx, jout):
            ctx.count('lean-spec:' + ('ok' if j == 'ok' else 'bad'))
            got.append(j)
        # the Lean spec and the Python oracle must agree on validity whenever the oracle judged the area
        a_c = []
        b_c = []
        for k, w, g in zip(judge_idx, want, got):
            if w == '?':
                # the oracle expected a rejection (already a violation) — the Lean spec must not say ok either
                a_c.append('not-ok')
                b_c.append('not-ok' if g != 'ok' else 'ok')
            else:
                a_c.append('ok' if w == 'ok' else 'bad')
                b_c.append('ok' if g == 'ok' else 'bad')
        dis = ctx.diff_streams('c10-lean-spec-vs-python-oracle', judge_ops, a_c, b_c)
        for i, op, a, b in dis[:1]:
            viol(ctx, 'spec-disagreement:' + op[:90], 'the Lean specification `Valid` says %s, the Python oracle says %s for the area produced from `%s`'
                          % (got[i], want[i], op[:500]), {'kind': 'counterexample' if b == 'bad' else 'broken-correspondence', 'op': op, 'lean': got[i], 'oracle': want[i]},
                          found_input=(b == 'bad'))

    # ---- 6. (c) permutation / reversal / re-cutting / role invariance ---------------------------------------
    groups = {}
    for c, op, r in zip(cases, asm_ops, parsed):
        if c.group is not None:
            groups.setdefault(c.group, []).append((c, op, r))
    for g, members in groups.items():
        ref = None
        for c, op, r in members:
            area = [(k, [p for _, p in nodes]) for k, nodes in r['areas'][0][2]] if r['areas'] else []
            cr = canon_rings(area)
            if ref is None:
                ref = (cr, op)
            elif cr != ref[0]:
                viol(ctx, 'order-dependence:%s' % ref[1][:80],
                              'the same segment multiset cut/ordered/directed differently gives a different ring set:\n  A: %s\n  B: %s' % (ref[1][:600], op[:600]),
                              {'kind': 'counterexample', 'op': op, 'op_reference': ref[1], 'rings': str(cr)[:1500], 'rings_reference': str(ref[0])[:1500]})
                break
        ctx.count('permutation-groups')


def case_from_op(op, family='replay'):
    w = op.split()
    c = Case()
    c.family = family
    c.mode = w[1]
    c.cfg = int(w[2])
    c.ways = []
    c.roles = []
    c.ids = []
    c.group = None
    c.note = ''
    for tok in w[3:]:
        if tok[0] == 'w':
            i, r = tok[1:].split(':')
            c.ids.append(int(i))
            c.roles.append(r)
            c.ways.append([])
        else:
            i, x, y = tok.split(':')
            c.ways[-1].append((int(i), (int(x), int(y))))
    return c


def check_seg_line(ctx, op, line):
    v = [int(t) for t in op.split()[1:]]
    s = nseg((v[0], v[1]), (v[2], v[3]))
    t = nseg((v[4], v[5]), (v[6], v[7]))
    w = line.split(' ')
    trivial = s == t or s[1][0] < t[0][0] or t[1][0] < s[0][0]
    ctx.note_case(op, nontrivial=not trivial)
    if len(w) != 9:
        viol(ctx, 'seg-output:' + op, 'unexpected harness output %s' % line, {'kind': 'harness', 'op': op}, found_input=False)
        return
    want = meets(s, t) and s != t
    for idx in (7, 8):
        got = w[idx] != '0'
        if got != want:
            viol(ctx, 'intersect-decision:' + op[4:], 'calculate_intersection(%s) says %s for segments %s %s; they %s share a point other than a common end point'
                          % ('s,t' if idx == 7 else 't,s', 'intersection' if got else 'no intersection', s, t, 'DO' if want else 'do NOT'),
                          {'kind': 'counterexample', 'op': op, 'impl': line, 'expected': want})
            return
        if got and max(abs(c) for c in v) <= 2 ** 20:
            # the returned location must lie (up to rounding) on both segments
            _, x, y = w[idx].split(':')
            x, y = int(x), int(y)
            for (a, b) in (s, t):
                if not (min(a[0], b[0]) - 1 <= x <= max(a[0], b[0]) + 1 and min(a[1], b[1]) - 1 <= y <= max(a[1], b[1]) + 1):
                    viol(ctx, 'intersect-point:' + op[4:], 'calculate_intersection returned (%d,%d), outside the bounding box of %s' % (x, y, (a, b)),
                                  {'kind': 'counterexample', 'op': op, 'impl': line})
                    return
    # order laws on the pair
    lt, gt, eq = w[0] == '1', w[1] == '1', w[2] == '1'
    if (lt and gt) or (eq != (s == t)) or (eq and (lt or gt)) or (not eq and not lt and not gt):
        viol(ctx, 'segment-order:' + op[4:], 'operator< / operator== inconsistent on %s %s: lt=%s gt=%s eq=%s' % (s, t, lt, gt, eq),
                      {'kind': 'counterexample', 'op': op, 'impl': line})


def parse_seglist(tok):
    if tok == '-':
        return []
    out = []
    for s in tok.split(';'):
        a, b, c, d = (int(x) for x in s.split(','))
        out.append(((a, b), (c, d)))
    return out


def check_list_line(ctx, op, line):
    ctx.note_case(op)
    v = [int(t) for t in op.split()[1:]]
    segs = [nseg((v[i], v[i + 1]), (v[i + 2], v[i + 3])) for i in range(0, len(v), 4)]
    f = dict(kv.split('=', 1) for kv in line.split(' '))
    srt = parse_seglist(f['sorted'])
    er = parse_seglist(f['erased'])
    odd = odd_segments(segs)
    replay = {'kind': 'counterexample', 'op': op, 'impl': line}
    if sorted(srt) != sorted(segs):
        viol(ctx, 'sort-loses-segments:' + op[:80], 'SegmentList::sort() output is not a permutation of its input', replay)
        return
    if sorted(er) != odd:
        viol(ctx, 'erase-duplicates-parity:' + op[:80], 'erase_duplicate_segments left %s, the segments of odd multiplicity are %s' % (er, odd), replay)
        return
    n = 0
    for i in range(len(er)):
        for j in range(i + 1, len(er)):
            if meets(er[i], er[j]):
                n += 1
    if int(f['ix']) != n:
        viol(ctx, 'sweep-count:' + op[:80], 'find_intersections reports %s, %d pairs cross/overlap' % (f['ix'], n), dict(replay, expected=n))
    ctx.count('list:ix=%d' % min(n, 3))


def gen_cases(ctx, quick):
    rng = ctx.rng
    cases = []
    nvalid = 420 if quick else 50000
    gid = [0]

    def add_group(name, rings, nvar):
        segs = [s for r in rings for s in ring_segs(r)]
        gid[0] += 1
        g = gid[0]
        # variant 0: one way per ring, as generated
        base = [list(r) for r in rings]
        cases.append(make_case(rng, name, base, group=g))
        for ways in variants(rng, segs, nvar):
            if rng.chance(1, 3):
                # cancelling duplicate pairs: a spike a->b->a, or the same extra segment in two ways
                pts = sorted(set(p for s in segs for p in s))
                a = rng.choice(pts)
                b = rng.choice(pts)
                if a != b:
                    if rng.chance(1, 2):
                        ways = ways + [[a, b, a]]
                    else:
                        ways = ways + [[a, b], [b, a]]
            rng.shuffle(ways)
            cases.append(make_case(rng, name, ways, group=g))
        return segs

    made = 0
    attempts = 0
    while made < nvalid and attempts < nvalid * 4:
        attempts += 1
        rings, name = gen_valid_rings(rng, quick)
        if rings is None:
            ctx.count('generator-rejected:' + name)
            continue
        made += 1
        segs = add_group(name, rings, rng.choice([1, 2, 3]))
        # a connected arrangement as ONE closed way (Euler circuit through the touching nodes)
        if rng.chance(1, 3):
            circ = euler_circuit(rng, segs)
            if circ is not None:
                cases.append(make_case(rng, 'euler-way', [circ], mode=rng.choice('wvr'), roles=['o']))
        # way mode: one ring as one closed way
        if rng.chance(1, 4) and len(rings[0]) > 3:
            r = rng.choice(rings)
            k = rng.below(len(r) - 1)
            rr = r[k:-1] + r[:k] + [r[k]]
            if rng.chance(1, 2):
                rr = rr[::-1]
            cases.append(make_case(rng, 'closed-way', [rr], mode=rng.choice('wv'), roles=['o']))
        # negative: the same with an open ring
        if rng.chance(1, 3):
            k = rng.below(len(segs))
            ways = cut_into_ways(rng, segs[:k] + segs[k + 1:])
            cases.append(make_case(rng, name + '-minus-segment', ways))
        # negative: the same with a crossing (an extra ring across an existing segment, or a moved node)
        if rng.chance(1, 3):
            a, b = rng.choice(segs)
            mx2, my2 = a[0] + b[0], a[1] + b[1]
            dx, dy = b[0] - a[0], b[1] - a[1]
            # a small triangle around the (doubled) midpoint in quadrupled coordinates
            s4 = [((4 * p[0], 4 * p[1]), (4 * q[0], 4 * q[1])) for p, q in segs]
            if max(max(abs(c) for c in p) for s in s4 for p in s) <= B29 - 8:
                c0 = (2 * mx2 - dy, 2 * my2 + dx)
                c1 = (2 * mx2 + dy, 2 * my2 - dx)
                c2 = (2 * mx2 + dy + dx, 2 * my2 - dx + dy)
                tri = [nseg(c0, c1), nseg(c1, c2), nseg(c2, c0)]
                if len(set((c0, c1, c2))) == 3 and max(max(abs(c) for c in p) for p in (c0, c1, c2)) <= B29:
                    ways = cut_into_ways(rng, s4 + tri)
                    cases.append(make_case(rng, name + '-plus-crossing-ring', ways))
        if rng.chance(1, 4) and len(rings[0]) > 3:
            # move one node of one ring far away: usually creates crossings (the oracle decides)
            rs = [list(r) for r in rings]
            i = rng.below(len(rs))
            k = rng.below(len(rs[i]) - 1)
            allp = [p for r in rs for p in r]
            q = rng.choice(allp)
            q = (q[0] + rng.below(3) - 1, q[1] + rng.below(3) - 1)
            if max(abs(q[0]), abs(q[1])) <= B29:
                rs[i][k] = q
                if k == 0:
                    rs[i][-1] = q
                sg = [s for r in rs for s in ring_segs(r) if s[0] != s[1]]
                cases.append(make_case(rng, name + '-node-moved', cut_into_ways(rng, sg)))
    # a dedicated block of notched rings touched in two or more nodes with holes inside (rings that have to be joined
    # from partial rings; holes classified against them), mostly untransformed, some mirrored / sheared
    for _ in range(160 if quick else 6000):
        rings = gen_notched(rng)
        if rings is None:
            continue
        if rng.chance(1, 3):
            rings = affine(rng, rings, big=rng.chance(1, 4))
        add_group('notched', rings, 1 if rng.chance(1, 3) else 0)
    # random closed-walk soups on tiny grids: everything is decided by the oracle
    for _ in range(220 if quick else 40000):
        g = rng.choice([3, 3, 4, 5])
        ways = []
        for _w in range(1 + rng.below(3)):
            n = 3 + rng.below(5)
            ps = []
            while len(ps) < n:
                p = (rng.below(g), rng.below(g))
                if not ps or ps[-1] != p:
                    ps.append(p)
            if ps[0] != ps[-1] and rng.chance(5, 6):
                ps.append(ps[0])
            ways.append(ps)
        cases.append(make_case(rng, 'soup', ways))
    # duplicate member ways / invalid locations (config paths)
    for _ in range(10 if quick else 200):
        r = rect_ring(0, 0, 4 + rng.below(4), 3)
        c = make_case(rng, 'duplicate-member', [r[:3], r[2:], r[:3]], mode=rng.choice('rm'))
        c.ids = [10, 11, 10]
        cases.append(c)
        bad = list(r)
        bad[1] = (1800000001, 0)
        cases.append(make_case(rng, 'invalid-location', [bad], mode='r', cfg=rng.choice([1, 5])))
    return cases
