"""C01, PBF part — write→read round trip of the PBF writer/decoder (DESIGN.md §3 C01).

Proof stage (done by the dispatcher c01.py): lean/Osmium/Props/C01Pbf.lean.
run_part:
 (a) byte-exact: real Writer (pbf_compression=none) vs `Pbf.encodeFile` of the model on generated object
     sequences x option vectors (dense/plain x metadata subsets x history x locations_on_ways);
 (b) cross: every file of the real Writer (zlib/lz4 too, inflated by the harness calling zlib/lz4 directly)
     decoded by the MODEL decoder, files of the MODEL encoder read by the real Reader;
 (c) monitors on the implementation alone: real write → real read must equal `project opts D`
     (computed HERE, independently of the Lean `project`), over options x compression x reader options;
     an independent framing walker checks blob ≤ 32 MiB, header ≤ 64 KiB, ≤ 8000 entities per block;
     `big` ops build string-table-heavy / dense-tag-heavy blocks (DESIGN.md F12).
"""
import os

import vlib

MODULES = ['Osmium.Props.C01Pbf']
EXES = ['model_pbf']
RULE = ('PBF/C01: case = (option vector, header, object sequence); sequences are type-directed: ids from {±1,±2,±2^31,±2^32,2^63-1,-2^63+1,random}, '
        'version/uid from {0,1,2^31-1,random}, timestamp/changeset from {0,1,2^32-2,2^32-1(ts),random}, users/keys/values/roles from a pool with repeats, '
        'empty string, multi-byte UTF-8 and a 1024-byte string, locations any int32 pair incl. undefined, 0/1/many tags, nodes, members, arbitrary '
        'type interleaving (block switches), runs of 7999/8000/8001 objects; option vectors: dense x 32 metadata subsets x history x locations_on_ways '
        '(sampled in quick, all 256 in thorough) x compression none/zlib/lz4 x reader options; non-trivial = at least one object')

UNDEF = 2147483647
MAXB = 32 * 1024 * 1024


def hx(b):
    return b.hex() or '-'


# ---------------------------------------------------------------- objects as dicts + canonical dump
def dump_loc(l):
    return '%d,%d' % (l[0], l[1])


def dump_meta(m):
    return '%d v%d %s t%d c%d u%d %s%s' % (m['id'], m['version'], 'V' if m['visible'] else 'D', m['timestamp'], m['changeset'], m['uid'],
                                          hx(m['user']), ''.join(' T%s=%s' % (hx(k), hx(v)) for k, v in m['tags']))


def dump(o):
    k = o['kind']
    if k == 'n':
        return 'n %s L%s' % (dump_meta(o), dump_loc(o['loc']))
    if k == 'w':
        return 'w %s%s' % (dump_meta(o), ''.join(' N%d@%s' % (r, dump_loc(l)) for r, l in o['nodes']))
    return 'r %s%s' % (dump_meta(o), ''.join(' M%d:%d:%s' % (t, r, hx(role)) for t, r, role in o['members']))


def dump_header(h):
    return 'h %s %s%s' % (hx(h['generator']), 'H' if h['hist'] else 'S', ''.join(' B%s;%s' % (dump_loc(a), dump_loc(b)) for a, b in h['boxes']))


class Opts:
    def __init__(self, dense=1, md=31, hist=0, low=0, comp='none'):
        self.dense, self.md, self.hist, self.low, self.comp = dense, md, hist, low, comp

    def s(self, with_comp=False):
        return 'D%dM%dH%dL%d' % (self.dense, self.md, self.hist, self.low) + ('C' + self.comp if with_comp else '')


def project(o, obj, ropts='N1W1R1M1'):
    """what a write(o) → read(ropts) cycle must return for obj (None: not returned) — the property's predicate,
    written from the property text: fields the options drop come back as defaults."""
    rn, rw, rr, rm = (int(ropts[1]), int(ropts[3]), int(ropts[5]), int(ropts[7]))
    k = obj['kind']
    if (k == 'n' and not rn) or (k == 'w' and not rw) or (k == 'r' and not rr):
        return None
    p = dict(obj)
    md = o.md if rm else 0
    hist = o.hist and rm
    p['version'] = obj['version'] if md & 1 else 0
    p['timestamp'] = obj['timestamp'] if md & 2 else 0
    p['changeset'] = obj['changeset'] if md & 4 else 0
    p['uid'] = obj['uid'] if md & 8 else 0
    p['user'] = obj['user'] if md & 16 else b''
    p['visible'] = obj['visible'] if hist else True
    if k == 'n' and hist and not obj['visible']:
        p['loc'] = (UNDEF, UNDEF)     # a deleted node has no location in a history file
    if k == 'w' and not o.low:
        p['nodes'] = [(r, (UNDEF, UNDEF)) for r, _ in obj['nodes']]
    return p


def valid(l):
    return -1800000000 <= l[0] <= 1800000000 and -900000000 <= l[1] <= 900000000


def join_boxes(boxes):
    bl = tr = None
    for a, b in boxes:
        for l in (a, b):
            if valid(l):
                if bl is None:
                    bl, tr = l, l
                else:
                    bl = (min(bl[0], l[0]), min(bl[1], l[1]))
                    tr = (max(tr[0], l[0]), max(tr[1], l[1]))
    return (bl, tr)


def project_header(o, h):
    return {'generator': h['generator'], 'hist': bool(o.hist), 'boxes': [join_boxes(h['boxes'])] if h['boxes'] else []}


def bbox_exact(c):
    """does the writer's double computation round-trip this coordinate?  (used only to keep the
    regular cases apart from the dedicated bbox monitor)"""
    v = int(c / 1e7 * 1e9)
    q = abs(v) // 100 * (1 if v >= 0 else -1)
    return q == c


# ---------------------------------------------------------------- generators
IDS = [1, -1, 2, -2, 2 ** 31, -2 ** 31, 2 ** 32, -2 ** 32, 2 ** 63 - 1, -2 ** 63 + 1, 0, 2 ** 31 - 1, 2 ** 62]
U31 = [0, 1, 2, 2 ** 31 - 1]
TS = [0, 1, 2 ** 32 - 1, 2 ** 32 - 2, 1700000000]
CS = [0, 1, 2 ** 32 - 2, 2 ** 32 - 1, 123456]
STR = [b'', b'a', b'highway', b'name', b'k=v', 'Straße'.encode(), '日本'.encode(), '\U0001f600'.encode(), b' ', b'%,@|', b'x' * 1024,
       ('é' * 512)]
STR = [s if isinstance(s, bytes) else s.encode() for s in STR]
COORD = [0, 1, -1, 1800000000, -1800000000, 900000000, -900000000, 2 ** 31 - 1, -2 ** 31, 2 ** 31 - 2, 123456789]


def pick(rng, base, lo, hi):
    if rng.chance(2, 3):
        return rng.choice(base)
    return lo + rng.below(hi - lo + 1)


def gen_str(rng):
    if rng.chance(3, 4):
        return rng.choice(STR)
    return bytes(rng.choice(b'abcdefghijklmnopqrstuvwxyz0123456789') for _ in range(1 + rng.below(12)))


def gen_loc(rng):
    if rng.chance(1, 8):
        return (UNDEF, UNDEF)
    return (pick(rng, COORD, -2 ** 31, 2 ** 31 - 1), pick(rng, COORD, -2 ** 31, 2 ** 31 - 1))


def gen_meta(rng, kind):
    ntags = rng.choice([0, 0, 1, 2, 5])
    return {'kind': kind, 'id': pick(rng, IDS, -2 ** 40, 2 ** 40), 'version': pick(rng, U31, 0, 2 ** 31 - 1), 'visible': not rng.chance(1, 4),
            'timestamp': pick(rng, TS, 0, 2 ** 32 - 1), 'changeset': pick(rng, CS, 0, 2 ** 32 - 1), 'uid': pick(rng, U31, 0, 2 ** 31 - 1),
            'user': gen_str(rng), 'tags': [(gen_str(rng), gen_str(rng)) for _ in range(ntags)]}


def gen_obj(rng, kind=None):
    kind = kind or rng.choice('nnwr')
    o = gen_meta(rng, kind)
    if kind == 'n':
        o['loc'] = gen_loc(rng)
    elif kind == 'w':
        o['nodes'] = [(pick(rng, IDS, -2 ** 40, 2 ** 40), gen_loc(rng)) for _ in range(rng.choice([0, 1, 2, 3, 8]))]
    else:
        o['members'] = [(1 + rng.below(3), pick(rng, IDS, -2 ** 40, 2 ** 40), gen_str(rng)) for _ in range(rng.choice([0, 1, 2, 6]))]
    return o


def gen_header(rng, exact_boxes=True):
    boxes = []
    for _ in range(rng.choice([0, 0, 1, 2])):
        def c(lim):
            while True:
                v = rng.choice([0, lim, -lim, 1, -1]) if rng.chance(1, 3) else rng.below(2 * lim + 1) - lim
                if not exact_boxes or bbox_exact(v):
                    return v
        a = (c(1800000000), c(900000000))
        b = (c(1800000000), c(900000000))
        boxes.append(((min(a[0], b[0]), min(a[1], b[1])), (max(a[0], b[0]), max(a[1], b[1]))))
    return {'generator': rng.choice([b'gen', b'libosmium/test', 'gén'.encode()]), 'hist': False, 'boxes': boxes}


def case_line(op, optstr, h, objs):
    return ' | '.join(['%s %s' % (op, optstr), dump_header(h)] + [dump(o) for o in objs])


def expected_line(o, h, objs, ropts='N1W1R1M1'):
    ps = [project(o, x, ropts) for x in objs]
    return ' | '.join(['ok ' + dump_header(project_header(o, h))] + [dump(p) for p in ps if p is not None])


def option_vectors(rng, quick):
    allv = [Opts(d, m, h, l) for d in (0, 1) for m in range(32) for h in (0, 1) for l in (0, 1)]
    if not quick:
        return allv
    must = [Opts(1, 31, 0, 0), Opts(0, 31, 0, 0), Opts(1, 0, 0, 0), Opts(0, 0, 0, 0), Opts(1, 31, 1, 0), Opts(0, 31, 1, 1), Opts(1, 0, 1, 0), Opts(0, 0, 1, 1),
            Opts(1, 1, 0, 1), Opts(0, 2, 0, 0), Opts(1, 4, 0, 0), Opts(0, 8, 0, 0), Opts(1, 16, 0, 0), Opts(0, 16, 1, 0), Opts(1, 8, 1, 1), Opts(1, 21, 0, 0)]
    rng.shuffle(allv)
    return must + allv[:8]


def sequences(rng, quick):
    seqs = [[]]
    for kind in 'nwr':
        seqs.append([gen_obj(rng, kind)])
    for _ in range(6 if quick else 30):
        seqs.append([gen_obj(rng) for _ in range(1 + rng.below(14))])
    # runs of equal strings (string table dedup) and type switches back and forth
    u = gen_str(rng)
    seqs.append([dict(gen_obj(rng, k), user=u, tags=[(b'k', b'v'), (b'k', b'')]) for k in 'nnwwrrnnwr'])
    # deleted objects of every kind
    seqs.append([dict(gen_obj(rng, k), visible=False) for k in 'nwr'])
    return seqs


def big_sequence(rng, n, kind):
    objs = []
    for i in range(n):
        o = {'kind': kind, 'id': i * 3 - 7, 'version': 1 + i % 3, 'visible': True, 'timestamp': 1000 + i, 'changeset': i % 50, 'uid': i % 7,
             'user': b'u%d' % (i % 5), 'tags': [(b'k', b'v%d' % (i % 4))] if i % 3 == 0 else []}
        if kind == 'n':
            o['loc'] = (i * 10 - 5000, 7 - i)
        elif kind == 'w':
            o['nodes'] = [(i, (UNDEF, UNDEF)), (i + 1, (UNDEF, UNDEF))]
        else:
            o['members'] = [(1 + i % 3, i, b'r%d' % (i % 2))]
        objs.append(o)
    return objs


# ---------------------------------------------------------------- 32 MiB boundary: writer guard vs reader limit
def gap_node(L):
    """one plain node whose PrimitiveBlock message is ~32 MiB: 16296 tags with unique 1024-byte keys and values
    (string table heavy) plus one tag whose value length L tunes the size byte by byte"""
    def uniq(n, i, c):
        return (b'%08d' % i + c * n)[:n]
    tags = [(uniq(1024, i, b'k'), uniq(1024, i, b'v')) for i in range(16296)]
    tags.append((uniq(200, 99999999, b'x'), uniq(L, 99999998, b'y')))
    return {'kind': 'n', 'id': 1, 'version': 1, 'visible': True, 'timestamp': 0, 'changeset': 0, 'uid': 0, 'user': b'u', 'tags': tags, 'loc': (1, 1)}


def blob_size_gap_probe(ctx, hbin, scratch):
    """Regression probe `pbf-blob-size-gap` (fixed in 77d5451): with pbf_compression=none the Blob is the message
    + 5 bytes; the writer guarded only the message (<= 32 MiB), the reader refuses a Blob > 32 MiB.  Sweep the
    message size over 32 MiB - 5 … 32 MiB + 1: whenever the Writer reports success the Reader must accept."""
    o = Opts(0, 31, 0, 0)
    h = {'generator': b'gap', 'hist': False, 'boxes': []}
    base = 600
    out = run_impl(ctx, hbin, scratch, [case_line('enc', o.s(), h, [gap_node(base)])])
    if out is None:
        return
    if out[0].startswith('err') or out[0].startswith('bad-op'):
        ctx.count('gap:calibration-failed')
        return
    wl = run_impl(ctx, hbin, scratch, ['walk ' + out[0]])
    if wl is None or not wl[0].startswith('W blobs='):
        ctx.count('gap:calibration-failed')
        return
    raw = int(dict(x.split('=') for x in wl[0].split()[1:] if '=' in x)['maxraw'])
    L0 = base + (MAXB - raw)          # value length at which the message is exactly 32 MiB
    if not (133 <= L0 - 5 and L0 + 1 <= 1024):
        ctx.count('gap:calibration-out-of-range')
        return
    for L in (L0 - 5, L0 - 4, L0 - 2, L0, L0 + 1):
        name = 'gap-probe plain-node 16297 tags, message = 32MiB%+d bytes (L=%d)' % (L - L0, L)
        ctx.note_case(name)
        enc = run_impl(ctx, hbin, scratch, [case_line('enc', o.s(), h, [gap_node(L)])])
        if enc is None:
            return
        if enc[0].startswith('err'):
            ctx.count('gap:writer-raised')
            continue
        dec = run_impl(ctx, hbin, scratch, ['dec N1W1R1M1 ' + enc[0]])
        if dec is None:
            return
        if dec[0].startswith('ok') and ' | n 1 v1 ' in dec[0][:200]:
            ctx.count('gap:written-and-read')
        else:
            ctx.count('gap:written-but-refused')
            ctx.violation('pbf-blob-size-gap', 'the Writer reported success on a block whose message is 32 MiB%+d bytes (Blob = message + 5 > 32 MiB) and the Reader refuses the file: %s [%s]'
                          % (L - L0, short(dec[0], 200), name), {'kind': 'counterexample', 'probe': name, 'result': short(dec[0], 200),
                                                                 'repro': '.build/proposed_fixes/C01-pbf-blob-size-gap.repro.cpp'})


# ---------------------------------------------------------------- running
def build(ctx):
    hbin, err = vlib.build_cpp('pbf', ['pbf.cpp'], flags=['-DOSMIUM_WITH_LZ4', '-fno-access-control'])
    if hbin is None:
        ctx.violation('harness-build:pbf', 'pbf harness does not compile against the current tree: ' + err[-600:],
                      {'kind': 'harness-build', 'stderr': err}, found_input=False)
    return hbin


def private_copy(hbin, scratch):
    """vlib.build_cpp deletes older binaries of the same harness when the tree hash changes (another check
    running against a VERIF_REPO copy, or /repo being edited): run from a private copy"""
    import shutil
    local = os.path.join(scratch, 'pbf-harness')
    shutil.copy2(hbin, local)
    return local


def scratch_dir(tag):
    d = os.path.join(vlib.BUILD, '%s-%d' % (tag, os.getpid()))
    os.makedirs(d, exist_ok=True)
    return d


def cleanup(d):
    for f in os.listdir(d):
        os.remove(os.path.join(d, f))
    os.rmdir(d)


SMALL_FLAGS = ['-DOSMIUM_VERIF_PBF_INITIAL_BUFFER_SIZE=%d', '-DOSMIUM_VERIF_PARSER_INITIAL_BUFFER_SIZE=%d']
_small_bins = {}


def small_twin(ctx, scratch):
    """The same harness compiled with tiny initial decoder/parser buffers (hook of /repo): the buffers
    grow (or nest) at every builder call of small objects.  Buffer capacity is unobservable (C04
    capacity_independent), so every read op must print exactly what the normal build prints; a raw
    pointer or reference kept across a growth point shows up as a difference (seeds C01-5, C03-1)."""
    if 'bins' not in _small_bins:
        bins = []
        for size in (64, 200):
            b, err = vlib.build_cpp('pbf_small%d' % size, ['pbf.cpp'],
                                    flags=['-DOSMIUM_WITH_LZ4', '-fno-access-control'] + [f % size for f in SMALL_FLAGS])
            if b is None:
                ctx.violation('harness-build:pbf-small', 'pbf harness (small initial buffers) does not compile: ' + err[-600:],
                              {'kind': 'harness-build', 'stderr': err}, found_input=False)
                bins = []
                break
            import shutil
            local = os.path.join(scratch, 'pbf-harness-small%d' % size)
            shutil.copy2(b, local)
            bins.append((size, local))
        _small_bins['bins'] = bins
    return _small_bins['bins']


def run_impl(ctx, hbin, scratch, ops):
    rc, out, se = ctx.run_lines([hbin, scratch], '\n'.join(ops) + '\n')
    if rc != 0 or len(out) != len(ops):
        ctx.violation('harness-crash:pbf', 'pbf harness exited %d after %d/%d lines: %s' % (rc, len(out), len(ops), se[-400:]),
                      {'kind': 'harness-crash', 'stderr': se[-2000:], 'op': ops[len(out)][:2000] if len(out) < len(ops) else ''}, found_input=False)
        return None
    # reading ops again with tiny initial buffers: same answers
    ridx = [i for i, o in enumerate(ops) if o.split(' ', 1)[0] in ('dec', 'rd', 'rt')]
    if ridx and len(ridx) <= 6000:
        for size, sbin in small_twin(ctx, scratch):
            rops = [ops[i] for i in ridx]
            rc2, out2, se2 = ctx.run_lines([sbin, scratch], '\n'.join(rops) + '\n')
            ctx.count('small-buffer-twin:%d' % size, len(rops))
            if rc2 != 0 or len(out2) != len(rops):
                k = min(len(out2), len(rops) - 1)
                ctx.violation('buffer-size-dependent:pbf-crash', 'pbf harness built with %d-byte initial decoder buffers exited %d at op `%s`: %s'
                              % (size, rc2, rops[k][:300], se2[-400:]),
                              {'kind': 'counterexample', 'op': rops[k][:20000], 'stderr': se2[-2000:]})
                continue
            for i, a in zip(ridx, out2):
                if a != out[i]:
                    ctx.violation('buffer-size-dependent:pbf', 'the result of reading depends on the initial size of the decoder buffer (%d bytes vs default): `%s` -> `%s` but `%s`'
                                  % (size, ops[i][:200], a[:300], out[i][:300]),
                                  {'kind': 'counterexample', 'op': ops[i][:20000], 'small': a[:4000], 'default': out[i][:4000],
                                   'replay': 'feed the op to the pbf harness built with -DOSMIUM_VERIF_PBF_INITIAL_BUFFER_SIZE=%d' % size})
                    break
    return out


def run_model(ctx, ops):
    if not ctx.exe_build_ok:
        return None
    rc, out, se = ctx.run_lines([ctx.model_exe('model_pbf')], '\n'.join(ops) + '\n')
    if rc != 0 or len(out) != len(ops):
        ctx.violation('model-crash:pbf', 'model_pbf exited %d after %d/%d lines: %s' % (rc, len(out), len(ops), se[-400:]),
                      {'kind': 'broken-correspondence', 'stderr': se[-2000:]}, found_input=False)
        return None
    return out


def norm(l):
    return 'err' if l.startswith('err') else l


def short(s, n=300):
    return s if len(s) <= n else s[:n] + '…(%d chars)' % len(s)


def check_walk(ctx, wl, what, replay):
    """limits clause on a framing-walker line"""
    if wl.startswith('W bad'):
        ctx.violation('pbf-framing-malformed:' + what, 'independent framing walker cannot parse a file the Writer produced: %s (%s)' % (wl, what),
                      {'kind': 'counterexample', 'replay': replay})
        return
    kv = dict(x.split('=') for x in wl.split()[1:] if '=' in x)
    ctx.count('walk:files')
    if int(kv['maxhdr']) > 64 * 1024:
        ctx.violation('pbf-header-over-64KiB:' + what, 'BlobHeader of %s bytes' % kv['maxhdr'], {'kind': 'counterexample', 'replay': replay})
    if int(kv['maxent']) > 8000:
        ctx.violation('pbf-block-over-8000:' + what, 'block with %s entities' % kv['maxent'], {'kind': 'counterexample', 'replay': replay})
    if int(kv['maxraw']) > MAXB or int(kv['maxblob']) > MAXB + 16:
        ctx.violation('pbf-block-over-32MiB:' + what, 'the Writer reported success but produced a blob of %s bytes uncompressed (limit %d) [%s]' % (kv['maxraw'], MAXB, wl),
                      {'kind': 'counterexample', 'replay': replay})
    ctx.count('walk:maxent=%s' % ('8000' if kv['maxent'] == '8000' else ('<8000' if int(kv['maxent']) < 8000 else '>8000')))


def run_part(ctx):
    rng = ctx.rng
    quick = ctx.tier == 'quick'
    hbin = build(ctx)
    if hbin is None:
        return
    scratch = scratch_dir('c01pbf')
    try:
        hbin = private_copy(hbin, scratch)
        _run(ctx, rng, quick, hbin, scratch)
    finally:
        cleanup(scratch)


def _run(ctx, rng, quick, hbin, scratch):
    ctx.assumptions += ['PBF: zlib/lz4 are inverse pairs (blobs are inflated by the harness calling the libraries directly before the model decodes them)',
                        'PBF: signed overflow in DeltaEncode/DeltaDecode wraps (two\'s complement), as compiled',
                        'PBF: protozero varint/field cursor = Osmium.Wire (exercised through the real Writer/Reader)']
    ctx.trusted += ['harness/pbf.cpp + harness/osm_dump.hpp (object builders, canonical dump, independent framing walker)']
    opts = option_vectors(rng, quick)
    seqs = sequences(rng, quick)
    cases = []        # (Opts, header, objs)
    for i, o in enumerate(opts):
        for j, s in enumerate(seqs):
            if quick and (i + j) % 3 and i >= 8:
                continue
            cases.append((o, gen_header(rng), s))
    for n in ([8001] if quick else [7999, 8000, 8001, 16001]):
        for kind, o in (('n', Opts(1, 31, 0, 0)), ('n', Opts(0, 5, 1, 0)), ('w', Opts(1, 31, 0, 1)), ('r', Opts(1, 18, 0, 0))):
            if quick and kind == 'r':
                continue
            cases.append((o, gen_header(rng), big_sequence(rng, n, kind)))
    # mixed kinds around the 8000 boundary: the type switch closes blocks early
    cases.append((Opts(1, 31, 0, 0), gen_header(rng), big_sequence(rng, 30, 'n') + big_sequence(rng, 20, 'w') + big_sequence(rng, 30, 'n') + big_sequence(rng, 5, 'r')))

    # ---- (a) byte-exact encoder correspondence, compression none
    enc_ops = [case_line('enc', o.s(), h, s) for o, h, s in cases]
    for (o, h, s), op in zip(cases, enc_ops):
        ctx.note_case(op, nontrivial=len(s) > 0)
        ctx.count('opts:%s' % ('dense' if o.dense else 'plain'))
        ctx.count('opts:md=%s' % ('all' if o.md == 31 else ('none' if o.md == 0 else 'subset')))
        if o.hist:
            ctx.count('opts:history')
        if o.low:
            ctx.count('opts:locations_on_ways')
    ctx.sample(short(enc_ops[len(seqs) + 5]))
    impl = run_impl(ctx, hbin, scratch, enc_ops)
    if impl is None:
        return
    model = run_model(ctx, enc_ops)
    if model is not None:
        dis = ctx.diff_streams('pbf-writer-bytes', [short(o, 400) for o in enc_ops], [norm(x) for x in impl], model)
        if dis:
            i, op, a, b = dis[0]
            ctx.pbf_enc_dis = dis
    else:
        dis = []
        ctx.violation('model-driver-build:pbf', 'model_pbf does not build', {'kind': 'broken-correspondence'}, found_input=False)

    for (o, h, s), f in zip(cases, impl):
        if f.startswith('err') or f.startswith('bad-op'):
            ctx.violation('pbf-writer-failed:' + o.s(), 'the real Writer failed on an in-domain sequence: ' + f[:200], {'kind': 'counterexample', 'op': short(case_line('enc', o.s(), h, s), 4000)})
            return

    # ---- (b)+(c) read back: real Reader and model decoder on the Writer's files; expected = project (computed here)
    dec_ops = ['dec N1W1R1M1 ' + f for f in impl]
    walk_ops = ['walk ' + f for f in impl]
    rimpl = run_impl(ctx, hbin, scratch, dec_ops + walk_ops)
    if rimpl is None:
        return
    wimpl = rimpl[len(dec_ops):]
    rimpl = rimpl[:len(dec_ops)]
    rmodel = run_model(ctx, dec_ops)
    rt_fail = []
    for (o, h, s), got, wl, eop in zip(cases, rimpl, wimpl, enc_ops):
        exp = expected_line(o, h, s)
        ctx.count('roundtrip:%s' % ('ok' if got == exp else 'MISMATCH'))
        if got != exp:
            rt_fail.append((o, h, s, got, exp))
        check_walk(ctx, wl, o.s(), {'op': short(eop, 4000)})
    for o, h, s, got, exp in rt_fail[:3]:
        # shrink: find a single object that fails on its own
        culprit = None
        for x in s[:200]:
            one = run_impl(ctx, hbin, scratch, [case_line('enc', o.s(), h, [x])])
            if one is None:
                return
            back = run_impl(ctx, hbin, scratch, ['dec N1W1R1M1 ' + one[0]])
            if back and back[0] != expected_line(o, h, [x]):
                culprit = (x, back[0])
                break
        key = 'pbf-roundtrip:%s:%s' % (o.s(), culprit[0]['kind'] if culprit else 'seq')
        ctx.violation(key, 'real write → real read differs from the projected input for options %s: %s' %
                      (o.s(), ('object `%s` came back as `%s`' % (dump(culprit[0]), short(culprit[1]))) if culprit else 'got `%s` expected `%s`' % (short(got), short(exp))),
                      {'kind': 'counterexample', 'op': short(case_line('enc', o.s(), h, [culprit[0]] if culprit else s), 6000), 'got': short(got, 3000), 'expected': short(exp, 3000)})
    if rmodel is not None:
        d2 = ctx.diff_streams('pbf-model-decodes-writer-files', [short(o, 300) for o in dec_ops], [norm(x) for x in rimpl], rmodel)
    else:
        d2 = []
    # correspondence failures without a monitor hit
    if (dis or d2) and not [v for v in ctx.violations if v.key.startswith('pbf-roundtrip')]:
        if dis:
            i, op, a, b = dis[0]
            ctx.violation('correspondence:pbf-writer-bytes', 'model encoder and real Writer produce different bytes (%d cases; first `%s`: impl=%s model=%s); the round trip of the implementation is intact'
                          % (len(dis), short(op, 200), short(a, 200), short(b, 200)), {'kind': 'broken-correspondence', 'first': [list(map(lambda z: short(str(z), 2000), d)) for d in dis[:3]]}, found_input=False)
        if d2:
            i, op, a, b = d2[0]
            ctx.violation('correspondence:pbf-decoder', 'model decoder and real Reader disagree on a Writer file (%d cases; first impl=%s model=%s)'
                          % (len(d2), short(a, 300), short(b, 300)), {'kind': 'broken-correspondence', 'first': [list(map(lambda z: short(str(z), 2000), d)) for d in d2[:3]]}, found_input=False)

    # model-encoded files through the real Reader (only where the bytes differ this adds information; cheap otherwise)
    if model is not None:
        diff_idx = [i for i in range(len(cases)) if model[i] != impl[i]][:20]
        if diff_idx:
            back = run_impl(ctx, hbin, scratch, ['dec N1W1R1M1 ' + model[i] for i in diff_idx])
            for i, got in zip(diff_idx, back or []):
                ctx.count('model-file-read-by-impl:%s' % ('ok' if got == expected_line(*cases[i]) else 'differs'))
        else:
            ctx.count('model-file-read-by-impl:identical-bytes', len(cases))

    # ---- reader options (entity mask, read_meta) on a subset: impl vs model vs expected
    sub = [i for i in range(len(cases)) if 0 < len(cases[i][2]) < 100][:: (6 if quick else 2)]
    ro_ops, ro_exp = [], []
    for i in sub:
        for ro in ('N1W0R0M1', 'N0W1R1M1', 'N1W1R1M0', 'N0W0R0M1'):
            o = cases[i][0]
            if o.hist and ro.endswith('M0'):
                pass   # the harness opens a memory buffer as plain "pbf": read_meta=no IS honoured (File has no history flag)
            ro_ops.append('dec %s %s' % (ro, impl[i]))
            ro_exp.append(expected_line(cases[i][0], cases[i][1], cases[i][2], ro))
    ri = run_impl(ctx, hbin, scratch, ro_ops)
    rm = run_model(ctx, ro_ops)
    if ri is not None:
        for op, got, exp in zip(ro_ops, ri, ro_exp):
            ctx.note_case(op[:2000])
            if got != exp:
                ctx.violation('pbf-read-options:' + op.split()[1], 'reading with options %s returns `%s`, expected `%s`' % (op.split()[1], short(got), short(exp)),
                              {'kind': 'counterexample', 'op': short(op, 6000)})
        if rm is not None:
            d3 = ctx.diff_streams('pbf-reader-options', [short(o, 200) for o in ro_ops], [norm(x) for x in ri], rm)
            if d3 and not [v for v in ctx.violations if v.key.startswith('pbf-read-options')]:
                ctx.violation('correspondence:pbf-reader-options', 'model decoder and real Reader disagree under reader options: impl=%s model=%s' % (short(d3[0][2]), short(d3[0][3])),
                              {'kind': 'broken-correspondence'}, found_input=False)

    # ---- compressed blobs: real write (zlib, lz4) → real read = project; inflated file → model decoder = project
    csub = [i for i in range(len(cases)) if len(cases[i][2]) < 100][:: (5 if quick else 1)]
    c_ops = []
    c_meta = []
    for i in csub:
        for comp in ('zlib', 'lz4'):
            o, h, s = cases[i]
            oc = Opts(o.dense, o.md, o.hist, o.low, comp)
            c_ops.append(case_line('enc', oc.s(True), h, s))
            c_meta.append((oc, h, s))
    cf = run_impl(ctx, hbin, scratch, c_ops)
    if cf is not None:
        back = run_impl(ctx, hbin, scratch, ['dec N1W1R1M1 ' + f for f in cf] + ['inflate ' + f for f in cf] + ['walk ' + f for f in cf])
        if back is not None:
            n = len(cf)
            infl = back[n:2 * n]
            mdec = run_model(ctx, ['dec N1W1R1M1 ' + f for f in infl])
            for k, ((oc, h, s), got) in enumerate(zip(c_meta, back[:n])):
                exp = expected_line(oc, h, s)
                ctx.note_case(c_ops[k][:3000], nontrivial=len(s) > 0)
                ctx.count('compressed:%s:%s' % (oc.comp, 'ok' if got == exp else 'MISMATCH'))
                if got != exp:
                    ctx.violation('pbf-roundtrip-compressed:%s:%s' % (oc.comp, oc.s()), 'real write (%s) → real read differs: got `%s` expected `%s`' % (oc.comp, short(got), short(exp)),
                                  {'kind': 'counterexample', 'op': short(c_ops[k], 6000)})
                check_walk(ctx, back[2 * n + k], oc.s(True), {'op': short(c_ops[k], 4000)})
                if mdec is not None and mdec[k] != exp and got == exp:
                    ctx.violation('correspondence:pbf-decoder-compressed', 'model decoder disagrees on an inflated %s file: model=%s expected=%s' % (oc.comp, short(mdec[k]), short(exp)),
                                  {'kind': 'broken-correspondence', 'op': short(c_ops[k], 4000)}, found_input=False)
            if mdec is not None:
                ctx.streams.setdefault('pbf-model-decodes-inflated-files', {'lines': 0, 'disagreements': 0})['lines'] += n

    # ---- block accounting: size()/count() of the real PrimitiveBlock after every object vs the model (can_add decides on these)
    est_idx = [i for i in range(len(cases)) if 0 < len(cases[i][2]) < 100]
    est_ops = [case_line('est', cases[i][0].s(), cases[i][1], cases[i][2]) for i in est_idx]
    ei = run_impl(ctx, hbin, scratch, est_ops)
    em = run_model(ctx, est_ops)
    if ei is not None and em is not None:
        for op in est_ops:
            ctx.note_case(op[:3000])
        d5 = ctx.diff_streams('pbf-block-accounting', [short(o, 300) for o in est_ops], ei, em)
        if d5:
            ctx.violation('correspondence:pbf-block-accounting', 'PrimitiveBlock::size()/count() differ from the model (%d cases; first `%s`: impl=%s model=%s)'
                          % (len(d5), short(d5[0][1], 200), short(d5[0][2], 200), short(d5[0][3], 200)), {'kind': 'broken-correspondence', 'first': [[short(str(z), 2000) for z in x] for x in d5[:3]]}, found_input=False)

    # ---- dedicated monitors for value-domain corners ---------------------------------------------
    # (1) changeset = 2^32-1 ("any uint32 changeset")
    corner = []
    for d in (0, 1):
        x = dict(gen_obj(rng, 'n'), changeset=2 ** 32 - 1, visible=True)
        corner.append((Opts(d, 31, 0, 0), {'generator': b'gen', 'hist': False, 'boxes': []}, [x]))
    # (2) header boxes with arbitrary valid corners
    for _ in range(40 if quick else 400):
        corner.append((Opts(1, 31, 0, 0), gen_header(rng, exact_boxes=False), []))
    for x in (-1301, 1301, 7, -1800000000, 1800000000):
        corner.append((Opts(1, 31, 0, 0), {'generator': b'gen', 'hist': False, 'boxes': [((x, -5), (x + 1, 5))] if x < 1800000000 else [((x - 1, -5), (x, 5))]}, []))
    co_ops = [case_line('enc', o.s(), h, s) for o, h, s in corner]
    cimpl = run_impl(ctx, hbin, scratch, co_ops)
    if cimpl is not None:
        cmodel = run_model(ctx, co_ops)
        if cmodel is not None:
            d4 = ctx.diff_streams('pbf-writer-bytes-corners', [short(o, 300) for o in co_ops], [norm(x) for x in cimpl], cmodel)
            if d4:
                ctx.violation('correspondence:pbf-writer-bytes-corners', 'model encoder and real Writer differ on a corner case: `%s`' % short(d4[0][1]), {'kind': 'broken-correspondence'}, found_input=False)
        cback = run_impl(ctx, hbin, scratch, ['dec N1W1R1M1 ' + f for f in cimpl])
        for (o, h, s), op, got in zip(corner, co_ops, cback or []):
            exp = expected_line(o, h, s)
            ctx.note_case(op)
            if got == exp:
                ctx.count('corner:ok')
                continue
            if s and s[0]['changeset'] == 2 ** 32 - 1:
                ctx.count('corner:changeset-max-rejected')
                ctx.violation('pbf-changeset-uint32max', 'an object with changeset id 4294967295 (a valid uint32) is written by the Writer without error and rejected by the Reader: `%s` → %s'
                              % (short(op), short(got)), {'kind': 'counterexample', 'op': op, 'result': got})
            else:
                ctx.count('corner:bbox-rounding')
                ctx.violation('pbf-header-bbox-rounding', 'header bounding box does not survive write → read (double arithmetic in write_header truncates): `%s` → `%s`, expected `%s`'
                              % (op, got, exp), {'kind': 'counterexample', 'op': op, 'result': got, 'expected': exp})

    # ---- block accounting under string-table-heavy / dense-tag-heavy load (DESIGN.md F12)
    bigs = [('w', 8000, 5, 1000, 'D1M31H0L0'), ('d', 8000, 1400, 4, 'D1M31H0L0')]
    if not quick:
        bigs += [('r', 8000, 6, 900, 'D1M31H0L0'), ('w', 8000, 4, 1024, 'D0M0H0L0'), ('w', 8000, 3, 1000, 'D1M31H0L0'), ('d', 8000, 500, 4, 'D1M31H0L0'), ('d', 8000, 1050, 4, 'D1M31H0L0'),
                 ('w', 16000, 2, 1000, 'D1M31H0L0'), ('d', 7999, 1100, 8, 'D1M0H0L0')]
    for kind, n, k, ln, o in bigs:
        op = 'big %s %d %d %d %s' % (kind, n, k, ln, o)
        ctx.note_case(op)
        out = run_impl(ctx, hbin, scratch, [op])
        if out is None:
            return
        line = out[0]
        kv = dict(x.split('=', 1) for x in line.split()[1:] if '=' in x)
        name = {'w': 'ways-unique-tag-values', 'd': 'dense-nodes-many-tags', 'r': 'relations-unique-roles'}[kind]
        ctx.count('big:%s:%s' % (name, 'writer-raised' if kv.get('write') != 'ok' else ('over-32MiB' if int(kv.get('maxraw', 0)) > MAXB else 'within')))
        ctx.count('big:blobs=%s' % kv.get('blobs'))
        if kv.get('write') == 'ok' and (int(kv.get('maxraw', 0)) > MAXB or not kv.get('read', '').startswith('ok') or int(kv.get('objs', 0)) != n):
            ctx.violation('pbf-block-over-32MiB:' + name, 'the Writer reported success on %d objects (%s) but the file has a block of %s bytes (limit %d) and the Reader says: %s (%s objects read) [`%s` → %s]'
                          % (n, name, kv.get('maxraw'), MAXB, kv.get('read'), kv.get('objs'), op, line), {'kind': 'counterexample', 'op': op, 'result': line})
        elif int(kv.get('maxent', 0)) > 8000:
            ctx.violation('pbf-block-over-8000:' + name, line, {'kind': 'counterexample', 'op': op})

    # ---- writer guard vs reader limit at the 32 MiB boundary (finding pbf-blob-size-gap, fixed in 77d5451); 67 MB op lines
    if not quick:
        blob_size_gap_probe(ctx, hbin, scratch)
