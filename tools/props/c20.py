"""C20 — handler dispatch and diff iteration (DESIGN.md §3 C20).

0. translator: harness/c20_dump.cpp (compiled from the CURRENT tree) dumps the dispatch table of
   apply_item_impl (6 overloads x 13 item types), the is_compatible_to table (14 classes x 13
   types) and the wrapper_handler acceptance table (18 lambda signatures x const/non-const x 13
   types) -> lean/Osmium/Generated/C20Tables.lean.  The same rows are checked against an
   independent statement of the property in Python (table monitors): that is the search for a
   concrete failing input when a `cases <;> rfl` theorem stops checking.
1. proof stage: lean/Osmium/Props/C20.lean built + axiom audit.
2. correspondence: harness/c20.cpp (real osmium::apply entry points, logging handlers of every
   kind) and harness/c20_diff.cpp (real DiffIterator / apply_diff) vs lean/Driver/C20.lean.
3. property monitors on the implementation alone: independent Python oracles for the callback
   log, the filtering iterators and the diff context/flags.
"""
import os

import vlib

TYPE_NAMES = {'X': 'undefined', 'n': 'node', 'w': 'way', 'r': 'relation', 'a': 'area', 'c': 'changeset',
              'T': 'tagList', 'N': 'wayNodeList', 'M': 'relationMemberList', 'F': 'relationMemberListFull',
              'O': 'outerRing', 'I': 'innerRing', 'D': 'changesetDiscussion'}
TYPES = 'XnwracTNMFOID'
CB_NAMES = {'osm_object': 'osmObject', 'node': 'node', 'way': 'way', 'relation': 'relation', 'area': 'area',
            'changeset': 'changeset', 'tag_list': 'tagList', 'way_node_list': 'wayNodeList',
            'relation_member_list': 'relationMemberList', 'outer_ring': 'outerRing', 'inner_ring': 'innerRing',
            'changeset_discussion': 'changesetDiscussion', 'flush': 'flush'}
CLASS_NAMES = {'i': 'item', 'e': 'entity', 'o': 'object'}
FILTER_NAMES = {'Item': 'item', 'OSMEntity': 'entity', 'OSMObject': 'object', 'Node': 'node', 'Way': 'way',
                'Relation': 'relation', 'Area': 'area', 'Changeset': 'changeset', 'TagList': 'tagList',
                'WayNodeList': 'wayNodeList', 'RelationMemberList': 'relationMemberList', 'OuterRing': 'outerRing',
                'InnerRing': 'innerRing', 'ChangesetDiscussion': 'changesetDiscussion'}
PARAM_NAMES = {'n': 'node', 'w': 'way', 'r': 'relation', 'a': 'area', 'c': 'changeset', 'o': 'object', 'e': 'entity',
               'i': 'item', 'g': 'generic'}
SIGS = 'nNwWrRaAcCoOeEiIgG'

PREAMBLE = '''/-
GENERATED on every run by tools/props/c20.py from the output of harness/c20_dump.cpp, which is
compiled from the CURRENT /repo/include.  DO NOT EDIT.  The types are a fixed preamble; the three
tables are what the code does NOW:
  dispatchRaw  osmium::apply_item(static_cast<[const] Class&>(item), handler) for one item of every
               item_type: the callbacks invoked, in order, with the const-ness of the reference
               each received (true = non-const overload selected); none = throws unknown_type
  compatRaw    T::is_compatible_to(item_type) — what ItemIterator<T> / InputIterator<_, T> keep
  wrapperRaw   whether a function object with the given parameter signature, wrapped by
               osmium::apply (detail::wrapper_handler), is invoked for an item of that type, and
               through which const-ness (some true = non-const parameter)
-/
namespace Osmium.Generated.C20

inductive ItemType
  | undefined | node | way | relation | area | changeset | tagList | wayNodeList | relationMemberList
  | relationMemberListFull | outerRing | innerRing | changesetDiscussion
  deriving Repr, DecidableEq, Inhabited

inductive Callback
  | osmObject | node | way | relation | area | changeset | tagList | wayNodeList | relationMemberList
  | outerRing | innerRing | changesetDiscussion | flush
  deriving Repr, DecidableEq, Inhabited

inductive Constness | const | mut
  deriving Repr, DecidableEq, Inhabited

/-- static type of the reference handed to `apply_item` (which overload of `apply_item_impl`) -/
inductive ItemClass | item | entity | object
  deriving Repr, DecidableEq, Inhabited

/-- template argument of `ItemIterator<T>` -/
inductive FilterClass
  | item | entity | object | node | way | relation | area | changeset | tagList | wayNodeList
  | relationMemberList | outerRing | innerRing | changesetDiscussion
  deriving Repr, DecidableEq, Inhabited

/-- parameter type of a wrapped function object (`generic` = `auto`) -/
inductive Param | node | way | relation | area | changeset | object | entity | item | generic
  deriving Repr, DecidableEq, Inhabited

'''


def parse_dump(text):
    """-> (dispatch {(cls,k,t): None|[(cb,mut)]}, compat {(fc,t): bool}, wrapper {(sig,k,t): None|'c'|'m'})"""
    disp, compat, wrap = {}, {}, {}
    for l in text.split('\n'):
        w = l.split()
        if not w:
            continue
        if w[0] == 'D':
            calls = w[4]
            if calls == 'throw':
                v = None
            elif calls == '-':
                v = []
            else:
                v = [(c.rstrip('!'), c.endswith('!')) for c in calls.split(',')]
            disp[(w[1], w[2], w[3])] = v
        elif w[0] == 'K':
            compat[(w[1], w[2])] = w[3] == '1'
        elif w[0] == 'W':
            wrap[(w[1], w[2], w[3])] = None if w[4] == '-' else w[4]
    return disp, compat, wrap


def lean_bool(b):
    return 'true' if b else 'false'


def gen_tables(disp, compat, wrap):
    out = [PREAMBLE]
    out.append('def dispatchRaw : ItemClass → Constness → ItemType → Option (List (Callback × Bool))')
    for cls in 'ieo':
        for k in 'cm':
            for t in TYPES:
                v = disp[(cls, k, t)]
                if v is None:
                    rhs = 'none'
                else:
                    rhs = 'some [' + ', '.join('(.%s, %s)' % (CB_NAMES[c], lean_bool(m)) for c, m in v) + ']'
                out.append('  | .%s, .%s, .%s => %s' % (CLASS_NAMES[cls], 'const' if k == 'c' else 'mut', TYPE_NAMES[t], rhs))
    out.append('')
    out.append('def compatRaw : FilterClass → ItemType → Bool')
    for fc, name in FILTER_NAMES.items():
        for t in TYPES:
            if compat[(fc, t)]:
                out.append('  | .%s, .%s => true' % (name, TYPE_NAMES[t]))
    out.append('  | _, _ => false')
    out.append('')
    out.append('/-- arguments: parameter class, parameter is a non-const reference, const-ness of the container, item type -/')
    out.append('def wrapperRaw : Param → Bool → Constness → ItemType → Option Bool')
    for s in SIGS:
        for k in 'cm':
            for t in TYPES:
                v = wrap[(s, k, t)]
                if v is not None:
                    out.append('  | .%s, %s, .%s, .%s => some %s' % (PARAM_NAMES[s.lower()], lean_bool(s.isupper()),
                                                                  'const' if k == 'c' else 'mut', TYPE_NAMES[t], lean_bool(v == 'm')))
    out.append('  | _, _, _, _ => none')
    out.append('')
    out.append('end Osmium.Generated.C20')
    return '\n'.join(out) + '\n'




GEN_PATH = os.path.join(vlib.LEAN, 'Osmium', 'Generated', 'C20Tables.lean')

# ---------------------------------------------------------------------------------------------
# independent statement of the property (Python oracles; NOT derived from the Lean model)
# ---------------------------------------------------------------------------------------------
OBJECTS = 'nwra'
ENTITIES = 'nwrac'
CB_OF = {'n': 'node', 'w': 'way', 'r': 'relation', 'a': 'area', 'c': 'changeset', 'T': 'tag_list',
         'N': 'way_node_list', 'M': 'relation_member_list', 'F': 'relation_member_list', 'O': 'outer_ring',
         'I': 'inner_ring', 'D': 'changeset_discussion'}
CLASS_MEMBERS = {'i': TYPES, 'e': ENTITIES, 'o': OBJECTS}
FILTER_MEMBERS = {'Item': TYPES, 'OSMEntity': ENTITIES, 'OSMObject': OBJECTS, 'Node': 'n', 'Way': 'w', 'Relation': 'r',
                  'Area': 'a', 'Changeset': 'c', 'TagList': 'T', 'WayNodeList': 'N', 'RelationMemberList': 'MF',
                  'OuterRing': 'O', 'InnerRing': 'I', 'ChangesetDiscussion': 'D'}
SIG_MEMBERS = {'n': 'n', 'w': 'w', 'r': 'r', 'a': 'a', 'c': 'c', 'o': OBJECTS, 'e': ENTITIES, 'g': ENTITIES}

ENTRIES = {  # code -> (source, class, constness)
    'bec': ('f', 'e', 'c'), 'bem': ('f', 'e', 'm'), 'fic': ('f', 'i', 'c'), 'fim': ('f', 'i', 'm'),
    'fec': ('f', 'e', 'c'), 'fem': ('f', 'e', 'm'), 'foc': ('f', 'o', 'c'), 'fom': ('f', 'o', 'm'),
    'xec': ('x', 'e', 'c'), 'xem': ('x', 'e', 'm'), 'xoc': ('x', 'o', 'c'), 'xom': ('x', 'o', 'm'),
    'rim': ('r', 'i', 'm'), 'rem': ('r', 'e', 'm'), 'rom': ('r', 'o', 'm'), 'Rim': ('r', 'i', 'm')}
MULTI_ENTRIES = ['bec', 'bem', 'fim']
LEAVES = ['S', 'D', 'Df', 'D0']
CHAINS = ['C:S', 'C:D', 'C:S+S', 'C:S+D', 'C:D+S', 'C:Df+D0', 'C:S+Df+S']
SINGLES = LEAVES + ['L' + s for s in SIGS] + CHAINS


def expected_calls(t, mut):
    """what the property demands for one item: osm_object first (objects only), then the callback
    that matches the type"""
    calls = []
    if t in OBJECTS:
        calls.append('osm_object')
    if t in CB_OF:
        calls.append(CB_OF[t])
    return [(c, mut) for c in calls]


def leaf_events(leaf, h, sub, cb, mut, pos):
    if leaf == 'S':
        return ['%d.%d:%s%s:%d' % (h, sub, cb, '!' if mut else '', pos)]
    if leaf in ('D', 'Df'):
        return ['%d.%d:%s:%d' % (h, sub, cb, pos)] if cb in ('node', 'way', 'relation', 'area', 'changeset') else []
    return []


def handler_events(hd, h, t, cb, mut, pos):
    if hd in LEAVES:
        return leaf_events(hd, h, 0, cb, mut, pos)
    if hd[0] == 'L':
        sig = hd[1]
        if cb == 'osm_object' or t not in ENTITIES:
            return []
        if t in SIG_MEMBERS[sig.lower()] and (sig.islower() or sig == 'G' or mut):
            return ['%d.0:%s%s:%d' % (h, cb, '!' if (sig.isupper() and mut) else '', pos)]
        return []
    if hd[0] == 'C':
        if cb not in ('node', 'way', 'relation', 'area', 'changeset'):
            return []
        out = []
        for i, sub in enumerate(hd[2:].split('+')):
            out += leaf_events(sub, h, i, cb, True, pos)
        return out
    raise ValueError(hd)


def handler_flush(hd, h):
    if hd in ('S', 'D'):
        return ['%d.0:flush' % h]
    if hd[0] == 'C':
        return ['%d.%d:flush' % (h, i) for i, sub in enumerate(hd[2:].split('+')) if sub in ('S', 'D')]
    return []


def oracle_apply(entry, handlers, toks):
    """expected log of one apply op, or None when the op is outside the property's domain
    (a lambda whose parameter is memory::Item)"""
    if any(h in ('Li', 'LI') for h in handlers):
        return None
    src, cls, k = ENTRIES[entry]
    mut = k == 'm'
    items = [(p, t) for p, t in enumerate(x[0] for x in toks if x != '|')]
    ev = []
    for p, t in items:
        if t not in CLASS_MEMBERS[cls]:
            if src == 'x':
                return (' '.join(ev) if ev else '-') + ' !unknown_type'
            continue
        for h, hd in enumerate(handlers):
            for cb, m in expected_calls(t, mut):
                ev += handler_events(hd, h, t, cb, m, p)
    for h, hd in enumerate(handlers):
        ev += handler_flush(hd, h)
    return ' '.join(ev) if ev else '-'


def oracle_filt(cls, toks):
    vis = [p for p, t in enumerate(x[0] for x in toks if x != '|') if t in FILTER_MEMBERS[cls]]
    return '%d:%s' % (len(vis), ''.join(' %d' % p for p in vis))


def parse_diff_toks(toks):
    """-> list of (global position, (type, id, version)) for the OSM objects"""
    out = []
    p = 0
    for t in toks:
        if t == '|':
            continue
        if ':' in t:
            a, b, c = t.split(':')
            out.append((p, (a, int(b), int(c))))
        p += 1
    return out


def oracle_diffs(objs):
    """the property: every version once, with the previous / next version of the same object (or
    itself at the ends); first/last true exactly at the boundaries between different objects"""
    res = []
    n = len(objs)
    for i, (p, o) in enumerate(objs):
        same_prev = i > 0 and objs[i - 1][1][:2] == o[:2]
        same_next = i + 1 < n and objs[i + 1][1][:2] == o[:2]
        res.append('%d,%d,%d,%d,%d' % (objs[i - 1][0] if same_prev else p, p, objs[i + 1][0] if same_next else p,
                                       0 if same_prev else 1, 0 if same_next else 1))
    return res


def oracle_diff(entry, nh, toks):
    objs = parse_diff_toks(toks)
    ds = oracle_diffs(objs)
    if entry.startswith('it'):
        return ' '.join(ds) if ds else '-'
    ev = []
    for (p, o), d in zip(objs, ds):
        if o[0] == 'a':
            return (' '.join(ev) if ev else '-') + ' !unknown_type'
        for h in range(nh):
            ev.append('%d:%s:%s' % (h, CB_OF[o[0]], d))
    return ' '.join(ev) if ev else '-'


DRIVE_ALPHA = 'dripacsejq=~'
DRIVE_CORE = 'dipcje'
DRIVE_READER = 'dripa='       # single-pass underlying iterator: no second iterator object that is advanced
DRIVE_OPNAME = {'d': 'use(*a)', 'r': 'use(*a.operator->())', 'i': '++a', 'p': 'use(*a++)', 'a': 'std::advance(a, 2)',
                'c': 'b = a', 's': 'a = b', 'e': 'use(*b)', 'j': '++b', 'q': 'use(*b++)', '=': 'a == end', '~': 'a == b'}


def oracle_drive(script, toks):
    """the property for ANY driving pattern: what a dereference presents is oracle_diffs() at the
    POSITION of the iterator object (a counter), whatever was done before.  Independent of the Lean
    model."""
    return oracle_script(script, oracle_diffs(parse_diff_toks(toks)))


def oracle_fdrive(cls, script, toks):
    """filtering iterators: position i presents the i-th item of a compatible type"""
    return oracle_script(script, [str(p) for p, t in enumerate(x[0] for x in toks if x != '|') if t in FILTER_MEMBERS[cls]])


def oracle_script(script, ds):
    """ds[i] = what position i has to present.  -> (expected tokens, per-token info (op index, object,
    position, how the object got there), script features)"""
    n = len(ds)
    pos = {'a': 0, 'b': 0}
    seen = {'a': False, 'b': False}       # this OBJECT was dereferenced at its current position
    how = {'a': 'fresh', 'b': 'fresh'}    # how this object arrived at its current position
    out, info, feats = [], [], set()

    def inc(o, k, via):
        if not seen[o]:
            feats.add('skip')
        how[o] = via + ('-after-deref' if seen[o] else '-without-deref')
        pos[o] += k
        seen[o] = False

    for idx, c in enumerate(script):
        if c == '.':
            continue
        o = 'b' if c in 'ejq' else 'a'
        if c in 'dre':
            if pos[o] < n:
                if seen[o]:
                    feats.add('rederef')
                out.append(ds[pos[o]])
                info.append((idx, o, pos[o], how[o] + ('+seen' if seen[o] else '')))
                seen[o] = True
            else:
                out.append('@'); info.append((idx, o, pos[o], 'end'))
        elif c in 'ij':
            if pos[o] < n:
                inc(o, 1, 'inc')
            else:
                out.append('@'); info.append((idx, o, pos[o], 'end'))
        elif c in 'pq':
            feats.add('post')
            if pos[o] < n:
                out.append(ds[pos[o]])
                info.append((idx, o, pos[o], 'temp-of-postinc:' + how[o] + ('+seen' if seen[o] else '')))
                inc(o, 1, 'inc')      # the temporary was dereferenced, not the object itself
            else:
                out.append('@'); info.append((idx, o, pos[o], 'end'))
        elif c == 'a':
            if pos['a'] + 1 < n:
                inc('a', 2, 'advance2')
            else:
                out.append('@'); info.append((idx, 'a', pos['a'], 'end'))
        elif c == 'c':
            feats.add('copy')
            pos['b'], seen['b'], how['b'] = pos['a'], seen['a'], 'copy:' + how['a'].replace('copy:', '')
        elif c == 's':
            feats.add('copy')
            pos['a'], seen['a'], how['a'] = pos['b'], seen['b'], 'copy:' + how['b'].replace('copy:', '')
        elif c == '=':
            out.append('E1' if pos['a'] == n else 'E0'); info.append((idx, 'a', pos['a'], 'cmp'))
        elif c == '~':
            out.append('Q1' if pos['a'] == pos['b'] else 'Q0'); info.append((idx, 'a', pos['a'], 'cmp'))
        else:
            raise ValueError(script)
    return out, info, feats


def drive_script(body, n):
    """the body as a loop body: repeated until every position has been passed"""
    reps = n + 1 if any(c in 'ipajq' for c in body) else 2
    return '.'.join([body] * reps)


def run_shape(toks):
    objs = parse_diff_toks(toks)
    runs, prev = [], None
    for _, o in objs:
        if o[:2] == prev:
            runs[-1] += 1
        else:
            runs.append(1)
        prev = o[:2]
    return runs


def gen_drive_ops(ctx, quick):
    import itertools
    rng = ctx.rng
    ops = []

    def bodies(alpha, k):
        return [''.join(s) for s in itertools.product(alpha, repeat=k)]

    def layouts(runs, all_variants):
        k = len(runs)
        v = [(['n'] * k, list(range(1, k + 1)))]
        if all_variants and k >= 2:
            cut = k // 2
            v.append((['n'] * cut + ['w'] * (k - cut), list(range(1, cut + 1)) + list(range(1, k - cut + 1))))   # same ids across the type boundary
            v.append(([('n', 'w', 'r')[min(2, i * 3 // k)] for i in range(k)], [-i for i in range(k, 0, -1)]))
        return [history(runs, ts, ids) for ts, ids in v]

    # (1) every body of length 1..2 over ALL operations x every run-length pattern up to total length 6 (5 quick)
    for blen in (1, 2):
        for body in bodies(DRIVE_ALPHA, blen):
            for n in range(0, 6 if quick else 7):
                for runs in compositions(n):
                    for toks in layouts(runs, True):
                        for e in ('it', 'itc'):
                            ops.append('drive %s %s %s' % (e, drive_script(body, n), ' '.join(toks)))
    # (2) every body of length 3 over ALL operations x run-length patterns up to 4 (5)
    for body in bodies(DRIVE_ALPHA, 3):
        for n in range(1, 5 if quick else 6):
            for runs in compositions(n):
                for toks in layouts(runs, not quick):
                    ops.append('drive it %s %s' % (drive_script(body, n), ' '.join(toks)))
    # (3) longer bodies over the core operations (thorough: length 4 over all operations too)
    for blen, alpha, ns in ([(4, DRIVE_CORE, (3, 4))] if quick else [(4, DRIVE_ALPHA, (2, 3, 4)), (5, DRIVE_CORE, (3, 4)), (6, DRIVE_CORE, (3,))]):
        for i, body in enumerate(bodies(alpha, blen)):
            for n in ns:
                for runs in compositions(n):
                    ops.append('drive %s %s %s' % (('it', 'itc')[i & 1], drive_script(body, n), ' '.join(history(runs, ['n'] * len(runs), list(range(1, len(runs) + 1))))))
    # (4) DiffIterator over the single-pass InputIterator: one iterator object, buffers cut at random
    for blen in (1, 2, 3):
        for body in bodies(DRIVE_READER, blen):
            for n in range(0, 5 if quick else 7):
                for runs in compositions(n):
                    rt = []
                    for tk in history(runs, ['n'] * len(runs), list(range(1, len(runs) + 1))):
                        if rng.chance(1, 3):
                            rt += ['|'] * (1 + rng.below(2))
                        if rng.chance(1, 4):
                            rt.append(rng.choice(['c', 'T', 'X', 'D']))
                        rt.append(tk)
                    if rng.chance(1, 3):
                        rt.append('|')
                    ops.append('drive itr %s %s' % (drive_script(body, n), ' '.join(rt)))
    # (5) random long scripts over random histories
    for _ in range(3000 if quick else 60000):
        k = 1 + rng.below(5)
        runs = [1 + rng.below(rng.choice([1, 2, 3, 5])) for _ in range(k)]
        objs = set()
        while len(objs) < k:
            objs.add((rng.choice('nwr'), rng.below(4) + 1))
        objs = sorted(objs, key=lambda o: ('nwr'.index(o[0]), o[1]))
        toks = history(runs, [o[0] for o in objs], [o[1] for o in objs])
        e = rng.choice(['it', 'itc', 'itr'])
        alpha = DRIVE_READER if e == 'itr' else DRIVE_ALPHA
        script = ''.join(rng.choice(alpha) for _ in range(4 + rng.below(3 * sum(runs))))
        ops.append('drive %s %s %s' % (e, script, ' '.join(toks)))
    return ops


FDRIVE_CLASSES = ['OSMObject', 'Node', 'Item', 'TagList', 'OSMEntity', 'Way', 'Changeset', 'RelationMemberList']


def gen_fdrive_ops(ctx, quick):
    """driving patterns of the typed ItemIterator (c/m: two iterator objects) and of the single-pass
    InputIterator (r: one object)"""
    import itertools
    rng = ctx.rng
    ops = []

    def bodies(alpha, k):
        return [''.join(s) for s in itertools.product(alpha, repeat=k)]

    def line(cls, mode, body, s):
        n = len([x for x in s if x != '|' and x[0] in FILTER_MEMBERS[cls]])
        return 'fdrive %s %s %s %d %s' % (cls, mode, drive_script(body, n), n, ' '.join(s))
    classes = FDRIVE_CLASSES[:3] if quick else FDRIVE_CLASSES
    items = ['n', 'w', 'T'] if quick else ['n', 'w', 'T', 'c', 'M']
    k = 0
    for blen in (1, 2) if quick else (1, 2, 3):
        for body in bodies(DRIVE_ALPHA, blen):
            for s in seqs(items, 3):
                for cls in classes:
                    k += 1
                    ops.append(line(cls, 'cm'[k & 1], body, s))
    for body in bodies(DRIVE_CORE, 3) + ([] if quick else bodies(DRIVE_CORE, 4)):
        for s in seqs(['n', 'T'], 4):
            if len(s) >= 3:
                ops.append(line('Node', 'm', body, s))
    for blen in (1, 2) if quick else (1, 2, 3):
        for body in bodies(DRIVE_READER, blen):
            for s in seqs(items, 3):
                for cls in classes:
                    rt = []
                    for x in s:
                        if rng.chance(1, 3):
                            rt += ['|'] * (1 + rng.below(2))
                        rt.append(x)
                    if rng.chance(1, 3):
                        rt.append('|')
                    ops.append(line(cls, 'r', body, rt))
    for _ in range(2000 if quick else 40000):
        cls = rng.choice(FDRIVE_CLASSES)
        mode = rng.choice('cmr')
        s = []
        for _ in range(rng.below(8)):
            s.append(rng.choice(['n', 'w', 'r', 'c', 'T', 'M', 'X']))
            if mode == 'r' and rng.chance(1, 3):
                s += ['|'] * (1 + rng.below(2))
        alpha = DRIVE_READER if mode == 'r' else DRIVE_ALPHA
        n = len([x for x in s if x != '|' and x[0] in FILTER_MEMBERS[cls]])
        script = ''.join(rng.choice(alpha) for _ in range(3 + rng.below(3 * n + 3)))
        ops.append('fdrive %s %s %s %d %s' % (cls, mode, script, n, ' '.join(s)))
    return ops


def describe_script(script, upto):
    return '; '.join(DRIVE_OPNAME[c] for c in script[:upto + 1] if c != '.')


def grouped(objs):
    seen = set()
    prev = None
    for _, o in objs:
        k = o[:2]
        if k != prev and k in seen:
            return False
        seen.add(k)
        prev = k
    return True


def monitor_diff_generic(entry, toks, got):
    """clauses of the property evaluated on the implementation's output alone (no expected log):
    every version exactly once in order; prev/next are the same object as curr; first <=> prev is
    curr; last <=> next is curr; on grouped data the number of first (last) flags is the number
    of distinct objects"""
    if not entry.startswith('it') or got.endswith('mismatch') or '!' in got:
        return None
    objs = parse_diff_toks(toks)
    by_pos = dict(objs)
    ds = [] if got == '-' else [tuple(int(x) for x in d.split(',')) for d in got.split(' ')]
    if [d[1] for d in ds] != [p for p, _ in objs]:
        return 'versions presented %s, expected each of %s exactly once in order' % ([d[1] for d in ds], [p for p, _ in objs])
    for pp, c, nn, f, l in ds:
        if pp not in by_pos or nn not in by_pos:
            return 'prev/next of position %d is not an object of the input' % c
        if by_pos[pp][:2] != by_pos[c][:2] or by_pos[nn][:2] != by_pos[c][:2]:
            return 'prev/next of position %d belongs to a different object' % c
        if (f == 1) != (pp == c) or (l == 1) != (nn == c):
            return 'first/last flag of position %d inconsistent with prev/next' % c
    if grouped(objs):
        nobj = len(set(o[:2] for _, o in objs))
        if sum(d[3] for d in ds) != nobj or sum(d[4] for d in ds) != nobj:
            return '%d first / %d last flags for %d distinct objects' % (sum(d[3] for d in ds), sum(d[4] for d in ds), nobj)
    return None


# ---------------------------------------------------------------------------------------------
# table monitors: the property evaluated on the rows dumped from the current code
# ---------------------------------------------------------------------------------------------
def table_monitors(ctx, disp, compat, wrap):
    obs = []
    for (cls, k, t), v in sorted(disp.items()):
        ctx.note_case('D %s %s %s' % (cls, k, t))
        if t in CLASS_MEMBERS[cls]:
            want = expected_calls(t, k == 'm')
        else:
            want = None   # typed overloads must reject foreign types
        ctx.count('table:dispatch:' + ('throw' if v is None else '%d-calls' % len(v)))
        if v != want:
            def show(x):
                return 'throw unknown_type' if x is None else ('[' + ', '.join(c + ('!' if m else '') for c, m in x) + ']')
            entry = {'i': 'fi', 'e': 'xe', 'o': 'xo'}[cls] + k
            ctx.violation('dispatch-table:%s:%s:%s' % (cls, k, t),
                          'apply_item on a %s item reached as %s %s& calls %s, the property demands %s'
                          % (TYPE_NAMES[t], 'const' if k == 'c' else 'non-const', {'i': 'memory::Item', 'e': 'OSMEntity', 'o': 'OSMObject'}[cls],
                             show(v), show(want)),
                          {'kind': 'counterexample', 'op': 'apply %s S %s' % (entry, t), 'impl_row': show(v), 'expected': show(want),
                           'replay': 'echo "<op>" | <harness c20>'})
    for (fc, t), v in sorted(compat.items()):
        ctx.note_case('K %s %s' % (fc, t))
        want = t in FILTER_MEMBERS[fc]
        if v != want:
            ctx.violation('compat-table:%s:%s' % (fc, t),
                          '%s::is_compatible_to(%s) is %s, expected %s (ItemIterator<%s> would %s such items)'
                          % (fc, TYPE_NAMES[t], v, want, fc, 'visit' if v else 'skip'),
                          {'kind': 'counterexample', 'op': 'filt %s m %s' % (fc, t), 'impl': v, 'expected': want})
    for (s, k, t), v in sorted(wrap.items()):
        ctx.note_case('W %s %s %s' % (s, k, t))
        if s in 'iI':
            continue   # outside the property's domain (see observations)
        acc = t in SIG_MEMBERS[s.lower()] and (s.islower() or s == 'G' or k == 'm')
        want = ('m' if (s.isupper() and k == 'm') else 'c') if acc else None
        ctx.count('table:wrapper:' + ('called' if v else 'not-called'))
        if v != want:
            ctx.violation('wrapper-table:%s:%s:%s' % (s, k, t),
                          'a function object with parameter signature %s wrapped by osmium::apply %s for a %s item of a %s container; the property demands %s'
                          % (s, 'is called (%s)' % v if v else 'is not called', TYPE_NAMES[t], 'const' if k == 'c' else 'non-const',
                             'a call' if want else 'no call'),
                          {'kind': 'counterexample', 'op': 'apply fi%s L%s %s' % (k, s, t), 'impl': v, 'expected': want})
    # observation (outside the domain): the wrapper's own fallback signature
    ci = sorted(set(t for (s, k, t), v in wrap.items() if s == 'i' and v))
    mi = sorted(set((k, t) for (s, k, t), v in wrap.items() if s == 'I' and v))
    obs.append('function object taking `const memory::Item&`: called for item types %s (it is hidden by wrapper_handler\'s own fallback '
               'operator()(const Item&), visitor.hpp); taking `memory::Item&`: called for %s' % (ci or 'NONE', mi or 'NONE'))
    return obs


APPLY_DIFF_BUFFER_PROBE = '''#include <osmium/diff_handler.hpp>
#include <osmium/diff_visitor.hpp>
#include <osmium/memory/buffer.hpp>
struct H : osmium::diff_handler::DiffHandler {};
void f(osmium::memory::Buffer& b) { H h; osmium::apply_diff(b, h); }
'''


def compile_probe(name, text):
    d = os.path.join(vlib.BUILD, 'c20')
    os.makedirs(d, exist_ok=True)
    p = os.path.join(d, name + '.cpp')
    vlib.write_if_changed(p, text)
    rc, so, se = vlib.sh(['g++', '-std=c++17', '-fsyntax-only', '-I' + os.path.join(vlib.REPO, 'include'), p])
    first = ''
    for l in se.split('\n'):
        if 'error' in l:
            first = l.strip()[-200:]
            break
    return rc == 0, first


# ---------------------------------------------------------------------------------------------
# generators
# ---------------------------------------------------------------------------------------------
def seqs(alphabet, maxlen):
    import itertools
    for n in range(0, maxlen + 1):
        for s in itertools.product(alphabet, repeat=n):
            yield list(s)


def compositions(n):
    if n == 0:
        yield []
        return
    for first in range(1, n + 1):
        for rest in compositions(n - first):
            yield [first] + rest


def gen_apply_ops(ctx, quick):
    rng = ctx.rng
    ops = []
    types = list(TYPES)
    toks_rm = [t for t in types] + [t + '-' for t in types]
    chain_ok = lambda e: ENTRIES[e][2] == 'm'
    # (a) every single handler kind x every entry point x all sequences up to length 2 (quick) / 3
    for e in ENTRIES:
        if e == 'Rim':
            continue
        for hd in SINGLES:
            if hd[0] == 'C' and not chain_ok(e):
                continue
            for s in seqs(types, 2 if quick else 3):
                ops.append('apply %s %s %s' % (e, hd, ' '.join(s)))
    # (b) static handler: all sequences up to length 3 over all 13 types, main entries
    for e in (['bec', 'bem', 'fic', 'fim', 'xec', 'xom', 'rim'] if quick else [x for x in ENTRIES if x != 'Rim']):
        for s in seqs(types, 3):
            if len(s) == 3:
                ops.append('apply %s S %s' % (e, ' '.join(s)))
    # (c) removed flags: all sequences up to length 2 (quick) / 3 over 26 tokens
    for e in (['bec', 'bem', 'fim', 'rim'] if quick else ['bec', 'bem', 'fic', 'fim', 'fom', 'rim', 'rom']):
        for s in seqs(toks_rm, 2 if quick else 3):
            if any(t.endswith('-') for t in s):
                ops.append('apply %s S %s' % (e, ' '.join(s)))
    for _ in range(3000 if quick else 40000):
        e = rng.choice([x for x in ENTRIES if x != 'Rim'])
        hd = rng.choice(SINGLES)
        if hd[0] == 'C' and not chain_ok(e):
            hd = 'S'
        s = [rng.choice(toks_rm) for _ in range(3 + rng.below(6))]
        ops.append('apply %s %s %s' % (e, hd, ' '.join(s)))
    # (d) handler lists of length 2..4, argument order
    import itertools
    multi_kinds = ['S', 'D', 'LN', 'C:S+D']
    fixed = [['n'], ['n', 'w'], ['c', 'T', 'n'], ['a-', 'X', 'r'], ['w', 'w', 'c', 'a'], []]
    for n in (2, 3, 4):
        for hs in itertools.product(multi_kinds, repeat=n):
            for e in MULTI_ENTRIES:
                if e == 'bec' and any(h[0] == 'C' for h in hs):
                    continue
                for s in (fixed if (n < 4 or not quick) else fixed[:3]):
                    ops.append('apply %s %s %s' % (e, ','.join(hs), ' '.join(s)))
    for _ in range(2000 if quick else 30000):
        n = 2 + rng.below(3)
        e = rng.choice(MULTI_ENTRIES)
        kinds = ['S', 'D', 'Df', 'D0', 'LN'] + ([] if e == 'bec' else ['C:S+D', 'C:S+Df', 'C:S+D0'])
        hs = [rng.choice(kinds) for _ in range(n)]
        s = [rng.choice(toks_rm) for _ in range(rng.below(5))]
        ops.append('apply %s %s %s' % (e, ','.join(hs), ' '.join(s)))
    # (e) reader-like sources: every way to cut short sequences into buffers (incl. empty buffers)
    small = ['n', 'c', 'T', 'X', 'a']
    for s in seqs(small, 3):
        for cuts in itertools.product((0, 1, 2), repeat=len(s) + 1):
            if sum(cuts) == 0 or sum(cuts) > 3:
                continue
            toks = []
            for i, c in enumerate(cuts):
                toks += ['|'] * c
                if i < len(s):
                    toks.append(s[i])
            for e, hd in (('rim', 'S'), ('rem', 'S'), ('rom', 'Lo')):
                if quick and not rng.chance(1, 4):
                    continue
                ops.append('apply %s %s %s' % (e, hd, ' '.join(toks)))
    # (f) the real osmium::io::Reader over an in-memory OPL file
    for s in seqs(['n', 'w', 'r', 'c'], 2 if quick else 3):
        for hd in (['S', 'D', 'Lo', 'LN'] if quick else SINGLES):
            ops.append('apply Rim %s %s' % (hd, ' '.join(s)))
    return ops


def gen_filt_ops(ctx, quick):
    rng = ctx.rng
    ops = []
    types = list(TYPES)
    for cls in FILTER_NAMES:
        for mode in 'cmr':
            for s in seqs(types, 2):
                ops.append('filt %s %s %s' % (cls, mode, ' '.join(s)))
            for _ in range(40 if quick else 1500):
                s = []
                for _ in range(rng.below(9)):
                    s.append(rng.choice(types) + ('-' if rng.chance(1, 5) else ''))
                    if mode == 'r' and rng.chance(1, 3):
                        s += ['|'] * (1 + rng.below(2))
                if mode == 'r' and rng.chance(1, 3):
                    s = ['|'] + s
                ops.append('filt %s %s %s' % (cls, mode, ' '.join(s)))
    return ops


def history(runs, types, ids):
    """runs[i] versions of object (types[i], ids[i])"""
    out = []
    for r, t, i in zip(runs, types, ids):
        for v in range(1, r + 1):
            out.append('%s:%d:%d' % (t, i, v))
    return out


def gen_diff_ops(ctx, quick):
    rng = ctx.rng
    ops = []
    import itertools
    # all run-length patterns up to total length 7, sorted by (type, id, version)
    for n in range(0, 8):
        for runs in compositions(n):
            k = len(runs)
            variants = []
            variants.append((['n'] * k, list(range(1, k + 1))))                       # one type, ids ascending
            if k >= 2:
                for cut in range(1, k):                                               # n..n w..w, SAME ids across the type boundary
                    variants.append((['n'] * cut + ['w'] * (k - cut), list(range(1, cut + 1)) + list(range(1, k - cut + 1))))
                ts = [('n', 'w', 'r')[min(2, i * 3 // k)] for i in range(k)]
                variants.append((ts, list(range(1, k + 1))))                          # n w r mix
                variants.append((['r'] * k, [-i for i in range(k, 0, -1)]))           # negative ids
            for ts, ids in variants:
                toks = history(runs, ts, ids)
                for e in ('it', 'itc'):
                    ops.append('diff %s 0 %s' % (e, ' '.join(toks)))
                for e in ('ad', 'adc'):
                    for nh in ((1, 2, 3) if (not quick or n <= 4) else (rng.choice([1, 2, 3]),)):
                        ops.append('diff %s %d %s' % (e, nh, ' '.join(toks)))
                # reader: cut into buffers, non-object fillers in between
                for _ in range(1 if quick else 4):
                    rt = []
                    for t in toks:
                        if rng.chance(1, 3):
                            rt += ['|'] * (1 + rng.below(2))
                        if rng.chance(1, 4):
                            rt.append(rng.choice(['c', 'T', 'X', 'D']))
                        rt.append(t)
                    if rng.chance(1, 3):
                        rt.append('|')
                    ops.append('diff itr 0 %s' % ' '.join(rt))
                    ops.append('diff adr %d %s' % (1 + rng.below(3), ' '.join(rt)))
            # areas: iterated fine, apply_diff has no area callback (throws unknown_type)
            if 1 <= n <= 4:
                toks = history(runs, ['a'] * k, list(range(1, k + 1)))
                ops.append('diff it 0 %s' % ' '.join(toks))
                ops.append('diff ad 1 %s' % ' '.join(toks))
                toks = history(runs, ['n'] * (k - 1) + ['a'], list(range(1, k + 1)))
                ops.append('diff ad 2 %s' % ' '.join(toks))
    # random long histories
    for _ in range(600 if quick else 20000):
        k = 1 + rng.below(12)
        runs = [1 + rng.below(rng.choice([1, 2, 3, 8])) for _ in range(k)]
        objs = set()
        while len(objs) < k:
            objs.add((rng.choice('nwr'), rng.below(6) + 1))
        objs = sorted(objs, key=lambda o: ('nwr'.index(o[0]), o[1]))
        toks = history(runs, [o[0] for o in objs], [o[1] for o in objs])
        if rng.chance(1, 3):
            # fillers between objects
            toks2 = []
            for t in toks:
                if rng.chance(1, 5):
                    toks2.append(rng.choice(['c', 'T', 'X']))
                toks2.append(t)
            toks = toks2
        e = rng.choice(['it', 'itc', 'ad', 'adc', 'itr', 'adr'])
        if e in ('itr', 'adr'):
            toks2 = []
            for t in toks:
                if rng.chance(1, 4):
                    toks2 += ['|'] * (1 + rng.below(2))
                toks2.append(t)
            toks = toks2
        ops.append('diff %s %d %s' % (e, 1 + rng.below(3), ' '.join(toks)))
    # unsorted / ungrouped data: outside the property's domain for the flags-vs-objects clause, but
    # the iterator's adjacent-pair behaviour is still specified by the model
    for _ in range(300 if quick else 5000):
        toks = ['%s:%d:%d' % (rng.choice('nw'), 1 + rng.below(2), 1 + rng.below(3)) for _ in range(rng.below(7))]
        ops.append('diff %s 1 %s' % (rng.choice(['it', 'itc', 'ad', 'itr']), ' '.join(toks)))
    return ops


# ---------------------------------------------------------------------------------------------
def run(ctx):
    import threading
    quick = ctx.tier == 'quick'
    ctx.rule = ('apply: every handler kind (static, 3 dynamic, 18 lambda signatures, 7 chains) x 15 entry points x all item sequences '
                'up to length 2 (quick) / 3 (thorough) over the 13 item types, static handler on ALL sequences up to length 3, removed-flag '
                'variants, all handler lists of length 2..4 over {static, dynamic, lambda(Node&), chain}, every cut of short sequences into '
                'reader buffers, the real io::Reader; filt: 14 iterator classes x const/non-const/reader x all sequences up to length 2 + random; '
                'diff: all run-length patterns up to total length 7 x type/id layouts x 6 entry points + random long + ungrouped; '
                'drive (driving patterns of the DiffIterator): two iterator objects driven by EVERY loop body of length 1..2 (3: total length <= 4) over 12 '
                'operations {*a, a->, ++a, *a++, advance(a,2), b=a, a=b, *b, ++b, *b++, a==end, a==b} and every body of length 4 over 6 core operations, '
                'repeated until the range is exhausted, x every run-length pattern up to total length 5 (quick) / 6, over ItemIterator (const / non-const) '
                'and, with one iterator object, over the single-pass InputIterator with random buffer cuts; + random long scripts; '
                'fdrive: the same scripts on ItemIterator<T> (const / non-const, two objects) and InputIterator<_, T> (one object) for 3 (quick) / 8 classes '
                'x all item sequences up to length 3. '
                'distinct = distinct op lines / table rows; trivial (not counted as non-trivial) = ops over an empty item sequence')
    ctx.assumptions += [
        'wrapped function objects: signatures over OSM entity/object types and `auto` only; a parameter of type memory::Item is the '
        'wrapper\'s own fallback signature and is outside the property\'s domain (behaviour recorded under observations)',
        'diff iterator: first/last-vs-object clauses are stated for grouped data (all versions of one object adjacent), which sorting by '
        'type, id, version guarantees (sorted_grouped)',
        'ChainHandler is only usable with non-const containers (it has only non-const overloads: does not compile otherwise)',
    ]
    ctx.trusted += ['harness/c20_dump.cpp + the Lean generator in tools/props/c20.py (a wrong extraction makes the table monitors or the '
                    'correspondence disagree: the harness runs the same compiled code)',
                    'hand transcription of apply_impl/apply_item/apply_flush, DynamicHandler/ChainHandler forwarding, ItemIterator, InputIterator, '
                    'DiffIterator, apply_diff (checked by the correspondence streams)']

    # ---- 0. build the three programs in parallel --------------------------------------------
    import hashlib
    with open(os.path.join(vlib.ROOT, 'harness', 'c20_common.hpp'), 'rb') as f:
        hh = hashlib.sha256(f.read()).hexdigest()[:12]
    flag = ['-DC20_COMMON_HASH=0x' + hh]
    built = {}

    def build(name, src, **kw):
        built[name] = vlib.build_cpp(name, [src], flags=flag, **kw)
    th = [threading.Thread(target=build, args=('c20_dump', 'c20_dump.cpp')),
          threading.Thread(target=build, args=('c20', 'c20.cpp')),
          threading.Thread(target=build, args=('c20_diff', 'c20_diff.cpp'), kwargs={'ndebug': False})]
    for t in th:
        t.start()
    th[0].join()
    dump_bin, err = built['c20_dump']
    if dump_bin is None:
        for t in th[1:]:
            t.join()
        ctx.violation('dumper-build', 'table dumper does not compile against the current tree: ' + err[-600:],
                      {'kind': 'harness-build', 'stderr': err}, found_input=False)
        return
    rc, so, se = vlib.sh([dump_bin])
    if rc != 0:
        for t in th[1:]:
            t.join()
        ctx.violation('dumper-crash', 'table dumper exited %d: %s' % (rc, se[-400:]), {'kind': 'harness-crash', 'stderr': se[-2000:]}, found_input=False)
        return
    disp, compat, wrap = parse_dump(so)
    changed = vlib.write_if_changed(GEN_PATH, gen_tables(disp, compat, wrap))
    ctx.extra['generated_tables'] = {'path': os.path.relpath(GEN_PATH, vlib.ROOT), 'rewritten_this_run': changed,
                                     'rows': {'dispatch': len(disp), 'compat': len(compat), 'wrapper': len(wrap)}}
    obs = table_monitors(ctx, disp, compat, wrap)
    ok_probe, first_err = compile_probe('apply_diff_buffer', APPLY_DIFF_BUFFER_PROBE)
    obs.append('osmium::apply_diff(Buffer&, handlers...) compiles: %s%s' % ('yes' if ok_probe else 'NO', '' if ok_probe else ' (' + first_err + ')'))
    ctx.extra['observations'] = obs

    # ---- 1. proofs (against the tables just regenerated) -------------------------------------
    table_viol = list(ctx.violations)

    def on_fail(failed):
        # the `cases <;> rfl` theorems enumerate the regenerated tables: the failing input is the
        # table row the table monitors (above) found to contradict the property
        if table_viol:
            v = table_viol[0]
            ctx.violation('proof-broken:' + v.key,
                          'theorems no longer check against the regenerated tables (%s); failing table row: %s'
                          % (', '.join(sorted(failed))[:300], v.what),
                          {'kind': 'counterexample', 'theorems': failed, 'table_violation_replay': v.replay,
                           'rows': [x.key for x in table_viol][:20]})
    proof_ok = ctx.proof_stage(exes=['model_c20'], on_fail=on_fail)

    for t in th[1:]:
        t.join()
    hbin, err = built['c20']
    dbin, err2 = built['c20_diff']
    if hbin is None or dbin is None:
        e = err if hbin is None else err2
        ctx.violation('harness-build', 'harness does not compile against the current tree: ' + e[-600:],
                      {'kind': 'harness-build', 'stderr': e}, found_input=False)
        return

    if getattr(ctx, 'replay', None):
        import json
        with open(ctx.replay) as f:
            rp = json.load(f)
        op = rp.get('op')
        if op:
            b = dbin if op.startswith(('diff', 'drive')) else hbin
            rc, impl, se = ctx.run_lines([b], op + '\n')
            rc2, model, se2 = ctx.run_lines([ctx.model_exe('model_c20')], op + '\n')
            vlib.log('replay op   : ' + op)
            vlib.log('  impl      : ' + (impl[0] if impl else '<none>'))
            vlib.log('  model     : ' + (model[0] if model else '<none>'))
            w = op.split()
            want = None
            if w[0] == 'apply':
                want = oracle_apply(w[1], w[2].split(','), w[3:])
            elif w[0] == 'filt':
                want = oracle_filt(w[1], w[3:])
            elif w[0] == 'diff':
                want = oracle_diff(w[1], int(w[2]), w[3:])
            elif w[0] == 'fdrive':
                want = ' '.join(oracle_fdrive(w[1], w[3], w[5:])[0]) or '-'
                vlib.log('  script    : ' + describe_script(w[3], len(w[3])))
            elif w[0] == 'drive':
                want = ' '.join(oracle_drive(w[2], w[3:])[0]) or '-'
                vlib.log('  script    : ' + describe_script(w[2], len(w[2])))
            vlib.log('  property  : ' + str(want))
            if want is not None and impl and impl[0] != want:
                ctx.violation(rp.get('key', 'replay'), 'replayed op still violates the property', {'kind': 'counterexample', 'op': op, 'impl': impl[0], 'expected': want})
        return

    # ---- 2. ops ---------------------------------------------------------------------------------
    corpus = []
    cdir = os.path.join(vlib.ROOT, 'corpus', 'C20')
    if os.path.isdir(cdir):
        for fn in sorted(os.listdir(cdir)):
            if fn.endswith('.ops'):
                with open(os.path.join(cdir, fn)) as f:
                    corpus += [l.strip() for l in f if l.strip() and not l.startswith('#')]
    apply_ops = [o for o in corpus if o.startswith('apply')] + gen_apply_ops(ctx, quick)
    filt_ops = [o for o in corpus if o.startswith('filt')] + gen_filt_ops(ctx, quick)
    diff_ops = [o for o in corpus if o.startswith('diff')] + gen_diff_ops(ctx, quick)
    drive_ops = [o for o in corpus if o.startswith('drive')] + gen_drive_ops(ctx, quick)
    fdrive_ops = [o for o in corpus if o.startswith('fdrive')] + gen_fdrive_ops(ctx, quick)
    main_ops = apply_ops + filt_ops

    res = {}

    def runner(key, cmd, ops):
        res[key] = ctx.run_lines(cmd, '\n'.join(ops) + '\n')
    jobs = [('impl-main', [hbin], main_ops), ('impl-diff', [dbin], diff_ops), ('impl-drive', [dbin], drive_ops), ('impl-fdrive', [hbin], fdrive_ops)]
    if ctx.exe_build_ok:
        jobs += [('model-main', [ctx.model_exe('model_c20')], main_ops), ('model-diff', [ctx.model_exe('model_c20')], diff_ops),
                 ('model-drive', [ctx.model_exe('model_c20')], drive_ops), ('model-fdrive', [ctx.model_exe('model_c20')], fdrive_ops)]
    ths = [threading.Thread(target=runner, args=j) for j in jobs]
    for t in ths:
        t.start()
    for t in ths:
        t.join()
    ops_of = {'impl-main': main_ops, 'impl-diff': diff_ops, 'impl-drive': drive_ops, 'impl-fdrive': fdrive_ops}
    for key in ('impl-main', 'impl-diff', 'impl-drive', 'impl-fdrive'):
        rc, lines, se = res[key]
        n = len(ops_of[key])
        if rc != 0 or len(lines) != n:
            ops = ops_of[key]
            # the harness buffers its output: run again line-buffered to find the op that crashed
            try:
                rc_b, lines_b, se_b = ctx.run_lines(['stdbuf', '-oL', hbin if key in ('impl-main', 'impl-fdrive') else dbin], '\n'.join(ops) + '\n')
                if rc_b != 0:
                    rc, lines, se = rc_b, lines_b, se_b
            except OSError:
                pass
            at = ops[len(lines)] if len(lines) < len(ops) else '<end>'
            ctx.violation('harness-crash:' + at[:100], 'harness %s exited %d after %d of %d ops (next op: `%s`): %s' % (key, rc, len(lines), n, at, se[-500:]),
                          {'kind': 'harness-crash', 'op': at, 'stderr': se[-2000:], 'replay': 'echo "<op>" | <harness %s (assertions enabled)>' % key},
                          found_input=(at != '<end>'))
            if key in ('impl-diff', 'impl-drive') and 'Assertion' in se:
                # an assertion of the library fired (the diff harness is built with assertions on):
                # go on with an NDEBUG build so that the property monitors can still judge the output
                nd, e3 = vlib.build_cpp('c20_diff_nd', ['c20_diff.cpp'], flags=flag, ndebug=True)
                if nd is not None:
                    r2 = ctx.run_lines([nd], '\n'.join(ops) + '\n')
                    if r2[0] == 0 and len(r2[1]) == len(ops):
                        res[key] = r2
                        continue
            return
    impl_main = res['impl-main'][1]
    impl_diff = res['impl-diff'][1]
    impl_drive = res['impl-drive'][1]
    impl_fdrive = res['impl-fdrive'][1]

    # ---- 3. property monitors on the implementation alone ------------------------------------------
    nviol = 0
    for op, got in zip(main_ops, impl_main):
        w = op.split()
        trivial = len(w) <= 3
        ctx.note_case(op, nontrivial=not trivial)
        if w[0] == 'apply':
            hs = w[2].split(',')
            ctx.count('apply-entry:' + w[1])
            ctx.count('apply-handlers:%d' % len(hs))
            for h in hs:
                ctx.count('handler-kind:' + (h if h[0] != 'C' else 'C'))
            ctx.count('apply-result:' + ('throw' if got.endswith('!unknown_type') else 'empty-log' if got == '-' else 'log'))
            want = oracle_apply(w[1], hs, w[3:])
            if want is None:
                ctx.count('apply-outside-domain(Item-lambda)')
                continue
        else:
            ctx.count('filt-mode:' + w[2])
            want = oracle_filt(w[1], w[3:])
        if got != want and nviol < 3:
            nviol += 1
            ctx.violation('%s:%s' % (w[0], ' '.join(w[1:])[:110]),
                          'the implementation\'s callback log differs from what the property demands for `%s`: got `%s`, expected `%s`' % (op, got[:400], want[:400]),
                          {'kind': 'counterexample', 'op': op, 'impl': got, 'expected': want, 'replay': 'echo "<op>" | <harness c20>  (or: tools/check.py C20 --replay <this file>)'})
    nviol = 0
    for op, got in zip(diff_ops, impl_diff):
        w = op.split()
        ctx.note_case(op, nontrivial=len(w) > 3)
        ctx.count('diff-entry:' + w[1])
        objs = parse_diff_toks(w[3:])
        ctx.count('diff-len:%s' % (len(objs) if len(objs) < 8 else '8+'))
        for d in ([] if (got == '-' or not w[1].startswith('it')) else got.split(' ')):
            f = d.split(',')
            if len(f) == 5:
                ctx.count('diff-flags:first=%s,last=%s' % (f[3], f[4]))
        ctx.count('diff-result:' + ('throw' if '!unknown_type' in got else 'ok'))
        msg = monitor_diff_generic(w[1], w[3:], got)
        want = oracle_diff(w[1], int(w[2]), w[3:])
        if msg is None and got != want:
            msg = 'got `%s`, the property demands `%s`' % (got[:400], want[:400])
        if msg is not None and nviol < 3:
            nviol += 1
            ctx.violation('diff:%s' % ' '.join(w[1:])[:110], 'diff iteration violates the property on `%s`: %s' % (op, msg),
                          {'kind': 'counterexample', 'op': op, 'impl': got, 'expected': want, 'replay': 'echo "<op>" | <harness c20_diff>  (or: tools/check.py C20 --replay <this file>)'})
    # driving patterns: every presentation is the property's context of the POSITION of the iterator object
    nviol = 0
    for op, got in zip(drive_ops, impl_drive):
        w = op.split()
        ctx.note_case(op, nontrivial=len(w) > 3)
        want, info, feats = oracle_drive(w[2], w[3:])
        runs = run_shape(w[3:])
        shape = 'empty' if not runs else 'runs-of-1' if max(runs) == 1 else 'has-run-of-2' if max(runs) == 2 else 'has-run-of-3+'
        cls = '+'.join(sorted(feats)) or 'plain'
        g = [] if got == '-' else got.split(' ')
        okline = g == want
        ctx.count('drive-entry:' + w[1])
        ctx.count('drive:script[%s] x %s: %s' % (cls, shape, 'ok' if okline else 'VIOLATION'))
        for k, (idx, o, p, how) in enumerate(info):
            if how in ('end', 'cmp'):
                ctx.count('drive-out:' + ('refused-at-end' if how == 'end' else 'comparison'))
                continue
            f = want[k].split(',')
            where = {('1', '1'): 'single', ('1', '0'): 'first', ('0', '0'): 'middle', ('0', '1'): 'last'}[(f[3], f[4])]
            ctx.count('drive-deref:%s@%s-of-run: %s' % (how, where, 'ok' if (k < len(g) and g[k] == want[k]) else 'VIOLATION'))
        if not okline and nviol < 3:
            nviol += 1
            k = 0
            while k < len(g) and k < len(want) and g[k] == want[k]:
                k += 1
            if k < len(info):
                idx, o, p, how = info[k]
                msg = ('after `%s` iterator object %s stands on position %d (object arrived there by %s) and %s `%s`, the property demands `%s` '
                       '(<prev>,<curr>,<next>,<first>,<last> as item positions)'
                       % (describe_script(w[2], idx), o, p, how, 'the operation yields' if how in ('end', 'cmp') else 'the dereference presents',
                          g[k] if k < len(g) else '<nothing>', want[k]))
            else:
                msg = 'got `%s`, the property demands `%s`' % (got[:300], ' '.join(want)[:300])
            ctx.violation('drive:%s' % ' '.join(w[1:])[:110],
                          'what a DiffIterator position presents depends on how the iterator was driven: `%s`: %s' % (op, msg),
                          {'kind': 'counterexample', 'op': op, 'impl': got, 'expected': ' '.join(want) or '-',
                           'script': describe_script(w[2], len(w[2])),
                           'replay': 'echo "<op>" | <harness c20_diff>  (or: tools/check.py C20 --replay <this file>)'})
    nviol = 0
    for op, got in zip(fdrive_ops, impl_fdrive):
        w = op.split()
        ctx.note_case(op, nontrivial=len(w) > 5)
        want, info, feats = oracle_fdrive(w[1], w[3], w[5:])
        g = [] if got == '-' else got.split(' ')
        okline = g == want
        ctx.count('fdrive:%s script[%s]: %s' % ({'c': 'ItemIterator(const)', 'm': 'ItemIterator', 'r': 'InputIterator'}[w[2]],
                                                '+'.join(sorted(feats)) or 'plain', 'ok' if okline else 'VIOLATION'))
        if not okline and nviol < 3:
            nviol += 1
            k = 0
            while k < len(g) and k < len(want) and g[k] == want[k]:
                k += 1
            if k < len(info):
                idx, o, p, how = info[k]
                msg = ('after `%s` iterator object %s stands on position %d of the items it has to visit (arrived there by %s) and yields `%s`, '
                       'the property demands `%s`' % (describe_script(w[3], idx), o, p, how, g[k] if k < len(g) else '<nothing>', want[k]))
            else:
                msg = 'got `%s`, the property demands `%s`' % (got[:300], ' '.join(want)[:300])
            ctx.violation('fdrive:%s' % ' '.join(w[1:])[:110],
                          'what a filtering iterator presents depends on how it was driven: `%s`: %s' % (op, msg),
                          {'kind': 'counterexample', 'op': op, 'impl': got, 'expected': ' '.join(want) or '-', 'script': describe_script(w[3], len(w[3])),
                           'replay': 'echo "<op>" | <harness c20>  (or: tools/check.py C20 --replay <this file>)'})
    ctx.sample(fdrive_ops[len(fdrive_ops) // 2])
    ctx.sample(drive_ops[len(drive_ops) // 3])
    ctx.sample(drive_ops[-5])
    for o in (main_ops[5000], main_ops[len(apply_ops) - 7], main_ops[-3], diff_ops[200], diff_ops[-400]):
        ctx.sample(o)

    # ---- 4. correspondence --------------------------------------------------------------------------
    if ctx.exe_build_ok and 'model-main' in res:
        for name, ops, impl, key in (('c20-apply+filt-model-vs-impl', main_ops, impl_main, 'model-main'),
                                     ('c20-diff-model-vs-impl', diff_ops, impl_diff, 'model-diff'),
                                     ('c20-drive-model-vs-impl', drive_ops, impl_drive, 'model-drive'),
                                     ('c20-fdrive-model-vs-impl', fdrive_ops, impl_fdrive, 'model-fdrive')):
            model = res[key][1]
            dis = ctx.diff_streams(name, ops, impl, model)
            if dis and not ctx.violations:
                i, op, a, b = dis[0]
                ctx.violation('correspondence:' + op[:100],
                              'model and implementation disagree (%d lines, first: `%s` impl=`%s` model=`%s`) and no property monitor fired'
                              % (len(dis), op, a[:300], b[:300]),
                              {'kind': 'broken-correspondence', 'stream': name, 'op': op, 'first': [list(d) for d in dis[:5]]}, found_input=False)
    elif proof_ok:
        ctx.violation('model-driver-build', 'model driver does not build', {'kind': 'broken-correspondence'}, found_input=False)
