"""C11 — relation managers complete each relation exactly once with all its members
(DESIGN.md §3 C11, finding F7).

1. proof stage: lean/Osmium/Props/C11.lean (all relation sets, predicates, streams) + axiom audit.
2. correspondence: the REAL RelationsManager<.,N,W,R> (all 7 type combinations) and
   area::MultipolygonManager (harness/c11.cpp) against the compiled Lean model
   (lean/Driver/C11.lean) on the same history lines; plain NDEBUG build for everything,
   ASan+UBSan build for the memory side (lookups dereference the returned objects).
3. property monitors on the implementation alone against a set-based oracle written here
   (interesting / wanted r / seen; complete r <-> wanted r subset of seen) — they give the
   concrete failing history, which is then shrunk.
4. large structured histories (`G` op lines, 10^4 .. 10^6 members per type): size-/count-dependent
   behaviour (thresholds, amortised clean-ups).  Harness, compiled model and this module synthesize the same
   history from 13 (+2) parameters (GSpec); outputs are running digests; the oracle is the same set-based one.
5. the ID ALPHABET dimension (`alias_*`): member ids, relation ids and lookup keys that collide under any hashing / masking /
   truncation / abs() of an id (x, x ± 2^k, -x, 2^k - x, neighbours; k = 8 .. 62), same type and across types, in every
   release order (first id released before / still held when / never followed by its colliding partner): exhaustive small
   histories, random histories, and generated histories whose members j, j+am, .. differ by 2^ak.  Histogram
   `alias:<alphabet class>|<release order>|<outcome>`.
6. state census (clang AST): every data member of the manager classes and every function touching one ->
   Generated/C11Layout.lean, tied to the model's state by `members_database_state_is_modelled`.
"""
import os
import re
import subprocess
import threading
import time

import vlib

KINDS = 'nwr'
KORD = {'n': 1, 'w': 2, 'r': 3}
F7_KEY = 'members-db-lookup-after-release'
F7_WITNESS = 'H w 15 255 0 %d 0 %d | R 1 0 w10 | O w 10 7 | Q w 10 x | E'


# ------------------------------------------------------------------------------------------
# history representation

class Hist:
    """cfg + relations + ops;  ops: ('O', k, id, content) | ('Q', k, id)"""

    def __init__(self, variant, rm, mm, cb, wr, rels, ops):
        self.variant, self.rm, self.mm, self.cb, self.wr = variant, rm, mm, cb, wr
        self.rels = rels      # [(id, content, [(k, ref), ...])]
        self.ops = ops

    def copy(self, **kw):
        h = Hist(self.variant, self.rm, self.mm, self.cb, self.wr, [(a, b, list(c)) for a, b, c in self.rels], list(self.ops))
        for k, v in kw.items():
            setattr(h, k, v)
        return h

    # -- predicates (same arithmetic as harness/c11.cpp and lean/Driver/C11.lean)
    def enabled(self, k):
        return k == 'w' if self.variant == 'mp' else k in self.variant

    def new_rel(self, r):
        rid, content, members = r
        if self.variant == 'mp':
            return content % 4 in (0, 1) and any(k == 'w' for k, _ in members)
        return (self.rm >> (content % 4)) & 1 == 1

    def new_mem(self, ref, n):
        if self.variant == 'mp':
            return True
        return (self.mm >> ((abs(ref) + n) % 8)) & 1 == 1

    def wanted(self, r):
        """wanted references of r, in member order, with multiplicity"""
        return [(k, ref) for n, (k, ref) in enumerate(r[2]) if self.enabled(k) and self.new_mem(ref, n)]

    def line(self, maxbuf, fixed, hints=None, drop_x=False):
        """hints: list parallel to ops with 'd'/'x' for Q ops"""
        parts = ['H %s %d %d %d %d %d %d' % (self.variant, self.rm, self.mm, 1 if self.cb else 0, maxbuf, self.wr, fixed)]
        for rid, content, members in self.rels:
            parts.append(' '.join(['R', str(rid), str(content)] + ['%s%d' % m for m in members]))
        for i, op in enumerate(self.ops):
            if op[0] == 'O':
                parts.append('O %s %d %d' % op[1:])
            elif op[0] == 'F':
                parts.append('F')
            else:
                h = hints[i] if hints else 'd'
                if drop_x and h == 'x':
                    continue
                parts.append('Q %s %d %s' % (op[1], op[2], h))
        parts.append('E')
        return ' | '.join(parts)


def parse_line(line):
    """inverse of Hist.line (hints are recomputed by the oracle)"""
    secs = [x.split() for x in line.split('|')]
    hd = secs[0]
    h = Hist(hd[1], int(hd[2]), int(hd[3]), hd[4] == '1', int(hd[6]), [], [])
    for t in secs[1:]:
        if not t or t[0] == 'E':
            continue
        if t[0] == 'R':
            h.rels.append((int(t[1]), int(t[2]), [(m[0], int(m[1:])) for m in t[3:]]))
        elif t[0] == 'O':
            h.ops.append(('O', t[1], int(t[2]), int(t[3])))
        elif t[0] == 'Q':
            h.ops.append(('Q', t[1], int(t[2])))
        elif t[0] == 'F':
            h.ops.append(('F',))
    return h


def id_key(i):
    return (1 if i > 0 else 0, abs(i))


def stream_key(k, i):
    return (KORD[k],) + id_key(i)


# ------------------------------------------------------------------------------------------
# the oracle: the property itself, with sets

class Expect:
    pass


def oracle(h):
    """Returns per-op expectations and the final expectations.
    per op: ('O', set of relation indices that must complete here, not_in_any (bool or None), skipped)
            ('Q', 'absent' | 'released' | ('found', content))
            ('T',)   the stream is out of order here: out_of_order_error expected, nothing after
    """
    interesting = [i for i, r in enumerate(h.rels) if h.new_rel(r)]
    wanted = {i: h.wanted(h.rels[i]) for i in interesting}
    needed_by = {}
    for i in interesting:
        for w in wanted[i]:
            needed_by.setdefault(w, set()).add(i)
    seen = {}
    completed = set()
    # number of DISTINCT wanted members of each relation that have not arrived yet (complete r <-> wanted r is a subset of
    # seen <-> this number is zero; counting makes the oracle linear in the number of references)
    waiting = {i: len(set(wanted[i])) for i in interesting}
    last = None
    per_op = []
    thrown = False
    for op in h.ops:
        if op[0] == 'O':
            _, k, oid, content = op
            if not h.enabled(k):
                per_op.append(('O', set(), None, True))
                continue
            key = stream_key(k, oid)
            if last is not None and not (last < key):
                per_op.append(('T',))
                thrown = True
                break
            last = key
            seen[(k, oid)] = content
            now = set()
            for i in needed_by.get((k, oid), ()):
                waiting[i] -= 1
                if waiting[i] == 0 and i not in completed:
                    now.add(i)
            completed |= now
            per_op.append(('O', now, (k, oid) not in needed_by, False))
        elif op[0] == 'F':
            per_op.append(('F',))
        else:
            _, k, qid = op
            if qid == 0 or (k, qid) not in seen or (k, qid) not in needed_by:
                per_op.append(('Q', 'absent'))
            elif needed_by[(k, qid)] <= completed:
                per_op.append(('Q', 'released'))
            else:
                per_op.append(('Q', ('found', seen[(k, qid)])))
    e = Expect()
    e.per_op = per_op
    e.thrown = thrown
    e.interesting = interesting
    e.wanted = wanted
    e.completed = completed
    e.seen = seen
    e.incomplete = [h.rels[i][0] for i in interesting if i not in completed]
    cnt = {k: [0, 0, 0] for k in KINDS}
    for i in interesting:
        for (k, ref) in wanted[i]:
            if i in completed:
                cnt[k][2] += 1
            elif (k, ref) in seen:
                cnt[k][1] += 1
            else:
                cnt[k][0] += 1
    e.counts = cnt
    return e


def hints_of(h, e):
    out = []
    for i, op in enumerate(h.ops):
        if op[0] == 'Q' and i < len(e.per_op) and e.per_op[i][0] == 'Q' and e.per_op[i][1] == 'released':
            out.append('x')
        else:
            out.append('d')
    return out


def parse_out(line):
    """-> (events, tail dict) ; events: ('C', rid, [(k, ref, res)]) | ('N', k, id) | ('Q', k, id, res) | ('T',)"""
    evs, tail = [], {}
    for part in line.split(' ; '):
        part = part.strip()
        if not part:
            continue
        t = part[0]
        if t == 'C':
            f = part.split(' ')
            looks = []
            if len(f) > 2 and f[2]:
                for x in f[2].split(','):
                    m, res = x.split('=', 1)
                    looks.append((m[0], int(m[1:]), res))
            evs.append(('C', int(f[1]), looks))
        elif t == 'N':
            m = part.split(' ')[1]
            evs.append(('N', m[0], int(m[1:])))
        elif t == 'Q':
            m, res = part.split(' ')[1].split('=', 1)
            evs.append(('Q', m[0], int(m[1:]), res))
        elif t == 'T' and part == 'T':
            evs.append(('T',))
        elif t == 'I':
            x = part[2:].strip()
            tail['I'] = [] if x in ('-', '') else [int(v) for v in x.split(',')]
        elif t == 'S':
            f = part.split(' ')
            tail['rels'] = tuple(int(v) for v in f[1].split('/'))
            for x in f[2:]:
                k, v = x.split('=')
                tail['cnt' + k] = [int(y) for y in v.split('/')]
        elif t == 'F':
            tail['F'] = [int(v) for v in part.split(' ')[1:]]
        elif t == 'U':
            tail['U'] = part[1:]
        else:
            tail.setdefault('junk', []).append(part)
    return evs, tail


def monitor(h, e, out_line, hints):
    """Evaluate the property on one implementation output.  Returns list of (key, text)."""
    bad = []
    try:
        evs, tail = parse_out(out_line)
    except Exception as ex:  # malformed output
        return [('malformed-output', 'cannot parse harness output %r (%s)' % (out_line[:200], ex))]
    if 'junk' in tail:
        return [('malformed-output', 'unexpected output parts %r' % tail['junk'][:3])]
    rid_of = lambda i: h.rels[i][0]
    pos = 0
    fired = {}

    def take(pred):
        nonlocal pos
        got = []
        while pos < len(evs) and pred(evs[pos]):
            got.append(evs[pos])
            pos += 1
        return got

    for idx, (op, ex) in enumerate(zip(h.ops, e.per_op)):
        if ex[0] == 'T':
            t = take(lambda v: v[0] != 'T')
            if t:
                bad.append(('events-before-throw', 'op %d %r: events %r before the expected out_of_order_error' % (idx, op, t[:3])))
            if not (pos < len(evs) and evs[pos] == ('T',)):
                bad.append(('out-of-order-accepted', 'op %d %r breaks the (type, id) order but no out_of_order_error was thrown' % (idx, op)))
            else:
                pos += 1
            break
        if ex[0] == 'F':
            continue
        if ex[0] == 'O':
            got = take(lambda v: v[0] in 'CN')
            cs = [g for g in got if g[0] == 'C']
            ns = [g for g in got if g[0] == 'N']
            if pos < len(evs) and evs[pos] == ('T',) :
                bad.append(('spurious-out-of-order', 'op %d %r: out_of_order_error thrown on an ascending stream' % (idx, op)))
                break
            want_ids = sorted(rid_of(i) for i in ex[1])
            got_ids = sorted(c[1] for c in cs)
            if got_ids != want_ids:
                extra = [x for x in got_ids if x not in want_ids or got_ids.count(x) > 1]
                missing = [x for x in want_ids if x not in got_ids]
                if missing:
                    bad.append(('not-completed-at-last-member', 'object %s%d arrives: relations %r have all wanted members now but only %r were handed to complete_relation' % (op[1], op[2], want_ids, got_ids)))
                if extra:
                    bad.append(('completed-wrongly', 'object %s%d arrives: complete_relation called for %r; complete at this step are exactly %r' % (op[1], op[2], got_ids, want_ids)))
            for c in cs:
                fired[c[1]] = fired.get(c[1], 0) + 1
                # members: every wanted member retrievable and identical to the input object
                cand = [i for i in e.interesting if rid_of(i) == c[1]]
                if not cand:
                    continue
                i = cand[0]
                wl = e.wanted[i]
                refs = [(k, ref) for k, ref, _ in c[2]]
                if refs != wl:
                    bad.append(('callback-members-differ', 'relation %d completed: members offered in the callback %r, wanted members %r' % (c[1], refs, wl)))
                for k, ref, res in c[2]:
                    exp = '%d:%d:1' % (ref, e.seen.get((k, ref), -1))
                    if res != exp:
                        bad.append(('member-not-available-in-callback', 'relation %d completed: lookup of wanted member %s%d inside the callback gives %s, expected the input object %s' % (c[1], k, ref, res, exp)))
            if not ex[3] and h.variant != 'mp':
                if ex[2] and len(ns) != 1:
                    bad.append(('not-in-any-relation-missing', 'object %s%d is needed by no relation but *_not_in_any_relation was called %d times' % (op[1], op[2], len(ns))))
                if not ex[2] and ns:
                    bad.append(('not-in-any-relation-spurious', 'object %s%d is a wanted member but was reported as not in any relation' % (op[1], op[2])))
            if ex[3] and got:
                bad.append(('disabled-type-handled', 'object %s%d of a disabled member type produced events %r' % (op[1], op[2], got[:2])))
        else:
            if not (pos < len(evs) and evs[pos][0] == 'Q'):
                bad.append(('malformed-output', 'expected a Q event for op %d' % idx))
                break
            q = evs[pos]
            pos += 1
            res = q[3]
            if ex[1] == 'absent':
                if res != '-':
                    bad.append(('lookup-unknown-not-absent', 'lookup of %s%d (never stored / needed by no relation) gives %s instead of nullptr' % (q[1], q[2], res)))
            elif ex[1] == 'released':
                if res != '-':
                    bad.append((F7_KEY, 'lookup of %s%d after the last relation needing it was completed gives %s instead of nullptr' % (q[1], q[2], 'a non-null (wild) pointer' if res == 'W' else res)))
            else:
                exp = '%d:%d:1' % (q[2], ex[1][1])
                if res != exp:
                    bad.append(('shared-member-released-early', 'lookup of %s%d while a relation needing it is still incomplete gives %s, expected the input object %s' % (q[1], q[2], res, exp)))
    if pos < len(evs) and not bad:
        bad.append(('spurious-events', 'events after the end of the history: %r' % (evs[pos:pos + 3],)))
    for rid, n in fired.items():
        if n > 1:
            bad.append(('completed-more-than-once', 'relation %d was handed to complete_relation %d times' % (rid, n)))
    # incomplete list = interesting minus completed
    if 'I' in tail:
        if sorted(tail['I']) != sorted(e.incomplete) :
            bad.append(('incomplete-list-wrong', 'for_each_incomplete_relation lists %r; interesting relations never completed are %r' % (tail['I'][:20], e.incomplete[:20])))
        elif tail['I'] != e.incomplete:
            bad.append(('incomplete-list-order', 'incomplete list %r is not in input order %r' % (tail['I'][:20], e.incomplete[:20])))
    else:
        bad.append(('malformed-output', 'no incomplete list'))
    if not e.thrown or True:
        if tail.get('rels') != (len(e.incomplete), len(e.interesting)):
            bad.append(('relations-db-count', 'relations database holds %r (live/all), expected %r' % (tail.get('rels'), (len(e.incomplete), len(e.interesting)))))
        for k in KINDS:
            if tail.get('cnt' + k) != e.counts[k]:
                bad.append(('members-db-count', 'members database %s counts tracked/available/removed = %r, expected %r (removed = references of completed relations)' % (k, tail.get('cnt' + k), e.counts[k])))
    # output buffer: nothing lost, nothing invented
    if 'F' in tail:
        flushes, flushed, left = tail['F']
        total = h.wr * len(e.completed)
        if flushed + left != total:
            bad.append(('output-bytes-lost', 'callbacks wrote %d bytes, flushed %d + left in buffer %d' % (total, flushed, left)))
        if h.cb and left != 0:
            bad.append(('output-not-flushed', 'final flush() left %d bytes in the buffer' % left))
        if not h.cb and flushes:
            bad.append(('flush-without-callback', '%d flushes without a callback' % flushes))
    return bad


# ------------------------------------------------------------------------------------------
# generators

VARIANTS = ['nwr', 'nwr', 'nwr', 'nwr', 'w', 'w', 'mp', 'mp', 'nw', 'nr', 'wr', 'n', 'r']


def gen_history(rng, big=False, allow_zero=False):
    variant = rng.choice(VARIANTS)
    rm = 15 if rng.chance(1, 2) else 1 + rng.below(15)
    mm = 255 if rng.chance(1, 2) else rng.choice([0xFE, 0x7F, 0xAA, 0x55, 0x0F, rng.below(256), 0])
    cb = rng.chance(2, 3)
    wr = rng.choice([0, 0, 8, 64, 200000, 500000])
    pool_n = 4 + rng.below(10 if not big else 40)
    pool = list(range(1, pool_n + 1)) + ([-1, -2, -7] if rng.chance(1, 3) else [])
    if allow_zero:
        pool.append(0)
    nrel = 1 + rng.below(8 if not big else 30)
    kinds_w = rng.choice(['nwr', 'www', 'wwwnr', 'nnwr', 'rrwn'])
    if variant in ('w', 'mp') and rng.chance(2, 3):
        kinds_w = 'wwwwn'
    rels = []
    rid_pool = list(range(1, 3 * nrel + 5))
    rng.shuffle(rid_pool)
    for j in range(nrel):
        nm = rng.choice([0, 1, 1, 2, 2, 3, 3, 4, 6])
        ms = []
        for _ in range(nm):
            if ms and rng.chance(1, 6):
                ms.append(rng.choice(ms))      # duplicate reference inside one relation
            else:
                ms.append((rng.choice(kinds_w), rng.choice(pool)))
        rels.append((rid_pool[j], rng.below(1000), ms))
    # member stream: any subset of the referenced ids plus unrelated ids
    p_inc = rng.choice([100, 100, 90, 70, 40])
    objs = set()
    for _, _, ms in rels:
        for m in ms:
            if rng.below(100) < p_inc:
                objs.add(m)
    for _ in range(rng.below(6)):
        objs.add((rng.choice(KINDS), rng.choice(pool + [pool_n + 1 + rng.below(5), -20 - rng.below(3)])))
    if not allow_zero:
        objs = {o for o in objs if o[1] != 0}
    objs = sorted(objs, key=lambda o: stream_key(*o))
    if len(objs) >= 2 and rng.chance(1, 12):
        j = rng.below(len(objs) - 1)
        if rng.chance(1, 2):
            objs[j], objs[j + 1] = objs[j + 1], objs[j]
        else:
            objs.insert(j + 1, objs[j])
    ops = []
    universe = sorted({m for _, _, ms in rels for m in ms} | set(objs))
    for o in objs:
        ops.append(('O', o[0], o[1], rng.below(100000)))
        ops.append(('Q', 'n', 0))          # fence between the events of two objects
        if rng.chance(1, 8):
            ops.append(('F',))              # end of an input buffer: SecondPassHandler::flush()
        for _ in range(rng.choice([0, 0, 1, 2])):
            q = rng.choice(universe) if universe else ('w', 1)
            ops.append(('Q', rng.choice([q[0], q[0], rng.choice(KINDS)]), q[1]))
    for q in universe:
        ops.append(('Q', q[0], q[1]))
    ops.append(('Q', rng.choice(KINDS), 999))
    return Hist(variant, rm, mm, cb, wr, rels, ops)


def gen_long(rng, nrel):
    """One long history: > 10 000 stash removals, relations completing all along the stream, so
    that the stash garbage collection runs while members are still needed."""
    rels = []
    for j in range(nrel):
        base = 3 * j + 1
        ms = [(KINDS[(j + t) % 3], base + t) for t in range(2)]
        if j % 5 == 0 and j > 10:
            ms.append((rng.choice(KINDS), 1 + rng.below(3 * j)))       # shared with an earlier relation
        if j % 7 == 0:
            ms.append(ms[0])                                            # duplicate
        if j % 11 == 0:
            ms.append(('w', 10 ** 7 + j))                               # never arrives: incomplete
        rels.append((j + 1, rng.below(1000), ms))
    objs = sorted({m for _, _, ms in rels for m in ms if m[1] < 10 ** 7} | {(k, 3 * nrel + 10 + i) for k in KINDS for i in range(50)},
                  key=lambda o: stream_key(*o))
    ops = []
    for n, o in enumerate(objs):
        ops.append(('O', o[0], o[1], rng.below(100000)))
        ops.append(('Q', 'n', 0))
        if n % 97 == 0:
            q = rng.choice(objs)
            ops.append(('Q', q[0], q[1]))
    return Hist('nwr', 15, 255, True, 64, rels, ops)


# ------------------------------------------------------------------------------------------
# large structured histories: synthesized from a few parameters by all three sides (this module, harness/c11.cpp `GSpec`,
# lean/Driver/C11.lean `GSpec`); the outputs are digests

M64 = (1 << 64) - 1
SHAPES = ['share', 'shareadj', 'window', 'huge', 'pairs', 'random', 'hub']
SIGNS = ['pos', 'neg', 'mixed', 'two-neg']
ORDERS = ['asc', 'desc', 'interleaved']
KC = {'n': 1, 'w': 2, 'r': 3}


def dg_mix(x):
    z = (x + 0x9E3779B97F4A7C15) & M64
    z = ((z ^ (z >> 30)) * 0xBF58476D1CE4E5B9) & M64
    z = ((z ^ (z >> 27)) * 0x94D049BB133111EB) & M64
    return z ^ (z >> 31)


def dg_hm(seed, a, b):
    return dg_mix((dg_mix((seed + a) & M64) + b) & M64)


def dg_step(h, x):
    z = ((h ^ x) * 0x9E3779B97F4A7C15) & M64
    return z ^ (z >> 32)


class GSpec:
    """parameters of one generated history (see the header of lean/Driver/C11.lean)"""
    FIELDS = ['shape', 'n', 'k', 'ro', 'sg', 'st', 'kd', 'miss', 'dup', 'extra', 'ni', 'q', 'seed', 'ak', 'am']

    def __init__(self, variant='nwr', rm=11, mm=255, cb=True, wr=64, **kw):
        self.variant, self.rm, self.mm, self.cb, self.wr = variant, rm, mm, cb, wr
        self.shape, self.n, self.k, self.ro, self.sg, self.st, self.kd = 0, 1, 1, 0, 0, 2, 0
        self.miss, self.dup, self.extra, self.ni, self.q, self.seed = 0, 0, 0, 0, 0, 1
        self.ak, self.am = 0, 1          # id alphabet: members j and j + am differ by 2^ak (0: dense ids)
        for k, v in kw.items():
            setattr(self, k, v)

    def with_n(self, n):
        g = GSpec(self.variant, self.rm, self.mm, self.cb, self.wr)
        for f in self.FIELDS:
            setattr(g, f, getattr(self, f))
        g.n = n
        return g

    def line(self, maxbuf, fixed):
        return 'G %s %d %d %d %d %d %d | %s | E' % (self.variant, self.rm, self.mm, 1 if self.cb else 0, maxbuf, self.wr, fixed,
                                                  ' '.join(str(getattr(self, f)) for f in (self.FIELDS if self.ak else self.FIELDS[:13])))

    def label(self):
        return '%s k=%d n=%d %s ids%s, relations %s, kinds=%s%s%s%s' % (
            SHAPES[self.shape], self.k, self.n, SIGNS[self.sg],
            ' (members j and j+%d differ by 2^%d)' % (self.am, self.ak) if self.ak else '', ORDERS[self.ro], ['w', 'nwr', 'n', 'r'][self.kd],
            ', member j never arrives if j mod %d = %d' % (self.miss, self.miss - 1) if self.miss else '',
            ', relation i repeats its first member if i mod %d = 0' % self.dup if self.dup else '',
            ', member mask %#x' % self.mm if self.mm != 255 else '')

    # -- the generator (same arithmetic as the other two sides)
    def kind_of(self, j):
        return 'w' if self.kd == 0 else 'nwr'[j % 3] if self.kd == 1 else 'n' if self.kd == 2 else 'r'

    def mag(self, j):
        return 10 + j * self.st if self.ak == 0 else 10 + (j % self.am) * self.st + (j // self.am) * (1 << self.ak)

    def valid(self):
        return self.n > 0 and self.k > 0 and self.am > 0 and self.ak <= 62 and (
            self.ak == 0 or ((self.n - 1) // self.am < (1 << (63 - self.ak)) and 10 + self.am * self.st + 1 < (1 << self.ak)))

    def neg(self, j):
        return self.sg == 1 or (self.sg == 2 and j % 3 == 0) or (self.sg == 3 and j < 2)

    def id_of(self, j):
        return -self.mag(j) if self.neg(j) else self.mag(j)

    def n_rels(self):
        return self.n * self.k if self.shape in (0, 1) else 1 + self.n // self.k if self.shape == 3 else self.n

    def member_idx(self, i):
        n, k, sh = self.n, self.k, self.shape
        if sh == 0:
            js = [i % n]
        elif sh == 1:
            js = [i // k]
        elif sh == 2:
            js = [(i + t) % n for t in range(k)]
        elif sh == 3:
            js = list(range(n)) if i == 0 else [(i - 1) * k]
        elif sh == 4:
            js = [i, n - 1 - i]
        elif sh == 5:
            w = 1 + dg_hm(self.seed, i, 3) % k
            js = [dg_hm(self.seed, i, 10 + t) % n for t in range(w)]
        else:
            js = [i, 0] if i % k == 0 else [i]
        if self.dup > 0 and i % self.dup == 0:
            js.append(js[0])
        return js

    def perm(self, p):
        r = self.n_rels()
        return p if self.ro == 0 else r - 1 - p if self.ro == 1 else (p // 2 if p % 2 == 0 else r - 1 - p // 2)

    def content(self, k, oid):
        return dg_hm(self.seed ^ 0x55, abs(oid), KC[k] * 2 + (1 if oid < 0 else 0)) % 100000

    def hist(self):
        mem = [(self.kind_of(j), self.id_of(j)) for j in range(self.n)]
        rels = []
        seed, ni = self.seed, self.ni
        for p in range(self.n_rels()):
            i = self.perm(p)
            cc = 2 if (ni > 0 and i % ni == ni - 1) else dg_hm(seed, i, 2) % 2
            rels.append((i + 1, 4 * (dg_hm(seed, i, 1) % 250) + cc, [mem[j] for j in self.member_idx(i)]))
        objs = []
        for kd in KINDS:
            for neg_pass in (True, False):
                for j in range(self.n):
                    if mem[j][0] == kd and self.neg(j) == neg_pass:
                        if not (self.miss > 0 and j % self.miss == self.miss - 1):
                            objs.append((kd, mem[j][1]))
                        if self.extra > 0 and self.st >= 2 and j % self.extra == 0:
                            objs.append((kd, -(self.mag(j) + 1) if neg_pass else self.mag(j) + 1))
                    if self.kd == 0 and kd == 'n' and not neg_pass and self.extra > 0 and j % (self.extra * 7) == 0:
                        objs.append(('n', self.mag(j)))
        ops = []
        for p, (kd, oid) in enumerate(objs):
            ops.append(('O', kd, oid, self.content(kd, oid)))
            ops.append(('Q', 'n', 0))
            if self.q > 0 and p % self.q == self.q - 1:
                ops.append(('Q',) + mem[dg_hm(seed, p, 7) % self.n])
            if p % 1000 == 999:
                ops.append(('F',))
        if self.q > 0:
            for j in range(self.n):
                ops.append(('Q',) + mem[j])
        return Hist(self.variant, self.rm, self.mm, self.cb, self.wr, rels, ops)


def parse_gline(line):
    """inverse of GSpec.line"""
    secs = [x.split() for x in line.split('|')]
    hd, ps = secs[0], secs[1]
    g = GSpec(hd[1], int(hd[2]), int(hd[3]), hd[4] == '1', int(hd[6]))
    for f, v in zip(GSpec.FIELDS, ps):
        setattr(g, f, int(v))
    return g


def hist_digest(h):
    xs = []
    for rid, content, members in h.rels:
        xs += [rid, content, len(members)]
        for k, ref in members:
            xs.append(KC[k])
            xs.append(ref)
    for op in h.ops:
        if op[0] == 'O':
            xs += [5, KC[op[1]], op[2], op[3]]
        elif op[0] == 'Q':
            xs += [6, KC[op[1]], op[2]]
        else:
            xs.append(7)
    return sum(map(lambda a, b: a * b, xs, range(1, len(xs) + 1))) & M64


def expected_digest(h, e):
    """what the harness must print for a generated history, computed from the oracle's expectations only"""
    H = A = objs = evs = 0
    cks = []
    step = dg_step
    mp = h.variant == 'mp'
    for op, ex in zip(h.ops, e.per_op):
        t = ex[0]
        if t == 'O':
            if ex[3]:
                continue
            for i in ex[1]:
                x = step(1, h.rels[i][0] & M64)
                for k, ref in e.wanted[i]:
                    x = step(step(step(step(x, KC[k]), ref & M64), 2), e.seen[(k, ref)])
                A = (A + x) & M64
                evs += 1
            if ex[2] and not mp:
                A = (A + step(step(2, KC[op[1]]), op[2] & M64)) & M64
                evs += 1
        elif t == 'Q':
            st, ct = (2, ex[1][1]) if isinstance(ex[1], tuple) else (0, 0)
            H = step(step(step(step(step(H, A), 3), KC[op[1]]), op[2] & M64), st * 4294967296 + ct)
            A = 0
            if op[1] == 'n' and op[2] == 0:
                objs += 1
                if objs % 4096 == 0:
                    cks.append(H)
        elif t == 'T':
            H = step(step(H, A), 4)
            A = 0
            break
    cks.append(step(H, A))
    idig = 0
    for rid in e.incomplete:
        idig = step(idig, rid & M64)
    return {'ops': objs, 'ev': evs, 'ck': cks, 'I': (len(e.incomplete), idig)}


def parse_gout(line):
    """`G ops=.. ev=.. ck=a,b,.. hist=.. ; I <n> <digest> ; S .. ; F .. ; U..` -> dict (None if malformed)"""
    try:
        parts = line.split(' ; ')
        f = dict(x.split('=', 1) for x in parts[0].split(' ')[1:])
        out = {'ops': int(f['ops']), 'ev': int(f['ev']), 'ck': [int(x) for x in f['ck'].split(',')], 'hist': int(f['hist'])}
        if not parts[0].startswith('G '):
            return None
        i = parts[1].split(' ')
        out['I'] = (int(i[1]), int(i[2]))
        _, tail = parse_out(' ; '.join(['I -'] + parts[2:]))
        out['tail'] = tail
        return out
    except Exception:
        return None


class Summary:
    """what gen_monitor needs of the oracle's expectations (the expectations of a 10^6-member history are not kept)"""

    def __init__(self, h, e):
        self.wr = h.wr
        self.n_incomplete, self.n_interesting, self.n_completed = len(e.incomplete), len(e.interesting), len(e.completed)
        self.counts = e.counts
        self.exp = expected_digest(h, e)
        self.hist = hist_digest(h)
        self.nrel = len(h.rels)
        self.nobj = sum(1 for o in h.ops if o[0] == 'O')
        self.nontrivial = bool(e.interesting) and self.nobj > 0
        self.profile = alias_profile(h, e) if self.nobj <= 200 else None      # (alphabet class, release order) of colliding ids


def gen_monitor(sm, got):
    """compare the digests of one generated history with the oracle's; -> list of (key, text)"""
    bad = []
    exp = sm.exp
    if got is None:
        return [('malformed-output', 'cannot parse the harness output of a generated history')]
    if got['ops'] != exp['ops']:
        bad.append(('generated-history-objects', 'the harness counted %d objects, the history has %d' % (got['ops'], exp['ops'])))
    if got['ck'] != exp['ck'] or got['ev'] != exp['ev']:
        j = next((j for j in range(min(len(got['ck']), len(exp['ck']))) if got['ck'][j] != exp['ck'][j]), min(len(got['ck']), len(exp['ck'])))
        bad.append(('events-differ', 'callbacks / not-in-any-relation reports / lookups differ from the set-based oracle: %d events, expected %d; '
                    'first difference between object %d and object %d of the stream' % (got['ev'], exp['ev'], j * 4096, min((j + 1) * 4096, exp['ops']))))
    if got['I'] != exp['I']:
        bad.append(('incomplete-list-wrong', 'for_each_incomplete_relation lists %d relations (digest %d); interesting relations never completed: %d (digest %d)'
                    % (got['I'][0], got['I'][1], exp['I'][0], exp['I'][1])))
    tail = got['tail']
    if tail.get('rels') != (sm.n_incomplete, sm.n_interesting):
        bad.append(('relations-db-count', 'relations database holds %r (live/all), expected %r' % (tail.get('rels'), (sm.n_incomplete, sm.n_interesting))))
    for k in KINDS:
        if tail.get('cnt' + k) != sm.counts[k]:
            bad.append(('members-db-count', 'members database %s counts tracked/available/removed = %r, expected %r' % (k, tail.get('cnt' + k), sm.counts[k])))
    if 'F' in tail:
        flushes, flushed, left = tail['F']
        if flushed + left != sm.wr * sm.n_completed:
            bad.append(('output-bytes-lost', 'callbacks wrote %d bytes, flushed %d + left in buffer %d' % (sm.wr * sm.n_completed, flushed, left)))
    return bad


def size_class(n):
    return '<1k' if n < 1000 else '1k-10k' if n < 10000 else '10k-20k' if n < 20000 else '20k-50k' if n < 50000 else '50k-200k' if n < 200000 else '>=200k'


def big_specs(rng, quick, with_lookups, arng=None):
    """(tiny, large) generated histories.  Every run has the fixed core (each shape once, sizes beyond 10 000 / 20 000 /
    40 000 removals in one members database, all id sign classes, all relation orders) plus cases drawn from the seed."""
    q = 37 if with_lookups else 0
    mk = lambda **kw: GSpec(q=q, seed=1 + rng.below(1 << 40), **kw)
    tiny = []
    for _ in range(40 if quick else 600):
        sh = rng.below(7)
        n = 2 + rng.below(rng.choice([6, 30, 300]))
        tiny.append(mk(variant=rng.choice(['nwr', 'nwr', 'w', 'mp', 'nw', 'wr', 'r', 'n']), rm=rng.choice([11, 15, 3]), mm=rng.choice([255, 255, 0xFE, 0x7F, 0xAA]),
                       cb=rng.chance(2, 3), wr=rng.choice([0, 64, 300000]), shape=sh, n=n, k=1 + rng.below(4), ro=rng.below(3), sg=rng.below(4),
                       st=1 + rng.below(3), kd=rng.below(4), miss=rng.choice([0, 0, 2, 5]), dup=rng.choice([0, 0, 1, 3]), extra=rng.choice([0, 1, 4]),
                       ni=rng.choice([0, 0, 3])))
    core = [
        mk(shape=0, n=20000, k=3, ro=0, sg=0, st=2, extra=5),
        mk(shape=1, n=15000, k=2, ro=1, sg=1, st=1),
        mk(shape=2, n=25000, k=4, ro=2, sg=2, st=2, miss=97, dup=5, extra=9),
        mk(shape=4, n=30000, k=1, ro=2, sg=2, st=3, extra=11, variant='w'),
        mk(shape=3, n=30000, k=3, ro=0, sg=2, st=2, dup=1, miss=0),
        mk(shape=5, n=25000, k=4, ro=1, sg=2, st=2, miss=50, ni=7, mm=0xFE, dup=6),
        mk(shape=6, n=20000, k=10, ro=0, sg=1, st=2, extra=3),
        mk(shape=0, n=40000, k=1, ro=2, sg=0, st=1, kd=1),
        mk(shape=1, n=12000, k=4, ro=0, sg=3, st=2, variant='mp', wr=200000),
    ]
    extra = []
    for _ in range(3 if quick else 24):
        sh = rng.below(7)
        k = 1 + rng.below(4) if sh != 6 else 5 + rng.below(20)
        per = k if sh in (0, 1, 2) else 2
        n = max(4000, min(12000 + rng.below(28000), 90000 // per))
        if not quick and rng.chance(1, 4):
            n *= 4
        variant = rng.choice(['nwr', 'nwr', 'w', 'mp', 'nw', 'wr'])
        kd = rng.choice({'nwr': [0, 0, 1, 1, 2, 3], 'w': [0], 'mp': [0], 'nw': [0, 2], 'wr': [0, 3]}[variant])   # member kinds the manager handles
        extra.append(mk(variant=variant, rm=rng.choice([11, 15]), mm=rng.choice([255, 255, 255, 0xFE, 0x7F]),
                        cb=rng.chance(2, 3), wr=rng.choice([0, 64, 2000]), shape=sh, n=n, k=k, ro=rng.below(3), sg=rng.below(3), st=1 + rng.below(3),
                        kd=kd, miss=rng.choice([0, 0, 31, 400]), dup=rng.choice([0, 0, 4, 1000]),
                        extra=rng.choice([0, 7, 50]), ni=rng.choice([0, 0, 9])))
    if not quick:
        extra += [mk(shape=0, n=330000, k=3, ro=2, sg=2, st=2), mk(shape=3, n=1000000, k=4, ro=2, sg=2, st=2, kd=1, miss=13),
                  mk(shape=2, n=250000, k=4, ro=1, sg=1, st=1, dup=3), mk(shape=4, n=500000, k=1, ro=0, sg=2, st=2, variant='w')]
    a_tiny, a_large = alias_specs(arng, quick, q) if arng is not None else ([], [])
    return tiny + a_tiny, core + extra + a_large


def alias_specs(arng, quick, q):
    """generated histories over the ID ALPHABET {x, x + 2^ak, x + 2*2^ak, ..} (own random stream): the members j, j + am,
    j + 2am, .. collide modulo 2^ak; the shape decides the release order (share / shareadj / hub: a member is released when
    it arrives, before its colliding partner arrives; pairs / huge: it is still held; window / random: both)"""
    mk = lambda **kw: GSpec(q=q, seed=1 + arng.below(1 << 40), **kw)
    tiny = []
    for ak in ALIAS_KS:
        for t in range(6 if quick else 60):
            am = arng.choice([1, 2, 3, 5, 8, 13])
            st = 1 + arng.below(3)
            layers = 2 + arng.below(3)
            n = am * layers - (arng.below(am) if arng.chance(1, 3) else 0)
            variant = arng.choice(['nwr', 'nwr', 'nwr', 'w', 'mp', 'nw', 'wr', 'r', 'n'])
            kd = arng.choice({'nwr': [0, 1, 1, 2, 3], 'w': [0], 'mp': [0], 'nw': [0, 2, 1], 'wr': [0, 3, 1], 'r': [3], 'n': [2]}[variant])
            g = mk(variant=variant, rm=arng.choice([11, 15, 15]), mm=arng.choice([255, 255, 255, 0xFE, 0x7F]), cb=arng.chance(2, 3),
                   wr=arng.choice([0, 64]), shape=[0, 1, 2, 3, 4, 5, 6, 0, 2, 4][t % 10] if not quick else arng.choice([0, 0, 1, 2, 3, 4, 4, 5, 6]),
                   n=max(2, n), k=1 + arng.below(3), ro=arng.below(3), sg=arng.below(4), st=st, kd=kd, miss=arng.choice([0, 0, 0, 2, 5]),
                   dup=arng.choice([0, 0, 1, 3]), extra=arng.choice([0, 1, 4]), ni=arng.choice([0, 0, 3]), ak=ak, am=am)
            if g.valid():
                tiny.append(g)
    large = [mk(shape=0, n=20000, k=2, ro=0, sg=0, st=2, extra=5, ak=32, am=5000),
             mk(shape=2, n=24000, k=3, ro=2, sg=1, st=1, ak=20, am=8000, miss=97),
             mk(shape=4, n=20000, k=1, ro=1, sg=2, st=2, ak=40, am=10000, kd=1),
             mk(shape=1, n=20000, k=2, ro=2, sg=0, st=2, extra=3, ak=8, am=100)]
    if not quick:
        large += [mk(shape=6, n=30000, k=7, ro=0, sg=2, st=2, ak=62, am=15000), mk(shape=5, n=40000, k=3, ro=1, sg=3, st=2, ak=21, am=10000, dup=5),
                  mk(shape=0, n=200000, k=3, ro=2, sg=0, st=2, ak=33, am=50000, kd=1), mk(shape=3, n=60000, k=3, ro=0, sg=2, st=2, ak=16, am=20000),
                  mk(shape=0, n=60000, k=2, ro=1, sg=1, st=1, ak=24, am=3), mk(shape=2, n=50000, k=4, ro=0, sg=0, st=3, ak=48, am=1600),
                  mk(shape=4, n=40000, k=1, ro=2, sg=0, st=2, ak=31, am=20000, variant='w')]
    assert all(g.valid() for g in large)
    return tiny, large


def big_pass(ctx, hbin, maxbuf, fixed, f7_present, habin=None, asan_env=None, arng=None):
    """large structured histories: implementation vs set-based oracle (digests), implementation vs compiled model;
    a failing history is reduced (smaller n with the same parameters) and re-run in the one-line-per-object
    format so that the ordinary monitors name the object and the relation"""
    quick = ctx.tier == 'quick'
    t0 = time.time()
    tiny, large = big_specs(ctx.rng, quick, with_lookups=not f7_present, arng=arng)
    specs = tiny + large
    lines = [g.line(maxbuf, fixed) for g in specs]
    text = '\n'.join(lines) + '\n'
    res = {}

    def run_impl():
        try:
            res['impl'] = ctx.run_lines([hbin], text, timeout=(300 if quick else 3600))
        except subprocess.TimeoutExpired:
            res['impl'] = (-999, [], 'timeout: the harness hangs')

    def run_model():
        if ctx.exe_build_ok:
            try:
                res['model'] = ctx.run_lines([ctx.model_exe('model_c11')], text, timeout=(300 if quick else 3600))
            except subprocess.TimeoutExpired:
                res['model'] = (-999, [], 'timeout')
    ths = [threading.Thread(target=run_impl), threading.Thread(target=run_model)]
    for t in ths:
        t.start()
    # the oracle's side, meanwhile
    sums = []
    for g in specs:
        h = g.hist()
        sums.append(Summary(h, oracle(h)))
        del h
    for t in ths:
        t.join()
    rc, impl, se = res['impl']
    ctx.extra['big_histories'] = []
    ctx.count('big-histories', len(large))
    ctx.count('small-generated-histories', len(tiny))

    def one(g):
        """(bad, output line) of the harness on one generated history"""
        h = g.hist()
        e = oracle(h)
        try:
            r1, o1, s1 = ctx.run_lines([hbin], g.line(maxbuf, fixed) + '\n', timeout=300)
        except subprocess.TimeoutExpired:
            return [('harness-hangs', 'the harness does not finish')], '', h, e
        if r1 != 0 or not o1:
            return [('harness-crash', 'the harness dies (rc=%d): %s' % (r1, s1[-300:]))], '', h, e
        return gen_monitor(Summary(h, e), parse_gout(o1[0])), o1[0], h, e

    def localize(g, key):
        """smallest n (same other parameters, bisection) on which the monitor `key` still fires; then the object-level
        message of the ordinary monitors on the one-line-per-object form of that history"""
        lo, hi = 1, g.n          # hi fails
        for _ in range(9):
            if hi - lo <= max(1, hi // 40):
                break
            mid = (lo + hi) // 2
            if any(k == key for k, _ in one(g.with_n(mid))[0]):
                hi = mid
            else:
                lo = mid
        gm = g.with_n(hi)
        bad, out, h, e = one(gm)
        detail = ''
        if sum(1 for o in h.ops if o[0] == 'O') <= 120000:
            hi_ = hints_of(h, e)
            try:
                r1, o1, s1 = ctx.run_lines([hbin], h.line(maxbuf, fixed, hi_) + '\n', timeout=300)
                if r1 == 0 and o1:
                    ms = monitor(h, e, o1[0], hi_)
                    if ms:
                        detail = '; '.join('%s' % w for _, w in ms[:2])
            except subprocess.TimeoutExpired:
                pass
        return gm, out, detail, bad

    if rc != 0 or len(impl) != len(lines):
        culprit = None
        for g, l in zip(specs, lines):
            bad, out, h, e = one(g)
            if bad and bad[0][0] in ('harness-crash', 'harness-hangs'):
                culprit = (g, l, bad[0][1])
                break
        if culprit:
            g, l, what = culprit
            ctx.violation('crash-generated-history', 'the harness dies on a generated history inside the property\'s domain (%s): %s' % (g.label(), what),
                          {'kind': 'counterexample', 'op': l, 'replay': 'echo "<op>" | <harness c11>'})
        else:
            ctx.violation('harness-crash-big', 'harness exited %d on the generated histories: %s' % (rc, se[-500:]), {'kind': 'harness-crash', 'stderr': se[-2000:]}, found_input=False)
        return
    seen_keys = set()
    for g, l, o, sm in zip(specs, lines, impl, sums):
        got = parse_gout(o)
        big = g.n >= 1000
        if got is not None and got['hist'] != sm.hist:
            ctx.violation('generator-mismatch', 'harness/c11.cpp and tools/props/c11.py synthesize different histories from `%s`' % l,
                          {'kind': 'check-error', 'op': l}, found_input=False)
            continue
        bad = gen_monitor(sm, got)
        removed = max(sm.counts[k][2] for k in KINDS)
        outcome = 'ok' if not bad else 'violation'
        alias = '|ids-collide-mod-2^%d' % g.ak if g.ak else ''
        for cls, order in (sm.profile or []):
            ctx.count('alias:%s|%s|%s' % (cls, order, outcome))
        if big:
            ctx.count('big:%s|removals-in-one-db=%s|ids=%s%s|%s' % (SHAPES[g.shape], size_class(removed), SIGNS[g.sg], alias, outcome))
            ctx.extra['big_histories'].append({'op': l, 'what': g.label(), 'relations': sm.nrel, 'objects': sm.nobj, 'completed': sm.n_completed,
                                               'incomplete': sm.n_incomplete, 'members_db_removed': {k: sm.counts[k][2] for k in KINDS},
                                               'outcome': outcome})
        else:
            ctx.count('small-generated:%s|ids=%s%s|%s' % (SHAPES[g.shape], SIGNS[g.sg], '|colliding' if g.ak else '', outcome))
        ctx.note_case(l, nontrivial=sm.nontrivial)
        new_keys = [key for key, _ in bad if key not in seen_keys]
        if not new_keys or len(seen_keys) >= 6:
            continue
        gm, out, detail, bad_m = localize(g, new_keys[0])
        keys_m = dict(bad_m)
        for key, what in bad:
            if key in seen_keys or len(seen_keys) >= 6:
                continue
            seen_keys.add(key)
            gk, wk, dk = (gm, keys_m[key], detail) if key in keys_m else (g, what, '')
            lm = gk.line(maxbuf, fixed)
            ctx.violation(key if key != 'events-differ' else 'events-differ:' + SHAPES[g.shape],
                          '%s  [generated history (%s): %s]%s' % (wk, gk.label(), lm, ('  in detail: ' + dk[:600]) if dk else ''),
                          {'kind': 'counterexample', 'op': lm, 'impl': out[:2000] if gk is gm else o[:2000], 'original_op': l,
                           'replay': 'echo "<op>" | <harness c11>   (python3 tools/check.py C11 evaluates the oracle; the history is synthesized from the parameters, see lean/Driver/C11.lean)'})
    if 'model' in res:
        rcm, model, sem = res['model']
        dis = ctx.diff_streams('c11-generated-model-vs-impl', lines, impl, model)
        if dis and not [v for v in ctx.violations if v.key != F7_KEY]:
            i, op, a, b2 = dis[0]
            pa, pb = a.split(' ; '), b2.split(' ; ')
            j = next((j for j in range(min(len(pa), len(pb))) if pa[j] != pb[j]), 0)
            ctx.violation('correspondence-generated:' + SHAPES[specs[i].shape],
                          'model and implementation disagree on %d generated histories and no property monitor fired; first: `%s` impl=`%s` model=`%s`'
                          % (len(dis), op, pa[j][:300] if j < len(pa) else '', pb[j][:300] if j < len(pb) else ''),
                          {'kind': 'broken-correspondence', 'stream': 'c11-generated-model-vs-impl', 'first': [d[:2] for d in dis[:3]]}, found_input=False)
    # the memory side at these sizes: ASan + UBSan build on a few of the large histories (same digests expected)
    if habin and not [v for v in ctx.violations if v.key != F7_KEY]:
        idx = [i for i, g in enumerate(specs) if g.n >= 1000 and not g.ak][:3 if quick else 8]
        idx += [i for i, g in enumerate(specs) if g.n >= 1000 and g.ak][:1 if quick else 4]
        try:
            rca, oa, sea = ctx.run_lines([habin], '\n'.join(lines[i] for i in idx) + '\n', env=asan_env, timeout=(300 if quick else 3600))
        except subprocess.TimeoutExpired:
            rca, oa, sea = -999, [], 'timeout'
        ctx.count('big-histories-asan', len(idx))
        if rca != 0 or oa != [impl[i] for i in idx]:
            j = next((j for j in range(len(idx)) if j >= len(oa) or oa[j] != impl[idx[j]]), 0)
            sig = re.search(r'(runtime error: [^\n]*|ERROR: AddressSanitizer: [^\n:]*)', sea)
            ctx.violation('asan-generated-history', 'the ASan+UBSan build %s on a generated history (%s): %s'
                          % ('dies (rc=%d)' % rca if rca != 0 else 'gives different results', specs[idx[j]].label(), sig.group(1)[:200] if sig else sea[-300:]),
                          {'kind': 'counterexample', 'op': lines[idx[j]], 'stderr': sea[-2000:]})
    ctx.extra['big_histories_wall_s'] = round(time.time() - t0, 1)


# ------------------------------------------------------------------------------------------
# the ID ALPHABET dimension: ids that collide under any hashing / masking / truncation / abs() of an id
# (x and x ± 2^k, -x, 2^k - x, with their neighbours), of the same member type and across types, as member ids,
# relation ids and lookup keys; every release order of two colliding ids.  The property quantifies over ANY ids: find()
# and add() may depend on id EQUALITY only (Props/C11.lean `removal_of_other_id_irrelevant`).

ALIAS_KS = [8, 16, 20, 21, 24, 31, 32, 33, 40, 48, 62]
ID_LIM = 1 << 63          # object_id_type is int64_t; |id| < 2^63 (INT64_MIN is left out: the managers' users call abs())


def alias_ids(k, x):
    """the id alphabet of (k, x)"""
    P = 1 << k
    ids = [x, x + P, x - P, -x, P - x, -x - P, x + 1, x - 1, x + P + 1, x + P - 1, x - P + 1, -x - 1, x + 2 * P, x - 2 * P,
           x + 3 * P, P, -P, ID_LIM - 1 - x, -(ID_LIM - 1 - x)]
    return [i for i in dict.fromkeys(ids) if i != 0 and -ID_LIM < i < ID_LIM]


def aliasing(a, b):
    """name of the way two different ids collide ('' if they do not): equal magnitude, or equal low k bits of the
    two's complement representation for a k of ALIAS_KS (the largest such k names the class)"""
    if a == b:
        return ''
    if a == -b:
        return 'neg'
    d = (a - b) & M64
    best = 0
    for k in ALIAS_KS:
        if d % (1 << k) == 0:
            best = k
    if best:
        return '2^%d%s' % (best, '' if (a < 0) == (b < 0) else '/sign')
    d = (abs(a) - abs(b))
    for k in ALIAS_KS:
        if d % (1 << k) == 0:
            best = k
    return 'abs2^%d' % best if best else ''


def alias_profile(h, e):
    """[(alphabet class, release order)] for every pair of colliding WANTED member ids of the history (the two ids of the
    same member type, or of different types), read off the oracle's expectations:
      released-before : the last relation needing the first id was completed before the second id arrived
      held-during     : some relation still needed the first id when the second arrived
      second-missing / first-missing / both-missing : that id never arrives"""
    wanted_ids = sorted({w for i in e.interesting for w in e.wanted[i]}, key=lambda w: stream_key(*w))
    if len(wanted_ids) < 2 or len(wanted_ids) > 40:
        return []
    arrive = {}
    done_at = {}
    for idx, (op, ex) in enumerate(zip(h.ops, e.per_op)):
        if ex[0] == 'O' and not ex[3]:
            arrive.setdefault((op[1], op[2]), idx)
            for i in ex[1]:
                done_at[i] = idx
    needed_by = {}
    for i in e.interesting:
        for w in e.wanted[i]:
            needed_by.setdefault(w, set()).add(i)
    out = []
    for ai, a in enumerate(wanted_ids):
        for b in wanted_ids[ai + 1:]:
            cls = aliasing(a[1], b[1])
            if not cls:
                continue
            cls += ':same-type' if a[0] == b[0] else ':cross-type'
            ta, tb = arrive.get(a), arrive.get(b)
            if ta is None and tb is None:
                order = 'both-missing'
            elif tb is None:
                order = 'second-missing'
            elif ta is None:
                order = 'first-missing'
            else:
                if ta > tb:
                    a, b, ta, tb = b, a, tb, ta
                rel_a = max((done_at.get(i, 1 << 60) for i in needed_by[a]), default=0)
                order = 'released-before' if rel_a < tb else 'held-during'
            out.append((cls, order))
    return out


def alias_exhaustive(k, x, tmpl, t, t2, rid_base):
    """ALL histories with two relations of one or two members each over a four-letter alphabet of colliding ids
    (template `tmpl`), x every presence pattern "all arrive / exactly one never arrives", relation ids colliding too;
    lookups of every letter and of a colliding id nobody wants after every object and after the run"""
    P = 1 << k
    letters = [[(t, x), (t, x + P), (t, x + 1), (t, x - P)],
               [(t, x), (t, x + P), (t, -x), (t2, x + P)],
               [(t, -x), (t, P - x), (t, -x - P), (t, x)],
               [(t, x), (t, x + P), (t, x + 2 * P if k < 62 else x + P - 1), (t2, x)]][tmpl]
    letters = [l for l in letters if -ID_LIM < l[1] < ID_LIM and l[1] != 0]
    stranger = (t, x + 3 * P if k < 61 else x + P + 1)
    mlists = [[a] for a in letters] + [[a, b] for i, a in enumerate(letters) for b in letters[i:]]
    rids = [rid_base, rid_base + P]
    out = []
    for m1 in mlists:
        for m2 in mlists:
            rels = [(rids[1], 0, list(m1)), (rids[0], 1, list(m2))]
            for missing in [None] + letters:
                objs = sorted({l for l in letters if l != missing}, key=lambda o: stream_key(*o))
                ops = []
                for o in objs:
                    ops.append(('O', o[0], o[1], (abs(o[1]) * 7 + KORD[o[0]]) % 100000))
                    ops.append(('Q', 'n', 0))
                    for l in letters:
                        ops.append(('Q', l[0], l[1]))
                ops.append(('Q',) + stranger)
                out.append(Hist('nwr', 15, 255, True, 0, rels, ops))
    return out


def gen_alias_history(rng, big=False):
    """a random history as `gen_history`, with member ids, relation ids, unrelated objects and lookup keys all drawn from
    the alphabet of one or two (k, x)"""
    variant = rng.choice(VARIANTS)
    rm = 15 if rng.chance(2, 3) else 1 + rng.below(15)
    mm = 255 if rng.chance(2, 3) else rng.choice([0xFE, 0x7F, 0xAA, 0x55, rng.below(256)])
    cb = rng.chance(2, 3)
    wr = rng.choice([0, 0, 8, 64, 200000])
    ks = [rng.choice(ALIAS_KS)] + ([rng.choice(ALIAS_KS)] if rng.chance(1, 3) else [])
    x = rng.choice([1, 2, 3, 5, 7, 10, 255, 4097, 1 + rng.below(1000)])
    pool = []
    for k in ks:
        pool += alias_ids(k, x)
    pool = list(dict.fromkeys(pool))
    rng.shuffle(pool)
    pool = pool[:4 + rng.below(6 if not big else 14)]
    rpool = alias_ids(rng.choice(ks), rng.choice([1, x, 9]))
    rpool = [i for i in rpool if i > 0] if rng.chance(1, 2) else rpool
    rng.shuffle(rpool)
    nrel = 1 + rng.below(min(len(rpool), 6 if not big else 12))
    kinds_w = rng.choice(['nwr', 'www', 'nnn', 'rrr', 'wwn', 'nnwr', 'rrwn'])
    if variant in ('w', 'mp') and rng.chance(2, 3):
        kinds_w = 'wwwwn'
    rels = []
    for j in range(nrel):
        nm = rng.choice([1, 1, 1, 2, 2, 3, 4])
        ms = []
        for _ in range(nm):
            if ms and rng.chance(1, 8):
                ms.append(rng.choice(ms))
            else:
                ms.append((rng.choice(kinds_w), rng.choice(pool)))
        rels.append((rpool[j], rng.below(1000), ms))
    p_inc = rng.choice([100, 100, 100, 85, 60])
    objs = set()
    for _, _, ms in rels:
        for m in ms:
            if rng.below(100) < p_inc:
                objs.add(m)
    full = []
    for k in ks:
        full += alias_ids(k, x)
    for _ in range(rng.below(5)):
        objs.add((rng.choice(KINDS), rng.choice(full)))       # unrelated objects whose ids collide with tracked ones
    objs = sorted(objs, key=lambda o: stream_key(*o))
    universe = sorted({m for _, _, ms in rels for m in ms} | set(objs))
    ops = []
    for o in objs:
        ops.append(('O', o[0], o[1], rng.below(100000)))
        ops.append(('Q', 'n', 0))
        if rng.chance(1, 10):
            ops.append(('F',))
        for _ in range(rng.choice([0, 1, 2])):
            q = rng.choice(universe)
            ops.append(('Q', rng.choice([q[0], q[0], rng.choice(KINDS)]), rng.choice([q[1], q[1], rng.choice(full)])))
    for q in universe:
        ops.append(('Q', q[0], q[1]))
    for _ in range(3):
        ops.append(('Q', rng.choice(KINDS), rng.choice(full)))
    return Hist(variant, rm, mm, cb, wr, rels, ops)


# ------------------------------------------------------------------------------------------

def extract_max_buffer(ctx):
    p = os.path.join(vlib.REPO, 'include/osmium/memory/callback_buffer.hpp')
    with open(p) as f:
        src = f.read()
    m = re.search(r'default_max_buffer_size\s*=\s*(\d+)UL\s*\*\s*(\d+)UL', src)
    if not m:
        ctx.assumptions.append('default_max_buffer_size not found by the extractor; using 800 KiB')
        return 800 * 1024
    return int(m.group(1)) * int(m.group(2))


# ------------------------------------------------------------------------------------------
# source census: which member functions touch the LAYOUT (size / order of the entries) of `m_elements`?
# (-> lean/Osmium/Generated/C11Layout.lean; Props/C11.lean `layout_changes_only_in_first_pass`: the vector machine
# and `elements_stable_during_add` assume that nothing reachable from add()'s callback moves an element)

LAYOUT_KEEPING = {'size', 'empty', 'capacity', 'begin', 'end', 'cbegin', 'cend', 'data', 'iterate', 'std::equal_range', 'std::lower_bound',
                  'std::upper_bound', 'std::count_if', 'std::find_if', 'std::for_each', 'std::any_of', 'std::all_of', 'std::none_of',
                  'std::binary_search', 'std::distance', 'declaration'}


def extract_layout(ctx):
    path = os.path.join(vlib.REPO, 'include/osmium/relations/members_database.hpp')
    with open(path) as f:
        src = f.read()
    src = re.sub(r'/\*.*?\*/', lambda m: re.sub(r'[^\n]', ' ', m.group(0)), src, flags=re.S)
    src = re.sub(r'//[^\n]*', '', src)
    src = re.sub(r'"(?:[^"\\\n]|\\.)*"', '""', src)
    # scopes: header text before every `{`
    stack = []          # (header, is_function, name)
    uses = []
    last_cut = 0
    i = 0
    n = len(src)
    var = 'm_elements'
    while i < n:
        ch = src[i]
        if ch == '{':
            header = src[last_cut:i].strip()
            m = re.search(r'([~\w]+|operator\s*\S+?)\s*\([^{};]*\)\s*(?:const)?\s*(?:noexcept)?\s*(?:->\s*[\w:<>&\s]+)?\s*(?::[^{};]*)?$', header, flags=re.S)
            name = None
            if m and not re.match(r'(?:if|for|while|switch|catch|else)\b', header.split('(')[0].strip().split()[-1] if header.split('(')[0].strip() else 'if'):
                cand = m.group(1)
                if cand not in ('if', 'for', 'while', 'switch', 'catch', 'return', 'sizeof', 'assert'):
                    name = cand
            stack.append(name)
            last_cut = i + 1
        elif ch == '}':
            if stack:
                stack.pop()
            last_cut = i + 1
        elif ch == ';':
            last_cut = i + 1 if not _in_parens(src, last_cut, i) else last_cut
        elif src.startswith(var, i) and not (src[i - 1].isalnum() or src[i - 1] == '_') and not (src[i + len(var)].isalnum() or src[i + len(var)] == '_'):
            fn = next((x for x in reversed(stack) if x), None)
            rest = src[i + len(var):i + len(var) + 40]
            before = src[max(0, i - 200):i]
            m = re.match(r'\s*\.\s*(\w+)\s*\(', rest)
            if m:
                op = m.group(1)
                if op in ('begin', 'end', 'cbegin', 'cend'):
                    # which algorithm receives the iterator?
                    calls = re.findall(r'(std::\w+|\b\w+)\s*\((?:[^()]|\([^()]*\))*$', before)
                    op2 = calls[-1] if calls else op
                    uses.append((fn or '<class scope>', op2 if op2.startswith('std::') else op))
                else:
                    uses.append((fn or '<class scope>', op))
            elif re.search(r':\s*$', before) and re.search(r'for\s*\([^()]*$', before):
                uses.append((fn or '<class scope>', 'iterate'))
            elif fn is None and re.match(r'\s*;', rest):
                uses.append(('<class scope>', 'declaration'))
            else:
                uses.append((fn or '<class scope>', 'other:' + rest.strip()[:12].replace('"', "'")))
            i += len(var)
            continue
        i += 1
    seen = []
    for u in uses:
        if u not in seen:
            seen.append(u)
    fields, fuses, err = state_census()
    if err:
        ctx.violation('state-census-failed', 'cannot read the data members of the relation manager classes off the clang AST: %s' % err[-400:],
                      {'kind': 'check-error'}, found_input=False)
    lines = ['/-', 'GENERATED by tools/props/c11.py from include/osmium/relations/{members_database,relations_database,relations_manager}.hpp — do not edit.',
             'Part 1 (`uses`, regex census): every use of `m_elements` in members_database.hpp: (member function, operation, does the',
             'operation change the LAYOUT of the vector — its size or the position of an entry?).  Everything that is not known to keep the',
             'layout counts as changing it.',
             'Part 2 (`fields`, `fieldUses`, clang typed AST, asserts compiled in): EVERY data member of the classes MembersDatabaseCommon (+ nested),',
             'MembersDatabase, RelationsDatabase (+ nested), RelationHandle, RelationsManagerBase, RelationsManager, SecondPassHandler, and for',
             'every member function of these classes the data members it reads or writes (a member access that resolves to one of the',
             'listed fields; in dependent contexts: by name).', '-/',
             'namespace Osmium.Generated.C11Layout', '',
             'structure Use where', '  fn : String', '  op : String', '  changesLayout : Bool', '  deriving Repr, DecidableEq', '',
             'def uses : List Use := [']
    lines += [',\n'.join('  ⟨"%s", "%s", %s⟩' % (fn, op, 'false' if op in LAYOUT_KEEPING else 'true') for fn, op in seen)]
    lines += [']', '',
              'structure Field where', '  cls : String', '  name : String', '  type : String', '  deriving Repr, DecidableEq', '',
              'def fields : List Field := [']
    lines += [',\n'.join('  ⟨"%s", "%s", "%s"⟩' % f for f in fields)]
    lines += [']', '',
              'structure FieldUse where', '  cls : String', '  fn : String', '  touches : List String', '  deriving Repr, DecidableEq', '',
              'def fieldUses : List FieldUse := [']
    lines += [',\n'.join('  ⟨"%s", "%s", [%s]⟩' % (c, f, ', '.join('"%s"' % x for x in us)) for c, f, us in fuses)]
    lines += [']', '', 'end Osmium.Generated.C11Layout', '']
    changed = vlib.write_if_changed(os.path.join(vlib.LEAN, 'Osmium', 'Generated', 'C11Layout.lean'), '\n'.join(lines))
    ctx.extra['m_elements_uses'] = ['%s: %s%s' % (fn, op, '' if op in LAYOUT_KEEPING else ' (changes the layout)') for fn, op in seen]
    ctx.extra['state_census'] = {'data_members': ['%s::%s : %s' % f for f in fields], 'functions_touching_data_members': len(fuses)}
    return seen


CENSUS_HEADERS = ['osmium/relations/members_database.hpp', 'osmium/relations/relations_database.hpp', 'osmium/relations/relations_manager.hpp',
                  'osmium/relations/manager_util.hpp']
CENSUS_CLASSES = ['MembersDatabaseCommon', 'MembersDatabase', 'RelationsDatabase', 'RelationHandle', 'RelationsManagerBase', 'RelationsManager',
                  'SecondPassHandler']
_FUN = ('CXXMethodDecl', 'CXXConstructorDecl', 'CXXDestructorDecl')


def state_census():
    """-> (fields [(class, name, type)], uses [(class, function, [field names])], error or None): the data members of the
    relation manager classes (nested classes included) and the member functions that touch them, read off clang's typed AST
    of the CURRENT headers (cached by their hash)"""
    import hashlib
    import json
    inc = os.path.join(vlib.REPO, 'include')
    h = hashlib.sha256()
    try:
        for rel in CENSUS_HEADERS:
            with open(os.path.join(inc, rel), 'rb') as f:
                h.update(f.read())
    except OSError as e:
        return [], [], str(e)
    with open(os.path.abspath(__file__), 'rb') as f:
        h.update(f.read())
    cache = os.path.join(vlib.BUILD, 'c11_census-%s.json' % h.hexdigest()[:16])
    if os.path.exists(cache):
        with open(cache) as f:
            r = json.load(f)
        return [tuple(x) for x in r['fields']], [(c, f_, u) for c, f_, u in r['uses']], None
    work = os.path.join(vlib.BUILD, 'c11_census')
    os.makedirs(work, exist_ok=True)
    tu = os.path.join(work, 'tu-%d.cpp' % os.getpid())
    with open(tu, 'w') as f:
        f.write('#include <osmium/relations/relations_manager.hpp>\n')
    try:
        rc, so, se = vlib.sh(['clang++-14', '-std=gnu++17', '-fsyntax-only', '-I' + inc, '-D' + vlib.GUARD, '-Xclang', '-ast-dump=json',
                              '-Xclang', '-ast-dump-filter=osmium::relations', tu], timeout=300)
    finally:
        os.remove(tu)
    if rc != 0:
        return [], [], 'clang failed: ' + se[-600:]
    dec = json.JSONDecoder()
    roots, i = [], 0
    while i < len(so):
        while i < len(so) and so[i].isspace():
            i += 1
        if i >= len(so):
            break
        o, i = dec.raw_decode(so, i)
        roots.append(o)
    classes = {}          # qualified name -> {'fields': [(name, type, id)], 'methods': [(name, node)], 'id': ..}
    by_id = {}

    def visit(n, path):
        k = n.get('kind')
        if k == 'NamespaceDecl':
            for c in n.get('inner', []):
                visit(c, path)
        elif k == 'ClassTemplateDecl':
            for c in n.get('inner', []):
                if c.get('kind') == 'CXXRecordDecl':
                    visit(c, path)
                    break
        elif k == 'CXXRecordDecl' and n.get('name') and n.get('completeDefinition'):
            if not path and n['name'] not in CENSUS_CLASSES:
                return
            q = '::'.join(path + [n['name']])
            rec = classes.setdefault(q, {'fields': [], 'methods': []})
            by_id[n['id']] = q
            for c in n.get('inner', []):
                ck = c.get('kind')
                if ck == 'FieldDecl':
                    rec['fields'].append((c.get('name', '<unnamed>'), c['type']['qualType'], c['id']))
                elif ck in _FUN and not c.get('isImplicit'):
                    by_id[c['id']] = q
                    rec['methods'].append((c['name'], c))
                elif ck == 'FunctionTemplateDecl':
                    for d in c.get('inner', []):
                        if d.get('kind') in _FUN:
                            by_id[d['id']] = q
                            rec['methods'].append((d['name'], d))
                            break
                elif ck in ('CXXRecordDecl', 'ClassTemplateDecl'):
                    visit(c, path + [n['name']])
                elif ck == 'VarDecl':
                    rec['fields'].append((c.get('name', '<unnamed>'), 'static ' + c['type']['qualType'], c['id']))
        elif k in _FUN and n.get('parentDeclContextId') in by_id:          # out-of-line definition
            classes[by_id[n['parentDeclContextId']]]['methods'].append((n['name'], n))
        elif k == 'FunctionTemplateDecl':
            for d in n.get('inner', []):
                if d.get('kind') in _FUN and d.get('parentDeclContextId') in by_id:
                    classes[by_id[d['parentDeclContextId']]]['methods'].append((d['name'], d))

    for r0 in roots:
        visit(r0, [])
    field_ids = {fid: nm for rec in classes.values() for nm, _, fid in rec['fields']}
    field_names = set(field_ids.values())

    def collect(n, used):
        if isinstance(n, dict):
            k = n.get('kind')
            if k == 'MemberExpr':
                if n.get('referencedMemberDecl') in field_ids:
                    used.add(field_ids[n['referencedMemberDecl']])
            elif k == 'CXXDependentScopeMemberExpr':
                if n.get('member') in field_names:
                    used.add(n['member'])
            elif k == 'DeclRefExpr':
                d = n.get('referencedDecl') or {}
                if d.get('id') in field_ids:
                    used.add(field_ids[d['id']])
            elif k == 'CXXCtorInitializer':
                d = n.get('anyInit') or {}
                if d.get('id') in field_ids:
                    used.add(field_ids[d['id']])
            for v in n.get('inner', []):
                collect(v, used)

    fields, uses = [], []
    for q, rec in classes.items():
        for nm, ty, _ in rec['fields']:
            fields.append((q, nm, ty.replace('"', "'")))
        merged = {}
        for nm, node in rec['methods']:
            u = merged.setdefault(nm, set())
            collect(node, u)
        for nm, u in merged.items():
            if u:
                uses.append((q, nm if nm.startswith('operator') else nm.split('<')[0], sorted(u)))
    tmp = cache + '.tmp%d' % os.getpid()
    with open(tmp, 'w') as f:
        json.dump({'fields': fields, 'uses': uses}, f)
    os.rename(tmp, cache)
    return fields, uses, None


def _in_parens(src, a, b):
    """is position b inside an unclosed parenthesis opened after a?  (the `;` of a for header)"""
    d = 0
    for ch in src[a:b]:
        if ch == '(':
            d += 1
        elif ch == ')':
            d -= 1
    return d > 0


def shrink(h, fails, budget=150):
    """greedy: drop relations, ops, members while `fails(history)` stays true"""
    cur = h
    n = 0
    if len(h.ops) > 2000:
        budget = min(budget, 25)      # long history: only a few cheap attempts
    changed = True
    while changed and n < budget:
        changed = False
        for j in range(len(cur.rels) - 1, -1, -1):
            c = cur.copy()
            del c.rels[j]
            n += 1
            if n < budget and fails(c):
                cur, changed = c, True
        j = len(cur.ops) - 1
        while j >= 0 and n < budget:
            fence = lambda o: o[0] == 'Q' and o[1] == 'n' and o[2] == 0
            if fence(cur.ops[j]) and j > 0 and cur.ops[j - 1][0] == 'O':
                j -= 1          # the fence after an object stays with it (the monitors separate the events of two objects by it)
                continue
            c = cur.copy()
            if c.ops[j][0] == 'O' and j + 1 < len(c.ops) and fence(c.ops[j + 1]):
                del c.ops[j + 1]
            del c.ops[j]
            n += 1
            if fails(c):
                cur, changed = c, True
            j -= 1
        for j in range(len(cur.rels)):
            for t in range(len(cur.rels[j][2]) - 1, -1, -1):
                if n >= budget:
                    break
                c = cur.copy()
                del c.rels[j][2][t]
                n += 1
                if fails(c):
                    cur, changed = c, True
    return cur


def run(ctx):
    rng = ctx.rng
    quick = ctx.tier == 'quick'
    ctx.rule = ('one case = one history (manager variant x interest predicates x relation set x member stream x lookups); '
                'distinct = distinct history lines; a history is non-trivial when at least one relation is interesting and at '
                'least one object of an enabled type arrives')
    maxbuf = extract_max_buffer(ctx)
    ctx.extra['default_max_buffer_size'] = maxbuf

    # ---- 1. proofs (the census of `m_elements` uses is regenerated from the source first) ----------
    try:
        extract_layout(ctx)
    except Exception as ex:
        ctx.violation('layout-census-failed', 'cannot extract the uses of m_elements from members_database.hpp: %r' % (ex,), {'kind': 'check-error'}, found_input=False)
    proof_ok = ctx.proof_stage(exes=['model_c11'])

    # ---- 2. harness builds (plain NDEBUG, ASan+UBSan NDEBUG, debug with asserts) ----------------
    builds = {}

    def b(tag, **kw):
        builds[tag] = vlib.build_cpp('c11' + tag, ['c11.cpp'], flags=['-DOSMIUM_ITEM_STORAGE_GC_DEBUG'], **kw)
    ths = [threading.Thread(target=b, args=('',), kwargs={}),
           threading.Thread(target=b, args=('asan',), kwargs={'asan': True}),
           threading.Thread(target=b, args=('dbg',), kwargs={'ndebug': False})]
    for t in ths:
        t.start()
    for t in ths:
        t.join()
    for tag, (p, err) in builds.items():
        if p is None:
            ctx.violation('harness-build', 'harness (%s) does not compile against the current tree: %s' % (tag or 'plain', err[-600:]),
                          {'kind': 'harness-build', 'stderr': err}, found_input=False)
            return
    hbin, habin, hdbin = builds[''][0], builds['asan'][0], builds['dbg'][0]
    asan_env = {'ASAN_OPTIONS': 'detect_leaks=0:abort_on_error=0', 'UBSAN_OPTIONS': 'print_stacktrace=0'}

    # ---- F7 probe: which remove() does the tree have? -------------------------------------------
    try:
        rc, out, se = ctx.run_lines([hbin], F7_WITNESS % (maxbuf, 0) + '\n', timeout=30)
    except subprocess.TimeoutExpired:
        rc, out, se = -999, [], 'timeout'
    f7_present = bool(out) and 'Q w10=W' in out[0]
    fixed = 0 if f7_present else 1
    ctx.extra['members_db_remove_invalidates_handles'] = not f7_present
    ctx.count('model-mode:' + ('current' if f7_present else 'repaired'))
    if f7_present:
        rc_a, out_a, se_a = ctx.run_lines([habin], (F7_WITNESS % (maxbuf, 0)).replace(' x ', ' d ') + '\n', env=asan_env, timeout=60)
        rc_d, out_d, se_d = ctx.run_lines([hdbin], (F7_WITNESS % (maxbuf, 0)).replace(' x ', ' d ') + '\n', timeout=60)
        san = re.search(r'(runtime error: [^\n]*|ERROR: AddressSanitizer: [^\n]*)', se_a)
        asrt = re.search(r'Assertion [^\n]*', se_d)
        ctx.violation(F7_KEY,
                      'get_member_way(10) after relation 1 (its only user) was completed returns a non-null pointer computed from '
                      'the removed stash entry instead of nullptr; ASan/UBSan build: rc=%d %s; debug build: rc=%d %s'
                      % (rc_a, re.sub(r'0x[0-9a-f]+', '0x..', san.group(1))[:160] if san else 'no report', rc_d, asrt.group(0)[:160] if asrt else 'no assert'),
                      {'kind': 'counterexample', 'op': F7_WITNESS % (maxbuf, 0), 'impl': out[0] if out else '',
                       'expected': 'Q w10=-', 'asan_rc': rc_a, 'asan_stderr': se_a[-1500:], 'debug_rc': rc_d, 'debug_stderr': se_d[-600:],
                       'replay': 'echo "<op>" | .build/c11-<hash>   (c11asan-<hash> / c11dbg-<hash> with hint d)',
                       'proposed_fix': '.build/proposed_fixes/C11-members-db-invalidate-handles.diff'})

    # ---- histories -----------------------------------------------------------------------------
    hists = []
    cdir = os.path.join(vlib.ROOT, 'corpus', 'C11')
    corpus_lines = []
    if os.path.isdir(cdir):
        for fn in sorted(os.listdir(cdir)):
            if fn.endswith('.ops'):
                with open(os.path.join(cdir, fn)) as f:
                    for l in f:
                        l = l.strip()
                        if l and not l.startswith('#'):
                            t = l.split(' ')
                            if len(t) > 7 and t[0] in ('H', 'G'):
                                t[5], t[7] = str(maxbuf), str(fixed)
                            corpus_lines.append(' '.join(t))
    n_hist = 700 if quick else 40000
    for j in range(n_hist):
        hists.append(gen_history(rng, big=(j % 10 == 0)))
    # flush-threshold pairs: same history, different callback / amount written
    pairs = []
    for j in range(60 if quick else 2000):
        h = gen_history(rng)
        h2 = h.copy(cb=not h.cb, wr=rng.choice([0, 8, 300000, 900000]))
        pairs.append((len(hists), len(hists) + 1))
        hists += [h, h2]
    zero_hists = [gen_history(rng, allow_zero=True) for _ in range(40 if quick else 1000)]

    def evaluate(hs, binary, env=None, drop_x=False, with_model=True, stream='c11-model-vs-impl'):
        exps = [oracle(h) for h in hs]
        hintss = [hints_of(h, e) for h, e in zip(hs, exps)]
        lines = [h.line(maxbuf, fixed, hi, drop_x=drop_x) for h, hi in zip(hs, hintss)]
        text = '\n'.join(lines) + '\n'
        try:
            rc, impl, se = ctx.run_lines([binary], text, env=env, timeout=(60 if quick else 1200))
        except subprocess.TimeoutExpired:
            rc, impl, se = -999, [], 'timeout: the harness hangs'
        model = None
        if with_model and ctx.exe_build_ok:
            rcm, model, sem = ctx.run_lines([ctx.model_exe('model_c11')], text, timeout=1800)
        return exps, hintss, lines, rc, impl, se, model

    def fails_with(binary, key, env=None):
        def f(hc):
            e = oracle(hc)
            hi = hints_of(hc, e)
            try:
                rc, out, se = ctx.run_lines([binary], hc.line(maxbuf, fixed, hi) + '\n', env=env, timeout=(20 if len(hc.ops) > 2000 else 2))
            except subprocess.TimeoutExpired:
                return key == 'harness-crash'
            except Exception:
                return False
            if rc != 0 or not out:
                return key == 'harness-crash'
            return any(k == key for k, _ in monitor(hc, e, out[0], hi))
        return f

    def report(hs, exps, hintss, lines, rc, impl, se, model, binary, tag, env=None):
        if rc != 0 or len(impl) != len(lines):
            # find the crashing history
            culprit = None
            for h, l in zip(hs, lines):
                try:
                    r1, o1, s1 = ctx.run_lines([binary], l + '\n', env=env, timeout=(30 if len(l) > 100000 else 3))
                except subprocess.TimeoutExpired:
                    r1, o1, s1 = -999, [], 'timeout: the harness hangs (it walks a dangling object)'
                if r1 != 0 or not o1:
                    culprit = (h, l, r1, s1)
                    break
            if culprit:
                h, l, r1, s1 = culprit
                hm = shrink(h, fails_with(binary, 'harness-crash', env), budget=40)
                e = oracle(hm)
                lm = hm.line(maxbuf, fixed, hints_of(hm, e))
                sig = re.search(r'(runtime error: [^\n]*|ERROR: AddressSanitizer: [^\n:]*|Assertion [^\n]*)', s1)
                ctx.violation('crash-%s:%s' % (tag, (sig.group(1)[:60] if sig else 'rc%d' % r1).replace(' ', '_')),
                              'the %s harness dies (rc=%d) on a history inside the property\'s domain: %s' % (tag, r1, (sig.group(1) if sig else s1[-300:])),
                              {'kind': 'counterexample', 'op': lm, 'original_op': l, 'stderr': s1[-2000:]})
            else:
                ctx.violation('harness-crash-' + tag, 'harness exited %d: %s' % (rc, se[-500:]), {'kind': 'harness-crash', 'stderr': se[-2000:]}, found_input=False)
            return False
        seen_keys = set()
        for h, e, hi, l, o in zip(hs, exps, hintss, lines, impl):
            for key, what in monitor(h, e, o, hi):
                if key == F7_KEY and f7_present:
                    ctx.count('monitor:' + F7_KEY)
                    continue      # reported once, with the minimal witness, above
                if key in seen_keys:
                    continue
                seen_keys.add(key)
                if len(seen_keys) > 6:
                    continue          # enough distinct symptoms of one defect
                hm = h if len(h.ops) > 2000 else shrink(h, fails_with(binary, key, env), budget=80)
                em = oracle(hm)
                him = hints_of(hm, em)
                lm = hm.line(maxbuf, fixed, him)
                try:
                    r1, o1, s1 = ctx.run_lines([binary], lm + '\n', env=env, timeout=30)
                except subprocess.TimeoutExpired:
                    r1, o1, s1 = -999, [], 'timeout'
                whats = [w for k, w in monitor(hm, em, o1[0] if o1 else '', him) if k == key]
                ctx.violation(key, (whats[0] if whats else what) + '  [history: %s]' % lm[:400],
                              {'kind': 'counterexample', 'op': lm, 'impl': o1[0] if o1 else '', 'original_op': l,
                               'replay': 'echo "<op>" | <harness c11>  (python3 tools/check.py C11 evaluates the oracle)'})
        return True

    # ---- replay of a recorded violation: oracle monitors + correspondence on that one history ----
    if getattr(ctx, 'replay', None):
        import json
        with open(ctx.replay) as f:
            rep = json.load(f)
        if rep['op'].startswith('G '):
            g = parse_gline(rep['op'])
            gl = g.line(maxbuf, fixed)
            h = g.hist()
            e = oracle(h)
            rc1, o1, s1 = ctx.run_lines([hbin], gl + '\n', timeout=600)
            vlib.log('replay: impl  = %s' % (o1[0][:400] if o1 else '<none> rc=%d' % rc1))
            bad = gen_monitor(Summary(h, e), parse_gout(o1[0]) if o1 else None)
            if sum(1 for o in h.ops if o[0] == 'O') <= 120000 and bad:
                hi_ = hints_of(h, e)
                r2, o2, s2 = ctx.run_lines([hbin], h.line(maxbuf, fixed, hi_) + '\n', timeout=600)
                if r2 == 0 and o2:
                    bad += monitor(h, e, o2[0], hi_)
            for key, what in bad[:6]:
                ctx.violation(key, '%s  [generated history (%s): %s]' % (what, g.label(), gl), {'kind': 'counterexample', 'op': gl, 'impl': o1[0][:2000] if o1 else ''})
            if ctx.exe_build_ok:
                rcm, om, sem = ctx.run_lines([ctx.model_exe('model_c11')], gl + '\n', timeout=600)
                vlib.log('replay: model = %s' % (om[0][:400] if om else '<none>'))
                if ctx.diff_streams('c11-replay', [gl], o1, om) and not bad:
                    ctx.violation('correspondence-replay', 'model and implementation disagree on the replayed history', {'kind': 'broken-correspondence', 'op': gl}, found_input=False)
            ctx.note_case(gl)
            return
        hr = parse_line(rep['op'])
        res = evaluate([hr], hbin)
        okr = report([hr], *res, hbin, 'plain')
        vlib.log('replay: impl  = %s' % (res[4][0] if res[4] else '<none>'))
        if res[6] is not None:
            vlib.log('replay: model = %s' % (res[6][0] if res[6] else '<none>'))
            if okr and ctx.diff_streams('c11-replay', res[2], res[4], res[6]) and not [v for v in ctx.violations if v.key != F7_KEY]:
                ctx.violation('correspondence-replay', 'model and implementation disagree on the replayed history', {'kind': 'broken-correspondence', 'op': res[2][0]}, found_input=False)
        ctx.note_case(res[2][0])
        return

    # corpus first (lines are run as they are: correspondence only)
    if corpus_lines:
        text = '\n'.join(corpus_lines) + '\n'
        try:
            rc, impl, se = ctx.run_lines([hbin], text, timeout=60)
        except subprocess.TimeoutExpired:
            rc, impl, se = -999, [], 'timeout'
        if ctx.exe_build_ok:
            rcm, model, sem = ctx.run_lines([ctx.model_exe('model_c11')], text, timeout=300)
            dis = ctx.diff_streams('c11-corpus', corpus_lines, impl, model)
            if dis:
                i, op, a, b2 = dis[0]
                ctx.violation('corpus:' + op[:80], 'corpus history: impl and model disagree: impl=%s model=%s' % (a[:200], b2[:200]),
                              {'kind': 'broken-correspondence', 'first': dis[:3]}, found_input=False)

    # main stream, plain build
    res = evaluate(hists, hbin)
    exps, hintss, lines, rc, impl, se, model = res
    ok = report(hists, *res, hbin, 'plain')
    for h, e, l in zip(hists, exps, lines):
        nontrivial = bool(e.interesting) and any(x[0] == 'O' and not x[3] for x in e.per_op if x[0] == 'O')
        ctx.note_case(l, nontrivial=nontrivial)
        ctx.count('variant:' + h.variant)
        ctx.count('completed-relations', len(e.completed))
        ctx.count('incomplete-relations', len(e.incomplete))
        ctx.count('relations-not-interesting', len(h.rels) - len(e.interesting))
        ctx.count('interesting-without-wanted-member', sum(1 for i in e.interesting if not e.wanted[i]))
        ctx.count('relations-with-duplicate-wanted-ref', sum(1 for i in e.interesting if len(set(e.wanted[i])) < len(e.wanted[i])))
        ctx.count('history:out-of-order', 1 if e.thrown else 0)
        for x in e.per_op:
            if x[0] == 'O':
                ctx.count('step:completes-%s' % ('0' if not x[1] else '1' if len(x[1]) == 1 else '2+'))
                if x[2]:
                    ctx.count('step:not-in-any-relation')
                if x[3]:
                    ctx.count('step:disabled-type')
            elif x[0] == 'Q':
                ctx.count('lookup:' + (x[1] if isinstance(x[1], str) else 'found'))
    for l in lines[:3]:
        ctx.sample(l[:300])
    if ok and model is not None:
        dis = ctx.diff_streams('c11-model-vs-impl', lines, impl, model)
        if dis and not [v for v in ctx.violations if v.key != F7_KEY]:
            i, op, a, b2 = dis[0]
            ctx.violation('correspondence:' + vlib.hashlib.sha256(op.encode()).hexdigest()[:10],
                          'model and implementation disagree on %d histories and no property monitor fired; first: `%s` impl=`%s` model=`%s`'
                          % (len(dis), op[:300], a[:300], b2[:300]),
                          {'kind': 'broken-correspondence', 'stream': 'c11-model-vs-impl', 'first': dis[:3]}, found_input=False)
    elif model is None and proof_ok:
        ctx.violation('model-driver-build', 'model driver does not build', {'kind': 'broken-correspondence'}, found_input=False)

    # flush threshold irrelevance on the implementation: same events whatever is written / flushed
    if ok:
        for a, b2 in pairs:
            ea = impl[a].split(' ; F ')[0]
            eb = impl[b2].split(' ; F ')[0]
            if ea != eb:
                ctx.violation('flush-changes-events', 'the same history gives different callbacks/lookups with a different output volume / flush callback: `%s` vs `%s`'
                              % (lines[a][:200], lines[b2][:200]), {'kind': 'counterexample', 'op': lines[a], 'op2': lines[b2], 'impl': impl[a], 'impl2': impl[b2]})
                break
        ctx.count('flush-pairs', len(pairs))
        ctx.count('histories-with-flush', sum(1 for o in impl if re.search(r' ; F [1-9]', o)))

    # ref 0 (outside the property's domain: 0 is the "not interested" mark): correspondence only
    zl = [h.line(maxbuf, fixed, ['x'] * len(h.ops)) for h in zero_hists]   # never dereference here
    rcz, zimpl, sez = ctx.run_lines([hbin], '\n'.join(zl) + '\n', timeout=300)
    if ctx.exe_build_ok and rcz == 0:
        rcm, zmodel, sem = ctx.run_lines([ctx.model_exe('model_c11')], '\n'.join(zl) + '\n')
        # lookups of released objects are not hinted here: compare W/found as "non-null"
        norm = lambda s: re.sub(r'=(?:W|-?\d+:\d+:1)', '=+', s)
        dis = ctx.diff_streams('c11-ref0-model-vs-impl', zl, [norm(x) for x in zimpl], [norm(x) for x in zmodel])
        if dis and not [v for v in ctx.violations if v.key != F7_KEY]:
            i, op, a, b2 = dis[0]
            ctx.violation('correspondence-ref0:' + vlib.hashlib.sha256(op.encode()).hexdigest()[:10],
                          'model and implementation disagree on a history with member ref 0: `%s` impl=`%s` model=`%s`' % (op[:300], a[:300], b2[:300]),
                          {'kind': 'broken-correspondence', 'first': dis[:3]}, found_input=False)
    for l in zl:
        ctx.note_case(l, nontrivial=False)

    # ---- ASan + UBSan build: every lookup dereferences -------------------------------------------
    sub = []
    for h in hists[:250 if quick else 8000]:
        e = oracle(h)
        hi = hints_of(h, e)
        # released lookups are left out of the sanitizer stream until remove() is repaired
        sub.append(h.copy(ops=[op for op, x in zip(h.ops, hi) if not (f7_present and op[0] == 'Q' and x == 'x')]))
    res = evaluate(sub, habin, env=asan_env, stream='c11-asan')
    ok_a = report(sub, *res, habin, 'asan', env=asan_env)
    if ok_a and res[6] is not None:
        dis = ctx.diff_streams('c11-asan-model-vs-impl', res[2], res[4], res[6])
        if dis and not [v for v in ctx.violations if v.key != F7_KEY]:
            i, op, a, b2 = dis[0]
            ctx.violation('correspondence-asan:' + vlib.hashlib.sha256(op.encode()).hexdigest()[:10],
                          'model and ASan build disagree: `%s` impl=`%s` model=`%s`' % (op[:300], a[:300], b2[:300]),
                          {'kind': 'broken-correspondence', 'first': dis[:3]}, found_input=False)
    ctx.count('asan-histories', len(sub))

    # ---- debug build (asserts on): a smaller sample, released lookups left out -------------------
    subd = []
    for h in hists[250:400] if quick else hists[8000:10000]:
        e = oracle(h)
        hi = hints_of(h, e)
        subd.append(h.copy(ops=[op for op, x in zip(h.ops, hi) if not (f7_present and op[0] == 'Q' and x == 'x')]))
    res = evaluate(subd, hdbin, with_model=False)
    report(subd, *res, hdbin, 'debug')
    ctx.count('debug-build-histories', len(subd))

    # ---- the ID ALPHABET dimension: colliding ids (x, x ± 2^k, -x, 2^k - x, neighbours) as member ids of one type and
    # across types, relation ids and lookup keys; own random stream so that the streams above do not depend on it
    arng = vlib.SplitMix64(ctx.seed * 7919 + 0xA11A5)
    t_al = time.time()
    n_exh = n_rand = n_asan = 0
    types = ['n', 'w', 'r']
    viol_before = len(ctx.violations)
    for ki, k in enumerate(ALIAS_KS):       # one chunk per k (bounds the memory of the thorough tier)
        if len(ctx.violations) > viol_before + 3:
            break                           # enough symptoms from this stage
        # quick: one (template, type, x) per k, rotating with the seed; thorough: every template x type
        combos = ([((ctx.seed + ki) % 4, types[(ctx.seed + ki) % 3], arng.choice([1, 5, 7, 255]))] if quick else
                  [(tm, t, arng.choice([1, 2, 5, 255, 4097])) for tm in range(4) for t in types])
        ahists = []
        for tm, t, x in combos:
            if x + 1 >= (1 << k):
                x = 5
            ahists += alias_exhaustive(k, x, tm, t, types[(types.index(t) + 1 + arng.below(2)) % 3], arng.choice([1, x, 1000]))
        ne = len(ahists)
        nr = 230 if quick else 13000
        ahists += [gen_alias_history(arng, big=(j % 8 == 0)) for j in range(nr)]
        n_exh += ne
        n_rand += nr
        res = evaluate(ahists, hbin, stream='c11-alias-model-vs-impl')
        exps_a, hints_a, lines_a, rc_a, impl_a, se_a, model_a = res
        if not report(ahists, *res, hbin, 'plain-ids'):
            break
        for h, e, hi, l, o in zip(ahists, exps_a, hints_a, lines_a, impl_a):
            outcome = 'violation' if monitor(h, e, o, hi) else 'ok'
            prof = alias_profile(h, e)
            for cls, order in prof:
                ctx.count('alias:%s|%s|%s' % (cls, order, outcome))
            ctx.count('alias-histories:%s' % ('with-colliding-wanted-ids' if prof else 'no-colliding-pair'))
            ctx.note_case(l, nontrivial=bool(e.interesting))
        if model_a is not None:
            dis = ctx.diff_streams('c11-alias-model-vs-impl', lines_a, impl_a, model_a)
            if dis and not [v for v in ctx.violations if v.key != F7_KEY]:
                i, op, a, b2 = dis[0]
                ctx.violation('correspondence-ids:' + vlib.hashlib.sha256(op.encode()).hexdigest()[:10],
                              'model and implementation disagree on %d histories over colliding ids and no property monitor fired; first: `%s` impl=`%s` model=`%s`'
                              % (len(dis), op[:300], a[:300], b2[:300]),
                              {'kind': 'broken-correspondence', 'stream': 'c11-alias-model-vs-impl', 'first': dis[:3]}, found_input=False)
        # the memory side: ASan + UBSan build on a sample
        na = 30 if quick else 500
        suba = []
        for h in ahists[ne:ne + na] + ahists[:ne:max(1, ne // na)]:
            e = oracle(h)
            hi = hints_of(h, e)
            suba.append(h.copy(ops=[op for op, x in zip(h.ops, hi) if not (f7_present and op[0] == 'Q' and x == 'x')]))
        res = evaluate(suba, habin, env=asan_env, with_model=False)
        report(suba, *res, habin, 'asan-ids', env=asan_env)
        n_asan += len(suba)
        del ahists, res, exps_a, hints_a, lines_a, impl_a, model_a
    ctx.count('asan-histories-colliding-ids', n_asan)
    ctx.count('alias-histories-exhaustive', n_exh)
    ctx.count('alias-histories-random', n_rand)
    ctx.extra['id_alphabet'] = {'k': ALIAS_KS, 'exhaustive_histories': n_exh, 'random_histories': n_rand, 'wall_s': round(time.time() - t_al, 1),
                                'what': 'ids x, x±2^k, -x, 2^k-x, -x-2^k, x±1, x+2^k±1, x±2*2^k, x+3*2^k, ±2^k, ±(2^63-1-x) as member ids (same type and across '
                                        'types), relation ids and lookup keys; exhaustive = every pair of relations with 1..2 members over a 4-letter '
                                        'alphabet x every presence pattern (all arrive / one never arrives)'}

    # ---- one long history: stash garbage collection while members are in use ----------------------
    total_gcs = 0
    ctx.extra['long_history'] = []
    for nrel in ([7000] if quick else [7000, 10000, 14000]):
        hl = gen_long(rng, nrel)
        res = evaluate([hl], hbin)
        exps_l, hints_l, lines_l, rc_l, impl_l, se_l, model_l = res
        gcs = len(re.findall(r'^GC items=', se_l, flags=re.M))
        e = exps_l[0]
        removals = len(e.completed) + len({w for i in e.completed for w in e.wanted[i]})
        total_gcs += gcs
        ctx.extra['long_history'].append({'relations': nrel, 'objects': sum(1 for o in hl.ops if o[0] == 'O'), 'completed': len(e.completed),
                                     'stash_removals_at_least': removals, 'stash_gc_runs': gcs,
                                     'used_memory': (re.findall(r'MEM [^\n]*', se_l) or [''])[-1]})
        ctx.note_case(lines_l[0])
        okl = report([hl], *res, hbin, 'plain-long')
        if okl and model_l is not None:
            dis = ctx.diff_streams('c11-long-model-vs-impl', lines_l, impl_l, model_l)
            if dis and not [v for v in ctx.violations if v.key != F7_KEY]:
                a, b2 = dis[0][2], dis[0][3]
                # locate the first differing event
                pa, pb = a.split(' ; '), b2.split(' ; ')
                j = next((j for j in range(min(len(pa), len(pb))) if pa[j] != pb[j]), min(len(pa), len(pb)))
                ctx.violation('correspondence-long', 'model and implementation disagree on the long history at event %d: impl=`%s` model=`%s`'
                              % (j, pa[j] if j < len(pa) else '<end>', pb[j] if j < len(pb) else '<end>'),
                              {'kind': 'broken-correspondence', 'op': lines_l[0][:2000] + ' ...'}, found_input=False)
    # ---- large structured histories (size-/count-dependent behaviour: thresholds, amortised clean-ups) -------------
    big_pass(ctx, hbin, maxbuf, fixed, f7_present, habin, asan_env, arng=arng)

    if total_gcs == 0:
        ctx.violation('long-history-no-gc', 'the long histories did not trigger ItemStash::garbage_collect; the generator must be adapted',
                      {'kind': 'check-error'}, found_input=False)

    ctx.assumptions += [
        'ids of the relations of one history are distinct and the member stream has unique ids per type (the documented precondition of the managers)',
        'member reference 0 is outside the domain (the managers use ref 0 as the "not interested" mark); such histories are run for the correspondence only',
        'an interesting relation without any wanted member is never completed by the code and is listed as incomplete (there is no "last member"); the oracle follows the code here',
        'objects of the second pass are represented by (type, id, content); identity with the input object is checked bytewise by the harness',
    ]
    ctx.assumptions.append('generated histories (G lines): ids 10 + j*st or 10 + (j mod am)*st + (j div am)*2^ak (never 0, |id| < 2^63), relation ids 1..R, member stream in file order by construction; '
                           'the generator is implemented three times (harness, model driver, this module) and cross-checked by a digest of the synthesized history')
    ctx.trusted.append('tools/props/c11.py extract_layout: regex census of the uses of m_elements in members_database.hpp (direct uses of the member only)')
    ctx.trusted.append('tools/props/c11.py state_census: data members and member accesses of the relation manager classes read off the JSON AST of clang++-14 '
                       '(FieldDecl / MemberExpr by declaration id, dependent member accesses by name)')
    ctx.assumptions.append('ids are int64 with |id| < 2^63 (INT64_MIN excluded: abs() of it is undefined); the id alphabet streams use ids up to 2^63 - 2')
    ctx.trusted.append('hand transcription of relations_manager.hpp / members_database.hpp / relations_database.hpp into lean/Osmium/Model/RelMgr.lean, checked by the correspondence streams')
